use rsdd::builder::bdd::RobddBuilder;
use rsdd::builder::cache::AllIteTable;
use rsdd::builder::decision_nnf::{DecisionNNFBuilder, StandardDecisionNNFBuilder};
use rsdd::builder::{BottomUpBuilder, TopDownBuilder};
use rsdd::constants::primes;
use rsdd::repr::*;
use rsdd::util::semirings::*;
use std::collections::HashMap;

#[test]
fn d4_field() {
    type F = FiniteField<{ primes::U128_LARGE_1 }>;
    let p = primes::U128_LARGE_1;
    let a = F::new(p - 1);
    assert_eq!((a * a).value(), 1); // (-1)^2
    let b = F::new(p - 2);
    assert_eq!((a * b).value(), 2);
    let x = F::new(123456789012345678901234567u128);
    let y = F::new(987654321098765432109876543u128);
    // check against schoolbook via u128 halves
    fn mulmod(a: u128, b: u128, m: u128) -> u128 { let mut r=0u128; let mut a=a%m; let mut b=b; while b>0 { if b&1==1 { r=(r+a)%m;} a=(a*2)%m; b>>=1;} r }
    assert_eq!((x * y).value(), mulmod(x.value(), y.value(), p));
    type G = FiniteField<7>;
    assert_eq!(((G::new(5) + G::new(4)) - G::new(4)).value(), 5);
    assert_eq!((G::new(2) - G::new(5)).value(), 4);
    type H = FiniteField<{ primes::U64_LARGEST }>;
    let h = H::new(primes::U64_LARGEST - 1);
    assert_eq!((h * h).value(), 1);
}

#[test]
fn d5_smooth() {
    let builder = RobddBuilder::<AllIteTable<BddPtr>>::new_with_linear_order(3);
    let x1 = builder.var(VarLabel::new(1), true);
    let s = builder.smooth(x1, 3);
    let w = WmcParams::new(HashMap::from_iter([
        (VarLabel::new(0), (RealSemiring(2.0), RealSemiring(3.0))),
        (VarLabel::new(1), (RealSemiring(5.0), RealSemiring(7.0))),
        (VarLabel::new(2), (RealSemiring(11.0), RealSemiring(13.0))),
    ]));
    assert_eq!(s.unsmoothed_wmc(&w).0, 5.0 * 7.0 * 24.0); // (2+3)*7*(11+13)=840
    let n = builder.smooth(x1.neg(), 3);
    assert_eq!(n.unsmoothed_wmc(&w).0, 5.0 * 5.0 * 24.0);
}

#[test]
fn d6_d7() {
    let c = Cnf::new(&[]);
    let w: WmcParams<RealSemiring> = WmcParams::new(HashMap::new());
    assert_eq!(c.wmc(&w).0, 1.0);
    let vt = VTree::right_linear(&[VarLabel::new(0), VarLabel::new(1), VarLabel::new(2), VarLabel::new(3)]);
    assert_eq!(VTreeManager::new(vt).num_vars(), 4);
}

#[test]
fn d3_cond() {
    let cnf = Cnf::new(&[vec![Literal::new(VarLabel::new(0), true), Literal::new(VarLabel::new(1), true)]]);
    let b = StandardDecisionNNFBuilder::new(VarOrder::linear_order(2));
    let d = b.compile_cnf_topdown(&cnf);
    let nd = d.neg();
    let c = b.condition(nd, VarLabel::new(0), false); // !(x0|x1) | x0=0  = !x1
    assert!(c.evaluate(&[false, false]));
    assert!(!c.evaluate(&[false, true]));
    let c1 = b.condition(nd, VarLabel::new(0), true);
    assert!(!c1.evaluate(&[true, false]) && !c1.evaluate(&[true, true]));
}

#[test]
fn d2_unitprop() {
    // (!a | !b | d): decide(a), decide(!d) must imply !b
    let l = |v: u64, p: bool| Literal::new(VarLabel::new(v), p);
    let cnf = Cnf::new(&[vec![l(0, false), l(1, false), l(2, true)]]);
    let mut s = SATSolver::new(cnf).unwrap();
    s.decide(l(0, true));
    s.decide(l(2, false));
    assert!(s.is_set(VarLabel::new(1)));
}
