// place at tests/seed_defect.rs
//
// Fails on the UNMODIFIED code: `primes::U64_LARGEST` is not a prime,
//     18_446_744_073_709_551_591 = 2^64 - 25 = (2^32 - 5) * (2^32 + 5)
//                                = 4294967291 * 3^3 * 47 * 3384529,
// so "the 64-bit field" is a ring with zero divisors, and the hash-identified
// SDD builder can be made to return False for a satisfiable conjunction.
use rsdd::builder::sdd::SemanticSddBuilder;
use rsdd::builder::BottomUpBuilder;
use rsdd::constants::primes;
use rsdd::repr::{DDNNFPtr, SddPtr, VTree, VarLabel};
use rsdd::util::semirings::FiniteField;

const P: u128 = primes::U64_LARGEST;

#[test]
fn seed_defect_u64_largest_is_composite() {
    assert_ne!(P % 4294967291, 0, "U64_LARGEST is divisible by 2^32 - 5");
}

#[test]
fn seed_defect_field_has_zero_divisors() {
    let a = FiniteField::<P>::new(4294967291);
    let b = FiniteField::<P>::new(4294967301);
    assert!(a.value() != 0 && b.value() != 0);
    assert_ne!((a * b).value(), 0, "two non-zero elements multiply to zero");
}

/// the disjunction of the minterms (over the six variables `first..first+6`)
/// whose index is set in `mask`; bit `i` of a minterm index is the polarity of
/// variable `first + i`
fn from_minterms<'a>(
    b: &'a SemanticSddBuilder<'a, P>,
    first: u64,
    mask: u64,
) -> SddPtr<'a> {
    let mut f = SddPtr::PtrFalse;
    for m in 0..64u64 {
        if (mask >> m) & 1 == 0 {
            continue;
        }
        let mut t = SddPtr::PtrTrue;
        for i in (0..6u64).rev() {
            t = b.and(SddPtr::Var(VarLabel::new(first + i), (m >> i) & 1 == 1), t);
        }
        f = b.or(f, t);
    }
    f
}

#[test]
fn seed_defect_semantic_builder_conjunction_of_satisfiable_functions_is_false() {
    // found by a meet-in-the-middle search over the (deterministic) weights of
    // `create_semantic_hash_map::<U64_LARGEST>(12)`:
    //   hash(a) = 7892155366767536256  is a multiple of 4294967291,
    //   hash(b) = 13973848453661419926 is a multiple of 4294967301
    const MASK_A: u64 = 0x0a64029970d6069c; // over x0..x5
    const MASK_B: u64 = 0xef0e7e58623ada15; // over x6..x11

    let vars: Vec<VarLabel> = (0..12).map(VarLabel::new).collect();
    let builder = SemanticSddBuilder::<P>::new(VTree::right_linear(&vars));
    let a = from_minterms(&builder, 0, MASK_A);
    let b = from_minterms(&builder, 6, MASK_B);

    // a model of a (minterm 2: only x1 true) and of b (minterm 0: all false)
    let mut model = vec![false; 12];
    model[1] = true;
    assert!(a.evaluate(&model), "a is satisfied by the model");
    assert!(b.evaluate(&model), "b is satisfied by the model");
    assert!(!builder.eq(a, SddPtr::PtrFalse));
    assert!(!builder.eq(b, SddPtr::PtrFalse));

    let c = builder.and(a, b);
    assert!(
        !builder.eq(c, SddPtr::PtrFalse),
        "a & b is satisfiable but the builder judges it equal to False"
    );
    assert!(c.evaluate(&model), "a & b must be satisfied by the model");
}
