use rsdd::builder::decision_nnf::{DecisionNNFBuilder, SemanticDecisionNNFBuilder, StandardDecisionNNFBuilder};
use rsdd::constants::primes;
use rsdd::repr::{Cnf, DDNNFPtr, VarOrder};

#[test]
fn d8_unsat_with_unit_clause_is_false_constant() {
    let cnf = Cnf::from_dimacs("p cnf 3 5\n1 0\n2 3 0\n2 -3 0\n-2 3 0\n-2 -3 0\n");
    let b = StandardDecisionNNFBuilder::new(VarOrder::linear_order(cnf.num_vars()));
    let d = b.compile_cnf_topdown(&cnf);
    for a in 0..8u32 {
        let asg = [a & 1 != 0, a & 2 != 0, a & 4 != 0];
        assert!(!d.evaluate(&asg));
    }
    assert!(d.is_false(), "unsatisfiable CNF did not compile to the false constant: {:?}", d);
    let b2 = SemanticDecisionNNFBuilder::<{ primes::U64_LARGEST }>::new(VarOrder::linear_order(cnf.num_vars()));
    let d2 = b2.compile_cnf_topdown(&cnf);
    assert!(d2.is_false(), "semantic store: {:?}", d2);
}
