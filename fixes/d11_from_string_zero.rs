// place at tests/seed_defect.rs
//
// Cnf::from_string documents the format "(-1 || 0 || 2) && (1)" with
// "Literal negation implied by '-'"; variable 0 written without a minus sign
// must therefore be a positive literal.
use rsdd::repr::{Cnf, Literal, VarLabel};

#[test]
fn seed_defect_from_string_zero_is_positive() {
    let c = Cnf::from_string("(0)");
    assert_eq!(c.clauses(), &[vec![Literal::new(VarLabel::new(0), true)]]);
    assert!(c.eval(&vec![true]));
    assert!(!c.eval(&vec![false]));
}

#[test]
fn seed_defect_from_string_doc_example() {
    // (-1 || 0 || 2) && (1): x0 = T, x1 = T, x2 = F satisfies it (through x0)
    let c = Cnf::from_string("(-1 || 0 || 2) && (1)");
    assert!(c.eval(&vec![true, true, false]));
}
