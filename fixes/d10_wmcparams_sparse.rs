// place at tests/seed_defect.rs
//
// Fails on the UNMODIFIED code: smoothing over the first n = 1 variables of a
// non-identity order and counting with weights for exactly those n variables.

use rsdd::builder::bdd::RobddBuilder;
use rsdd::builder::cache::AllIteTable;
use rsdd::builder::BottomUpBuilder;
use rsdd::repr::{BddPtr, DDNNFPtr, VarLabel, VarOrder, WmcParams};
use rsdd::util::semirings::RealSemiring;
use std::collections::HashMap;

#[test]
fn seed_defect_weights_for_the_smoothed_prefix_only() {
    let order: Vec<VarLabel> = [2u64, 0, 1].iter().map(|v| VarLabel::new(*v)).collect();
    let builder = RobddBuilder::<AllIteTable<BddPtr>>::new(VarOrder::new(&order));
    // f = x2, a function of the first variable of the order
    let f = builder.var(VarLabel::new(2), true);
    let smoothed = builder.smooth(f, 1);
    assert_eq!(smoothed.var_safe(), Some(VarLabel::new(2)));
    assert!(smoothed.low().is_false() && smoothed.high().is_true());

    // weights for the n = 1 smoothed variables; brute force: only x2 = 1 is a model
    let weights = HashMap::from([(VarLabel::new(2), (RealSemiring(3.0), RealSemiring(5.0)))]);
    let params = WmcParams::new(weights); // panics: index 2 out of bounds (len 1)
    assert_eq!(smoothed.unsmoothed_wmc(&params).0, 5.0);
}
