use rsdd::repr::{Cnf, DTree, VarOrder, VarSet};

fn vars_of(t: &DTree) -> &VarSet {
    match t {
        DTree::Node { vars, .. } => vars,
        DTree::Leaf { vars, .. } => vars,
    }
}

fn check(t: &DTree) {
    if let DTree::Node { l, r, vars, .. } = t {
        check(l);
        check(r);
        let want = vars_of(l).union(vars_of(r));
        assert_eq!(
            vars.iter().collect::<Vec<_>>(),
            want.iter().collect::<Vec<_>>(),
            "vars(node) is not the union of its children's"
        );
    }
}

#[test]
fn d9_disconnected_components_have_variable_sets() {
    // two components that share no variable
    let cnf = Cnf::from_dimacs("p cnf 4 2\n1 2 0\n3 4 0\n");
    let d = DTree::from_cnf(&cnf, &VarOrder::linear_order(cnf.num_vars()));
    check(&d);
    assert_eq!(vars_of(&d).iter().count(), 4);
    // four components: nested composition nodes
    let cnf = Cnf::from_dimacs("p cnf 8 4\n1 2 0\n3 4 0\n5 6 0\n7 8 0\n");
    let d = DTree::from_cnf(&cnf, &cnf.min_fill_order());
    check(&d);
    assert_eq!(vars_of(&d).iter().count(), 8);
}
