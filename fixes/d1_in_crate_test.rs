#[test]
fn verif_d1_growth_keeps_lookups_complete() {
    // leak the table so that the &'a mut self borrows can be repeated
    let tbl: &'static mut BackedRobinhoodTable<'static, u64> = Box::leak(Box::new(BackedRobinhoodTable::new()));
    let p = tbl as *mut BackedRobinhoodTable<'static, u64>;
    let mut get = |h: u64, v: u64| -> *const u64 { unsafe { (&mut *p).get_or_insert_by_hash(h, v, false) as *const u64 } };
    let a = get(3 << 18, 1);
    let b = get((5 << 18) + 1, 2);
    for i in 0..91_748u64 {
        get(1000 + i, 100 + i);
    }
    // table has grown by now (load factor 0.7 of 131072)
    let a2 = get(3 << 18, 1);
    let b2 = get((5 << 18) + 1, 2);
    assert_eq!(a, a2, "first item duplicated after growth");
    assert_eq!(b, b2, "second item duplicated after growth");
    let mut dups = 0;
    for i in 0..91_748u64 {
        let before = unsafe { (&*p).num_nodes() };
        get(1000 + i, 100 + i);
        if unsafe { (&*p).num_nodes() } != before { dups += 1; }
    }
    assert_eq!(dups, 0, "{} stored items were not found after growth", dups);
}
