// place at tests/seed_defect.rs
//
// Fails on the UNMODIFIED code: Cnf::force_order() does not produce an order
// for two kinds of degenerate formula (C14: "every variable order the library
// produces (linear, min-fill, FORCE, ...) is a permutation of the formula's
// variables").
use rsdd::repr::{Cnf, Literal, VarLabel, VarOrder};

fn check_perm(o: &VarOrder, n: usize) {
    assert_eq!(o.num_vars(), n);
    let mut seen = vec![false; n];
    for (p, v) in o.in_order_iter().enumerate() {
        assert!(!seen[v.value_usize()]);
        seen[v.value_usize()] = true;
        assert_eq!(o.get(v), p);
        assert_eq!(o.var_at_level(p), v);
    }
}

fn with_empty_clause() -> Cnf {
    Cnf::new(&[
        vec![
            Literal::new(VarLabel::new(0), true),
            Literal::new(VarLabel::new(1), false),
        ],
        vec![],
    ])
}

/// control: min-fill and linear orders are fine on the same formula
#[test]
fn seed_defect_control_other_orders() {
    let cnf = with_empty_clause();
    check_perm(&cnf.min_fill_order(), cnf.num_vars());
    check_perm(&cnf.linear_order(), cnf.num_vars());
}

/// (x0 || !x1) && (): average_span computes `max_pos - min_pos` with
/// min_pos = num_vars and max_pos = 0 for the empty clause
/// -> "attempt to subtract with overflow" at src/repr/cnf.rs:445 (debug);
/// in release the wrapped value poisons the span instead
#[test]
fn seed_defect_force_order_empty_clause() {
    let cnf = with_empty_clause();
    let o = cnf.force_order();
    check_perm(&o, cnf.num_vars());
}

/// a formula without clauses: the average span is 0/0 = NaN, and
/// `prev_span - cur_span < 1.0` is never true for NaN, so the loop never ends
#[test]
fn seed_defect_force_order_no_clauses() {
    let cnf = Cnf::new(&[]);
    let (tx, rx) = std::sync::mpsc::channel();
    std::thread::spawn(move || {
        let o = cnf.force_order();
        let _ = tx.send(o.num_vars());
    });
    let r = rx.recv_timeout(std::time::Duration::from_secs(5));
    assert_eq!(r.ok(), Some(0), "force_order did not return within 5 s");
}
