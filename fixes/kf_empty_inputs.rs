// place at tests/kf_empty_inputs.rs
// KNOWN FINDINGS (recorded, not repaired; see DESIGN.md §5): both tests fail on the current tree.
//  - DTree::from_cnf on the empty formula reaches `assert!(!trees.is_empty())` in DTree::balanced.  A DTree has no
//    representation of "no clauses" (an empty leaf is the empty clause), so the repair is an API decision.
//  - LogicalExpr::from_dimacs on a DIMACS text with an empty clause (or with no clause) pops from an empty vector and
//    unwraps None.  LogicalExpr has no constants, so the empty clause / empty formula has no image.
use rsdd::repr::{Cnf, DTree, LogicalExpr, VarOrder};

#[test]
fn kf_dtree_of_the_empty_formula() {
    let cnf = Cnf::new(&[]);
    let r = std::panic::catch_unwind(|| DTree::from_cnf(&cnf, &VarOrder::linear_order(0)));
    assert!(r.is_ok(), "DTree::from_cnf panicked on the empty formula");
}

#[test]
fn kf_logical_expr_from_dimacs_empty_clause() {
    let text = "p cnf 2 2\n1 2 0\n0\n";
    let r = std::panic::catch_unwind(|| LogicalExpr::from_dimacs(text));
    assert!(r.is_ok(), "LogicalExpr::from_dimacs panicked on an empty clause");
}
