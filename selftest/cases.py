"""Checker self-test cases (DESIGN.md §6): each case edits ONE place of a scratch copy of /repo.

  breaking cases   : the edited tree still compiles; the named rule must report a violation whose
                     key contains `expect`
  preserving cases : behaviour-preserving refactors; the rule must stay silent (`expect` = None)
                     and the instances must still be decided (the property check exits 0)

`props` lists the properties whose check must fail (breaking) / pass (preserving).
"""

B = "src/builder/bdd/robdd.rs"
BB = "src/builder/bdd/builder.rs"
RB = "src/repr/bdd.rs"
RS = "src/repr/sdd.rs"
SB = "src/builder/sdd/builder.rs"
DN = "src/builder/decision_nnf/builder.rs"
UP = "src/repr/unit_prop.rs"
FF = "src/util/semirings/finitefield.rs"
BT = "src/backing_store/bump_table.rs"

CASES = [
    # ------------------------------------------------------------------ re-introduce the repaired defects
    dict(name="D1-regrow-empty-slots", file=BT, rule="TS", props=["C02", "C04"], expect="grow:propagate#itm",
         old="""            if i.is_occupied() {
                let itm = HashTableElement::new(i.ptr.unwrap(), i.hash, 0);
                propagate(&mut self.tbl, self.cap, itm, (i.hash as usize) % c);
            }""",
         new="""            propagate(&mut self.tbl, self.cap, i.clone(), (i.hash as usize) % c);"""),
    dict(name="D2-watchlist-by-decided-polarity", file=UP, rule="WP", props=["C09"], expect="UnitPropagate::decide:pos[candidate",
         old="""                let already_watched = if candidate.polarity() {""",
         new="""                let already_watched = if new_assignment.polarity() {"""),
    dict(name="D3-double-complement", file=DN, rule="CP", props=["C06"], expect="cond_helper",
         old="""                let r = if value { bdd.high_raw() } else { bdd.low_raw() };""",
         new="""                let r = if value { bdd.high() } else { bdd.low() };"""),
    dict(name="D3b-double-complement-recursion", file=DN, rule="CP", props=["C06"], expect="cond_helper",
         old="""                let l = self.cond_helper(bdd.low_raw(), lbl, value);""",
         new="""                let l = self.cond_helper(bdd.low(), lbl, value);"""),
    dict(name="D4a-mul-overflow", file=FF, rule="NB", props=["C13"], expect="mul@U128_LARGE_1",
         old="""        FiniteField::new(mul_mod::<P>(self.v, rhs.v))""",
         new="""        FiniteField::new((self.v * rhs.v) % P)"""),
    dict(name="D4b-absdiff", file=FF, rule="NB", props=["C13"], expect="sub:borrow",
         old="""        FiniteField::new((self.v + P - rhs.v) % P)""",
         new="""        FiniteField::new(if self.v > rhs.v { self.v - rhs.v } else { rhs.v - self.v })"""),
    dict(name="D5-smooth-ignores-level", file=B, rule="SL", props=["C08", "C19"], expect="new#node-var",
         old="""            BddPtr::Reg(node) if node.var == level_var => {""",
         new="""            BddPtr::Reg(node) if node.var == level_var || true => {"""),
    dict(name="D6-wmc-early-break", file="src/repr/cnf.rs", rule="EE", props=["C15"], expect="wmc:loop-exit",
         old="""        for assgn in AssignmentIter::new(self.num_vars()) {
            if self.eval(&assgn) {""",
         new="""        for assgn in AssignmentIter::new(self.num_vars()) {
            if assgn.is_empty() {
                break;
            };
            if self.eval(&assgn) {"""),
    dict(name="D7-numvars-max-label", file="src/repr/vtree.rs", rule="IC", props=["C14"], expect="VTreeManager::num_vars",
         old="""        self.vtree_root().all_vars().into_iter().max().unwrap() + 1""",
         new="""        self.vtree_root().all_vars().into_iter().max().unwrap()"""),
    # ------------------------------------------------------------------ CP
    dict(name="cp-missing-neg-in-cond", file=B, rule="CP", props=["C01"], expect="cond_with_alloc",
         old="""                    return if bdd.is_neg() { r.neg() } else { r };""",
         new="""                    return r;"""),
    dict(name="cp-cache-read-parity", file=B, rule="CP", props=["C01"], expect="cond_with_alloc",
         old="""                    Some(v) => return if bdd.is_neg() { v.neg() } else { *v },""",
         new="""                    Some(v) => return *v,"""),
    dict(name="cp-essential-raw", file=B, rule="CP", props=["C01"], expect="condition_essential",
         old="""                if f.is_neg() {
                    r.neg()
                } else {
                    r
                }""",
         new="""                r"""),
    dict(name="cp-accessor-low-not-negated", file=RB, rule="CP", props=["C01", "C07"], expect="BddPtr::low:contract",
         old="""            Compl(x) => x.low.neg(),""", new="""            Compl(x) => x.low,"""),
    dict(name="cp-fold-children-raw", file=RB, rule="CP", props=["C07"], expect="bottomup_pass_h",
         old="""                            (ptr.low_raw().neg(), ptr.high_raw().neg())""",
         new="""                            (ptr.low_raw().neg(), ptr.high_raw())"""),
    dict(name="cp-sdd-sub-not-negated", file=SB, rule="CP", props=["C03"], expect="and_sub_desc",
         old="""                    let root_s = if r.is_neg() { root_s.neg() } else { root_s };""",
         new="""                    let root_s = if r.is_neg() { root_s } else { root_s };"""),
    dict(name="cp-sdd-accessor", file=RS, rule="CP", props=["C03"], expect="SddPtr::high:contract",
         old="""            ComplBDD(bdd) => bdd.high().neg(),""", new="""            ComplBDD(bdd) => bdd.high(),"""),
    dict(name="cp-serializer-effective-children", file="src/serialize/ser_bdd.rs", rule="CP", props=["C17"], expect="serialize_helper",
         old="""                let l = BDDSerializer::serialize_helper(bdd.low_raw(), table, nodes);""",
         new="""                let l = BDDSerializer::serialize_helper(bdd.low(), table, nodes);"""),
    dict(name="cp-ite-adapter-asymmetric", file="src/builder/cache/lru_app.rs", rule="CP", props=["C16", "C01"], expect="LruIteTable:compl-flag",
         old="""                if compl {
                    r.map(|v| v.neg())
                } else {
                    r
                }""",
         new="""                let _ = compl;
                r"""),
    dict(name="cp-hash-sign", file=RB, rule="CP", props=["C11"], expect="cached_semantic_hash:sign",
         old="""            Compl(_) => self.neg().cached_semantic_hash(order, map).negate(),""",
         new="""            Compl(_) => self.neg().cached_semantic_hash(order, map),"""),
    # ------------------------------------------------------------------ MS / SP
    dict(name="ms-read-swapped", file=RB, rule="MS", props=["C07"], expect="bottomup_pass_h:read",
         old="""                        Some((Some(v), None)) if ptr.is_neg() => v,
                        Some((None, Some(v))) if !ptr.is_neg() => v,""",
         new="""                        Some((Some(v), None)) if !ptr.is_neg() => v,
                        Some((None, Some(v))) if ptr.is_neg() => v,"""),
    dict(name="ms-write-swapped", file=RB, rule="MS", props=["C07"], expect="bdd_fold_h::{closure#0}:write",
         old="""                        self.set_scratch::<(Option<T>, Option<T>)>((Some(res), prev_high));""",
         new="""                        self.set_scratch::<(Option<T>, Option<T>)>((prev_low, Some(res)));"""),
    dict(name="sp-count-nodes-leaks", file=RB, rule="SP", props=["C10"], expect="count_nodes",
         old="""        count_h(*self, &mut count);
        self.clear_scratch();""",
         new="""        count_h(*self, &mut count);"""),
    dict(name="sp-fold-early-return", file=RS, rule="SP", props=["C10"], expect="SddPtr as repr::ddnnf::DDNNFPtr>::fold",
         old="""        let r = bottomup_pass_h(*self, &f);
        self.clear_scratch();
        r""",
         new="""        let r = bottomup_pass_h(*self, &f);
        if self.is_const() {
            self.clear_scratch();
        }
        r"""),
    dict(name="sp-marker-type", file=RB, rule="SP", props=["C10"], expect="SP3",
         old="""                    ptr.set_scratch::<usize>(0);
                    count_h(ptr.low_raw(), count);""",
         new="""                    ptr.set_scratch::<u64>(0);
                    count_h(ptr.low_raw(), count);"""),
    # ------------------------------------------------------------------ WF
    dict(name="wf-ite-args-swapped", file="src/ffi/bdd.rs", rule="WF", props=["C18"], expect="bdd_ite",
         old="""    let and = builder.ite(*f, *g, *h);""", new="""    let and = builder.ite(*f, *h, *g);"""),
    dict(name="wf-high-returns-low", file="src/ffi/bdd.rs", rule="WF", props=["C18"], expect="bdd_high",
         old="""    Box::into_raw(Box::new((*bdd).high()))""", new="""    Box::into_raw(Box::new((*bdd).low()))"""),
    dict(name="wf-weight-hi", file="src/ffi/wmc.rs", rule="WF", props=["C18"], expect="weight_f64_hi",
         old="""unsafe extern "C" fn weight_f64_hi(w: WeightF64) -> f64 {
    w.1""", new="""unsafe extern "C" fn weight_f64_hi(w: WeightF64) -> f64 {
    w.0"""),
    dict(name="wf-set-weight-swapped", file="src/ffi/wmc.rs", rule="WF", props=["C18"], expect="wmc_param_f64_set_weight",
         old="""    (*weights).set_weight(VarLabel::new(var), RealSemiring(low), RealSemiring(high))""",
         new="""    (*weights).set_weight(VarLabel::new(var), RealSemiring(high), RealSemiring(low))"""),
    # ------------------------------------------------------------------ DP / DT / FS
    dict(name="dp-plan-and-is-or", file="src/builder/mod.rs", rule="DP", props=["C05"], expect="compile_plan:And",
         old="""            BottomUpPlan::And(ref l, ref r) => {
                let r1 = self.compile_plan(l);
                let r2 = self.compile_plan(r);
                self.and(r1, r2)""",
         new="""            BottomUpPlan::And(ref l, ref r) => {
                let r1 = self.compile_plan(l);
                let r2 = self.compile_plan(r);
                self.or(r1, r2)"""),
    dict(name="dp-ite-branches-swapped", file="src/builder/mod.rs", rule="DP", props=["C05"], expect="compile_logical_expr:Ite",
         old="""                self.ite(g, t, e)""", new="""                self.ite(g, e, t)"""),
    dict(name="dp-wmc-lit-polarity", file="src/repr/ddnnf.rs", rule="DP", props=["C07"], expect="Lit",
         old="""                    if polarity {
                        *high_w
                    } else {
                        *low_w
                    }""",
         new="""                    if polarity {
                        *low_w
                    } else {
                        *high_w
                    }"""),
    dict(name="dt-xor-is-iff", file=BB, rule="DT", props=["C01"], expect="xor:truth-table",
         old="""        self.ite(f, g.neg(), g)""", new="""        self.ite(f, g, g.neg())"""),
    dict(name="dt-sdd-ite", file=SB, rule="DT", props=["C03"], expect="ite:truth-table",
         old="""        let negfh = self.and(f.neg(), h);""", new="""        let negfh = self.and(f, h);"""),
    dict(name="fs-orlst-seed", file=BB, rule="FS", props=["C01", "C05"], expect="or_lst",
         old="""        let mut cur_bdd = BddPtr::false_ptr();
        for &itm in f {
            cur_bdd = self.or(cur_bdd, itm);""",
         new="""        let mut cur_bdd = BddPtr::true_ptr();
        for &itm in f {
            cur_bdd = self.or(cur_bdd, itm);"""),
    # ------------------------------------------------------------------ GL / HE / RN / TS / IM
    dict(name="gl-lru-no-key-compare", file="src/util/lru.rs", rule="GL", props=["C16"], expect="GL1",
         old="""            Some(ref v) if v.key == key => Some(v.val.clone()),""",
         new="""            Some(ref v) => Some(v.val.clone()),"""),
    dict(name="gl-table-hash-only", file=BT, rule="GL", props=["C02", "C04"], expect="GL3",
         old="""                    if equality_by_hash || *found == elem {""", new="""                    if equality_by_hash || true {"""),
    dict(name="he-binarysdd-eq-drops-label", file="src/repr/sdd/binary_sdd.rs", rule="HE", props=["C04"], expect="BinarySDD:fields",
         old="""            && self.high == other.high
            && self.label == other.label""", new="""            && self.high == other.high"""),
    dict(name="rn-no-sort", file=SB, rule="RN", props=["C04"], expect="RN3:sorted",
         old="""        node.sort_by_key(|a| a.prime());""", new=""""""),
    dict(name="rn-no-reduce", file=B, rule="RN", props=["C02"], expect="ite_helper:RN1",
         old="""        if t == f {
            return t;
        };""", new=""""""),
    dict(name="ts-missing-pop", file=DN, rule="TS", props=["C06"], expect="decide(0):SAT",
         old="""        let low_bdd = match sat.decide(Literal::new(cur_v, false)) {
            DecisionResult::UNSAT => BddPtr::false_ptr(),
            DecisionResult::SAT => {
                let new_assgn = sat.difference_iter().filter(|x| x.label() != cur_v);
                let r = self.conjoin_implied(new_assgn, BddPtr::true_ptr());
                sat.pop();
                r""",
         new="""        let low_bdd = match sat.decide(Literal::new(cur_v, false)) {
            DecisionResult::UNSAT => BddPtr::false_ptr(),
            DecisionResult::SAT => {
                let new_assgn = sat.difference_iter().filter(|x| x.label() != cur_v);
                let r = self.conjoin_implied(new_assgn, BddPtr::true_ptr());
                r"""),
    dict(name="mp-serialise-other-diagram", file="bin/bottomup_formula_to_bdd.rs", rule="MP", props=["C19"], expect="bottomup_formula_to_bdd",
         old="""    let serialized = BDDSerializer::from_bdd(bdd);""", new="""    let serialized = BDDSerializer::from_bdd(bdd.neg());""",
         extra_use="use rsdd::repr::DDNNFPtr;\n"),
    # ------------------------------------------------------------------ behaviour-preserving refactors (must stay silent)
    dict(name="ok-cond-match-instead-of-if", file=B, rule="CP", props=["C01"], expect=None,
         old="""                    return if bdd.is_neg() { r.neg() } else { r };""",
         new="""                    return match bdd {
                        BddPtr::Compl(_) => r.neg(),
                        _ => r,
                    };"""),
    dict(name="ok-hoist-is-neg", file=B, rule="CP", props=["C01"], expect=None,
         old="""                let r = if v { f.high_raw() } else { f.low_raw() };
                if f.is_neg() {""",
         new="""                let negated = f.is_neg();
                let r = if v { f.high_raw() } else { f.low_raw() };
                if negated {"""),
    dict(name="ok-and-swapped-ite", file=BB, rule="DT", props=["C01"], expect=None,
         old="""        self.ite(f, g, BddPtr::false_ptr())""", new="""        self.ite(g, f, BddPtr::false_ptr())"""),
    dict(name="ok-ufcs-call", file="src/ffi/bdd.rs", rule="WF", props=["C18"], expect=None,
         old="""    let and = builder.and(*left, *right);""", new="""    let and = BottomUpBuilder::and(&*builder, *left, *right);"""),
    dict(name="ok-rename-locals", file=DN, rule="TS", props=["C06"], expect=None,
         old="""                let sub = self.topdown_h(cnf, sat, level + 1, cache);
                let new_assgn = sat.difference_iter().filter(|x| x.label() != cur_v);
                let r = self.conjoin_implied(new_assgn, sub);
                sat.pop();
                r
            }
        };
        let low_bdd""",
         new="""                let below = self.topdown_h(cnf, sat, level + 1, cache);
                let implied = sat.difference_iter().filter(|x| x.label() != cur_v);
                let res = self.conjoin_implied(implied, below);
                sat.pop();
                res
            }
        };
        let low_bdd"""),
    dict(name="ok-lru-get-if-let", file="src/util/lru.rs", rule="GL", props=["C16"], expect=None,
         old="""        match v {
            Some(ref v) if v.key == key => Some(v.val.clone()),
            _ => {
                // self.stat.miss_count += 1;
                None
            }
        }""",
         new="""        if let Some(e) = v {
            if e.key == key {
                return Some(e.val.clone());
            }
        }
        None"""),
    dict(name="ok-sub-two-steps", file=FF, rule="NB", props=["C13"], expect=None,
         old="""        FiniteField::new((self.v + P - rhs.v) % P)""",
         new="""        let lifted = self.v + P;
        FiniteField::new((lifted - rhs.v) % P)"""),
]

ITE = "src/builder/cache/ite.rs"
CASES += [
    dict(name="st-reorder-forgets-neg", file=ITE, rule="ST", props=["C01", "C03", "C16"], expect="ite-preserved",
         old="""            (f, g, h) if h.is_true() && order(g, f) => (g.neg(), f.neg(), h),""",
         new="""            (f, g, h) if h.is_true() && order(g, f) => (g.neg(), f, h),"""),
    dict(name="st-compl-choice-wrong-branch", file=ITE, rule="ST", props=["C01", "C16"], expect="ite-preserved",
         old="""            (f, g, h) if f.is_neg() && h.is_neg() => IteComplChoice {
                f: f.neg(),
                g: h.neg(),
                h: g.neg(),
            },""",
         new="""            (f, g, h) if f.is_neg() && h.is_neg() => IteComplChoice {
                f: f.neg(),
                g: g.neg(),
                h: h.neg(),
            },"""),
    dict(name="st-constant-intro", file=ITE, rule="ST", props=["C01"], expect="ite-preserved",
         old="""            (f, g, h) if f == h.neg() => (f, g, T::true_ptr()),""",
         new="""            (f, g, h) if f == h.neg() => (f, g, T::false_ptr()),"""),
    dict(name="ok-st-drop-a-reorder-case", file=ITE, rule="ST", props=["C01"], expect=None,
         old="""            (f, g, h) if g.is_false() && order(h, f) => (h.neg(), g, f.neg()),
""", new=""""""),
    dict(name="sh-shannon-children-swapped", file=B, rule="SH", props=["C01"], expect="SH1",
         old="""        let node = BddNode::new(lbl, f, t);""", new="""        let node = BddNode::new(lbl, t, f);"""),
    dict(name="sh-cofactor-selection", file=B, rule="SH", props=["C01"], expect="condition_essential:SH2",
         old="""                let r = if v { f.high_raw() } else { f.low_raw() };""",
         new="""                let r = if v { f.low_raw() } else { f.high_raw() };"""),
    dict(name="sh-implied-literal-position", file=DN, rule="SH", props=["C06"], expect="conjoin_implied:SH3",
         old="""            let node = if l.polarity() {
                BddNode::new(l.label(), BddPtr::false_ptr(), sub)
            } else {
                BddNode::new(l.label(), sub, BddPtr::false_ptr())
            };
            sub = self.get_or_insert(node);""",
         new="""            let node = if l.polarity() {
                BddNode::new(l.label(), sub, BddPtr::false_ptr())
            } else {
                BddNode::new(l.label(), BddPtr::false_ptr(), sub)
            };
            sub = self.get_or_insert(node);"""),
    dict(name="sh-decision-children-swapped", file=DN, rule="SH", props=["C06"], expect="SH4",
         old="""            let bdd = BddNode::new(cur_v, low_bdd, high_bdd);""", new="""            let bdd = BddNode::new(cur_v, high_bdd, low_bdd);"""),
    dict(name="sh-fold-literal-pairing", file=RB, rule="SH", props=["C07"], expect="SH5:literal-child-pairing",
         old="""                        let and_low = f(DDNNF::And(lit_low, low_v));
                        let and_high = f(DDNNF::And(lit_high, high_v));""",
         new="""                        let and_low = f(DDNNF::And(lit_high, low_v));
                        let and_high = f(DDNNF::And(lit_low, high_v));"""),
    dict(name="cc-clause-with-and", file=SB, rule="SH", props=["C05"], expect="CC:clause",
         old="""                let var = SddPtr::Var(vlabel, val);
                bdd = self.or(bdd, var);""",
         new="""                let var = SddPtr::Var(vlabel, val);
                bdd = self.and(bdd, var);"""),
]

VOF = "src/repr/var_order.rs"
CASES += [
    dict(name="rh-lookup-le", file=BT, rule="RH", props=["C02", "C04"], expect="get_by_hash:early-exit",
         old="""                if cur_itm.psl < psl {
                    return None;
                }""",
         new="""                if cur_itm.psl <= psl {
                    return None;
                }"""),
    dict(name="rh-insert-step-two", file=BT, rule="RH", props=["C02"], expect="get_or_insert_by_hash:step",
         old="""                psl += 1;
                pos = (pos + 1) % self.cap; // wrap to the beginning of the array
            } else {
                // this element is unique, so place it in the current spot""",
         new="""                psl += 1;
                pos = (pos + 2) % self.cap; // wrap to the beginning of the array
            } else {
                // this element is unique, so place it in the current spot"""),
    dict(name="rh-home-before-grow", file=BT, rule="RH", props=["C02", "C04"], expect="home-after-grow",
         old="""        if (self.len + 1) as f64 > (self.cap as f64 * LOAD_FACTOR) {
            self.grow();
        }

        // the current index into the array
        let mut pos: usize = (hash as usize) % self.cap;""",
         new="""        // the current index into the array
        let mut pos: usize = (hash as usize) % self.cap;
        if (self.len + 1) as f64 > (self.cap as f64 * LOAD_FACTOR) {
            self.grow();
        }
"""),
    dict(name="vo-get-wrong-table", file=VOF, rule="VO", props=["C01", "C02", "C14"], expect="VarOrder::get",
         old="""        self.var_to_pos[var.value() as usize]
    }""", new="""        self.pos_to_var[var.value() as usize]
    }"""),
    dict(name="wi-advance-after-remove", file=UP, rule="WI", props=["C09"], expect="index-progress",
         old="""                // do not increment watcher_idx (since we decreased the total number of watchers, we have made progress)""",
         new="""                watcher_idx += 1;"""),
    dict(name="law-boolean-xor", file="src/util/semirings/boolean.rs", rule="LAW", props=["C13", "C07"], expect="BooleanSemiring:add",
         old="""        BooleanSemiring(self.0 || rhs.0)""", new="""        BooleanSemiring(self.0 ^ rhs.0)"""),
    dict(name="law-eu-product-rule", file="src/util/semirings/expectation.rs", rule="LAW", props=["C13"], expect="ExpectedUtility:",
         old="""        let eu: f64 = (self.0 * rhs.1) + (self.1 * rhs.0);""", new="""        let eu: f64 = (self.0 * rhs.1) + (self.1 * rhs.1);"""),
    dict(name="law-complex-sign", file="src/util/semirings/complex.rs", rule="LAW", props=["C13"], expect="Complex:",
         old="""            re: self.re * rhs.re - self.im * rhs.im,""", new="""            re: self.re * rhs.re + self.im * rhs.im,"""),
    dict(name="law-poly-overwrite", file="src/util/semirings/polynomial_semiring_implementation.rs", rule="LAW", props=["C13"], expect="mul-convolution",
         old="""                    new_coeffs[i + j] =
                        new_coeffs[i + j] + (self.coefficients[i] * rhs.coefficients[j]);""",
         new="""                    new_coeffs[i + j] = self.coefficients[i] * rhs.coefficients[j];"""),
    dict(name="law-eu-mul-zero-probability-shortcut", file="src/util/semirings/expectation.rs", rule="LAW", props=["C13", "C07"],
         expect="mul-fast-path",
         old="""        let eu: f64 = (self.0 * rhs.1) + (self.1 * rhs.0);
        ExpectedUtility(self.0 * rhs.0, eu)""",
         new="""        if self.0 == 0.0 || rhs.0 == 0.0 {
            return ExpectedUtility(0.0, 0.0);
        }
        let eu: f64 = (self.0 * rhs.1) + (self.1 * rhs.0);
        ExpectedUtility(self.0 * rhs.0, eu)"""),
    dict(name="law-eu-mul-zero-element-shortcut-ok", file="src/util/semirings/expectation.rs", rule="LAW", props=["C13", "C07"],
         expect=None,
         old="""        let eu: f64 = (self.0 * rhs.1) + (self.1 * rhs.0);
        ExpectedUtility(self.0 * rhs.0, eu)""",
         new="""        if self.0 == 0.0 && self.1 == 0.0 {
            return ExpectedUtility(0.0, 0.0);
        }
        let eu: f64 = (self.0 * rhs.1) + (self.1 * rhs.0);
        ExpectedUtility(self.0 * rhs.0, eu)"""),
    dict(name="law-real-mul-zero-shortcut-ok", file="src/util/semirings/realsemiring.rs", rule="LAW", props=["C13", "C07"],
         expect=None,
         old="""        RealSemiring(self.0 * rhs.0)
    }
}

impl ops::Sub<RealSemiring> for RealSemiring {""",
         new="""        if rhs.0 == 0.0 {
            return RealSemiring(0.0);
        }
        RealSemiring(self.0 * rhs.0)
    }
}

impl ops::Sub<RealSemiring> for RealSemiring {"""),
    dict(name="nc-dimacs-long-clauses-skipped", file="src/repr/cnf.rs", rule="NC", props=["C17", "C19"], expect="loop@clauses",
         old="""            clause_vec.push(lit_vec);""",
         new="""            if lit_vec.len() > 64 {
                continue;
            }
            clause_vec.push(lit_vec);"""),
    dict(name="nc-dtree-leaves-filtered", file="src/repr/dtree.rs", rule="NC", props=["C05", "C14"], expect="chain@",
         old="""                l.init_vars();
                l
            })
            .collect();""",
         new="""                l.init_vars();
                l
            })
            .filter(|l| !l.get_vars().is_empty())
            .collect();"""),
    dict(name="mk-cond-memo-stores-unadjusted", file=B, rule="MK", props=["C01"], expect="MK1",
         old="""                if bdd.is_neg() {
                    cache.insert(bdd, res.neg());
                } else {
                    cache.insert(bdd, res);
                }""",
         new="""                cache.insert(bdd, res);"""),
    dict(name="mk-cond-memo-keyed-by-node-unadjusted", file=B, rule="MK", props=["C01"], expect="MK",
         old="""                match cache.get(&bdd) {
                    None => (),
                    Some(v) => return if bdd.is_neg() { v.neg() } else { *v },
                };""",
         new="""                match cache.get(&bdd) {
                    None => (),
                    Some(v) => return *v,
                };"""),
    dict(name="ws-dup-new-watch-ignores-other-watch", file="src/repr/unit_prop.rs", rule="WS", props=["C09"], expect="WS-dup",
         old="""                let new_lit: &Literal = if already_watched {
                    remaining_lits.nth(1).unwrap()
                } else {
                    remaining_lits.next().unwrap()
                };""",
         new="""                let _ = already_watched;
                let new_lit: &Literal = remaining_lits.next().unwrap();"""),
    dict(name="ts-stk-pushed-model-is-the-old-model", file=UP, rule="TS", props=["C09"], expect="pushed-state",
         old="""                self.state_stack.push(SatState {
                    model: new_model,""",
         new="""                let _ = &new_model;
                self.state_stack.push(SatState {
                    model: self.top_state().model.clone(),"""),
    dict(name="he-eq-compl-equals-reg", file="src/repr/bdd.rs", rule="HE", props=["C02"], expect="BddPtr:eq-identity",
         old="""            (Self::Reg(l0), Self::Reg(r0)) => std::ptr::eq(*l0, *r0),
            _ => core::mem::discriminant(self) == core::mem::discriminant(other),""",
         new="""            (Self::Reg(l0), Self::Reg(r0)) => std::ptr::eq(*l0, *r0),
            (Self::Reg(l0), Self::Compl(r0)) => std::ptr::eq(*l0, *r0),
            _ => core::mem::discriminant(self) == core::mem::discriminant(other),"""),
    dict(name="he-eq-or-pattern-ok", file="src/repr/bdd.rs", rule="HE", props=["C02"], expect=None,
         old="""            (Self::Compl(l0), Self::Compl(r0)) => std::ptr::eq(*l0, *r0),
            (Self::Reg(l0), Self::Reg(r0)) => std::ptr::eq(*l0, *r0),
            _ => core::mem::discriminant(self) == core::mem::discriminant(other),""",
         new="""            (Self::Compl(l0), Self::Compl(r0)) | (Self::Reg(l0), Self::Reg(r0)) => std::ptr::eq(*l0, *r0),
            (Self::PtrTrue, Self::PtrTrue) | (Self::PtrFalse, Self::PtrFalse) => true,
            _ => false,"""),
    dict(name="rn2-false-high-stays-regular", file=B, rule="RN", props=["C02"], expect="RN2:Compl",
         old="""            if bdd.high.is_neg() || bdd.high.is_false() {""",
         new="""            if bdd.high.is_neg() {"""),
    dict(name="law-eu-choose-smaller", file="src/util/semirings/expectation.rs", rule="LAW", props=["C13"], expect="ExpectedUtility:choose",
         old="""impl BBSemiring for ExpectedUtility {
    fn choose(&self, arg: &ExpectedUtility) -> ExpectedUtility {
        if self.1 > arg.1 {""",
         new="""impl BBSemiring for ExpectedUtility {
    fn choose(&self, arg: &ExpectedUtility) -> ExpectedUtility {
        if self.1 < arg.1 {"""),
    dict(name="ok-law-complex-commuted-factors", file="src/util/semirings/complex.rs", rule="LAW", props=["C13"], expect=None,
         old="""            im: self.re * rhs.im + self.im * rhs.re,""", new="""            im: rhs.re * self.im + rhs.im * self.re,"""),
    dict(name="cn-dedup-by-label", file="src/repr/cnf.rs", rule="CN", props=["C15", "C17"], expect="Cnf::new",
         old="""                clause.dedup();""", new="""                clause.dedup_by_key(|a| a.label());"""),
    dict(name="gl6-shared-memo", file=B, rule="GL", props=["C01", "C05"], expect="GL6",
         old="""        let mut bdd = bdd;
        for m in m.assignment_iter() {
            bdd = self.condition(bdd, m.label(), m.polarity());
        }""",
         new="""        let mut bdd = bdd;
        let mut cache = HashMap::new();
        for m in m.assignment_iter() {
            bdd = self.cond_with_alloc(bdd, m.label(), m.polarity(), &mut cache);
        }"""),
    dict(name="sl-decision-node-same-child-twice", file=B, rule="SL", props=["C08", "C19"], expect="node-var",
         old="""                    self.smooth_helper(node.high, current + 1, total),""",
         new="""                    self.smooth_helper(node.low, current + 1, total),"""),
    dict(name="sl-base-case-mirrored-comparison-ok", file=B, rule="SL", props=["C08", "C19"], expect=None,
         old="""        if current >= total {
            return bdd;""",
         new="""        if total <= current {
            return bdd;"""),
    dict(name="sl3-false-shortcut", file=B, rule="SL", props=["C08", "C19"], expect="return-as-is",
         old="""            BddPtr::Reg(_) | BddPtr::PtrTrue | BddPtr::PtrFalse => {""",
         new="""            BddPtr::PtrFalse => bdd,
            BddPtr::Reg(_) | BddPtr::PtrTrue => {"""),
    dict(name="nbinv-conditional-subtraction-off-by-one", file=FF, rule="NB", props=["C13", "C11"], expect="literal-reduced",
         old="""        FiniteField::new((self.v + rhs.v) % P)""",
         new="""        let s = self.v + rhs.v;
        FiniteField { v: if s > P { s - P } else { s } }"""),
    dict(name="ok-nbinv-conditional-subtraction", file=FF, rule="NB", props=["C13"], expect=None,
         old="""        FiniteField::new((self.v + rhs.v) % P)""",
         new="""        let s = self.v + rhs.v;
        FiniteField { v: if s >= P { s - P } else { s } }"""),
    dict(name="ser-cached-pointer", file="src/serialize/ser_bdd.rs", rule="CP", props=["C17", "C19"], expect="ser_bdd::BDDSerializer::serialize_helper:compl-flag",
         old="""                    return SerBDDPtr::Ptr {
                        index: *table.get(&node).unwrap(),
                        compl: bdd.is_neg(),
                    };""",
         new="""                    return SerBDDPtr::Ptr {
                        index: *table.get(&node).unwrap(),
                        compl: false,
                    };"""),
]

CASES += [
    dict(name="D8-false-result-wrapped", file=DN, rule="RN", props=["C06"], expect="compile_cnf_topdown:RN4",
         old="""        if r.is_false() {
            return BddPtr::false_ptr();
        }

        // conjoin in any initially implied literals""",
         new="""        // conjoin in any initially implied literals"""),
]

CASES += [
    dict(name="D9-composition-without-init-vars", file="src/repr/dtree.rs", rule="DTR", props=["C14"], expect="from_cnf:DTR1",
         old="""        res.init_vars();
        res.gen_cutset(&VarSet::new());""",
         new="""        res.gen_cutset(&VarSet::new());"""),
    dict(name="dtr-cutset-ignores-ancestors", file="src/repr/dtree.rs", rule="DTR", props=["C14"], expect="gen_cutset:DTR3",
         old="""                let my_cutset = intersect.minus(ancestor_cutset);
                let new_ancestor_cutset = ancestor_cutset.union(&my_cutset);""",
         new="""                let my_cutset = intersect.minus(ancestor_cutset);
                let new_ancestor_cutset = my_cutset.clone();"""),
]

CASES += [
    dict(name="sa-dispatch-swapped", file=SB, rule="SA", props=["C03"], expect="SA2:and_prime_desc",
         old="""            self.and_prime_desc(b, a)""", new="""            self.and_prime_desc(a, b)"""),
    dict(name="sa-base-case-wrong", file=SB, rule="SA", props=["C03"], expect="SA1",
         old="""            (a, b) if self.eq(a, b.neg()) => return SddPtr::false_ptr(),""",
         new="""            (a, b) if self.eq(a, b.neg()) => return a,"""),
    dict(name="sa-normalise-inverted", file=SB, rule="SA", props=["C03"], expect="SA2:normalise",
         old="""                .is_prime_index(self.vtree_index(a), self.vtree_index(b))
        {
            (a, b)
        } else {
            (b, a)
        };""",
         new="""                .is_prime_index(self.vtree_index(a), self.vtree_index(b))
        {
            (b, a)
        } else {
            (a, b)
        };"""),
    dict(name="vx-lca-without-mapping", file="src/repr/vtree.rs", rule="VX", props=["C03", "C14"], expect="VTreeManager::lca",
         old="""        let bfs_r = self.dfs_to_bfs[r.0];
        let bfs_idx = self.lca.lca(bfs_l, bfs_r);""",
         new="""        let bfs_r = self.dfs_to_bfs[r.0];
        let bfs_idx = self.lca.lca(bfs_l, r.0);
        let _ = bfs_r;"""),
    dict(name="vx-prime-order-reversed", file="src/repr/vtree.rs", rule="VX", props=["C03", "C14"], expect="is_prime_index:order",
         old="""        l.0 < r.0""", new="""        l.0 > r.0"""),
]

# ------------------------------------------------------------------ rules added after the second seeding round
MODEL = "src/repr/model.rs"
CNF = "src/repr/cnf.rs"
SEM = "src/builder/sdd/semantic.rs"
CASES += [
    dict(name="he-ord-skips-high", file="src/repr/sdd/binary_sdd.rs", rule="HE", props=["C04"], expect="BinarySDD:ord-fields",
         old="""        match self.high.cmp(&other.high) {""", new="""        match self.low.cmp(&other.low) {"""),
    dict(name="he-ord-crossed-fields", file="src/repr/sdd/binary_sdd.rs", rule="HE", props=["C04"], expect="BinarySDD:ord-fields",
         old="""        match self.high.cmp(&other.high) {""", new="""        match self.high.cmp(&other.low) {"""),
    dict(name="he-ord-reordered-ok", file="src/repr/sdd/binary_sdd.rs", rule="HE", props=["C04"], expect=None,
         old="""        match self.low.cmp(&other.low) {
            core::cmp::Ordering::Equal => {}
            ord => return ord,
        }
        match self.high.cmp(&other.high) {""",
         new="""        match self.high.cmp(&other.high) {
            core::cmp::Ordering::Equal => {}
            ord => return ord,
        }
        match self.low.cmp(&other.low) {"""),
    dict(name="vo-label-order-in-sdd-condition", file=SB, rule="VO", props=["C03"], expect="condition:label-order",
         old="""            // if f.is_bdd() {
            //     if f.topvar() == lbl {""",
         new="""            SddPtr::BDD(bdd) | SddPtr::ComplBDD(bdd) if lbl < bdd.label() => f,
            // if f.is_bdd() {
            //     if f.topvar() == lbl {"""),
    dict(name="vo-label-value-order-in-sdd-condition", file=SB, rule="VO", props=["C03"], expect="condition:label-order",
         old="""            // if f.is_bdd() {
            //     if f.topvar() == lbl {""",
         new="""            SddPtr::BDD(bdd) | SddPtr::ComplBDD(bdd) if lbl.value() < bdd.label().value() => f,
            // if f.is_bdd() {
            //     if f.topvar() == lbl {"""),
    dict(name="dt-compose-shannon-override", file=SB, rule="DT", props=["C03"], expect="compose:truth-table",
         old="""    /// compile an SDD from an input CNF
    fn compile_cnf(&'a self, cnf: &Cnf) -> SddPtr<'a> {
        let mut cvec: Vec<SddPtr> = Vec::with_capacity(cnf.clauses().len());""",
         new="""    fn compose(&'a self, f: SddPtr<'a>, lbl: VarLabel, g: SddPtr<'a>) -> SddPtr<'a> {
        let f_hi = self.condition(f, lbl, true);
        let f_lo = self.condition(f, lbl, false);
        self.ite(g, f_hi, f_lo)
    }

    /// compile an SDD from an input CNF
    fn compile_cnf(&'a self, cnf: &Cnf) -> SddPtr<'a> {
        let mut cvec: Vec<SddPtr> = Vec::with_capacity(cnf.clauses().len());"""),
    dict(name="dt-compose-override-same-definition-ok", file=SB, rule="DT", props=["C03"], expect=None,
         old="""    /// compile an SDD from an input CNF
    fn compile_cnf(&'a self, cnf: &Cnf) -> SddPtr<'a> {
        let mut cvec: Vec<SddPtr> = Vec::with_capacity(cnf.clauses().len());""",
         new="""    fn compose(&'a self, f: SddPtr<'a>, lbl: VarLabel, g: SddPtr<'a>) -> SddPtr<'a> {
        let v = self.var(lbl, true);
        let both = self.and(f, self.iff(g, v));
        self.exists(both, lbl)
    }

    /// compile an SDD from an input CNF
    fn compile_cnf(&'a self, cnf: &Cnf) -> SddPtr<'a> {
        let mut cvec: Vec<SddPtr> = Vec::with_capacity(cnf.clauses().len());"""),
    dict(name="rn3-condition-skips-canonicalize", file=SB, rule="RN", props=["C04"], expect="condition:RN3:unique_or-caller",
         old="""                self.canonicalize(v, f.vtree())
            }
        }
    }""",
         new="""                if v.len() > 2 {
                    return self.unique_or(v, f.vtree());
                }
                self.canonicalize(v, f.vtree())
            }
        }
    }"""),
    dict(name="lt-set-weight-inserts", file="src/repr/wmc.rs", rule="LT", props=["C07"], expect="var_to_val",
         old="""        self.var_to_val[n] = Some((low, high));""", new="""        self.var_to_val.insert(n, Some((low, high)));"""),
    dict(name="lt-set-weight-get-mut-ok", file="src/repr/wmc.rs", rule="LT", props=["C07"], expect=None,
         old="""        self.var_to_val[n] = Some((low, high));""", new="""        *self.var_to_val.get_mut(n).unwrap() = Some((low, high));"""),
    dict(name="td-implied-filtered-by-order", file=DN, rule="TD", props=["C06"], expect="implied-set",
         old="""        let high_bdd = match sat.decide(Literal::new(cur_v, true)) {
            DecisionResult::UNSAT => BddPtr::false_ptr(),
            DecisionResult::SAT => {
                let new_assgn = sat.difference_iter().filter(|x| x.label() != cur_v);""",
         new="""        let high_bdd = match sat.decide(Literal::new(cur_v, true)) {
            DecisionResult::UNSAT => BddPtr::false_ptr(),
            DecisionResult::SAT => {
                let new_assgn = sat.difference_iter().filter(|x| x.label().value() > cur_v.value());"""),
    dict(name="td-filter-not-eq-ok", file=DN, rule="TD", props=["C06"], expect=None,
         old="""        let high_bdd = match sat.decide(Literal::new(cur_v, true)) {
            DecisionResult::UNSAT => BddPtr::false_ptr(),
            DecisionResult::SAT => {
                let new_assgn = sat.difference_iter().filter(|x| x.label() != cur_v);""",
         new="""        let high_bdd = match sat.decide(Literal::new(cur_v, true)) {
            DecisionResult::UNSAT => BddPtr::false_ptr(),
            DecisionResult::SAT => {
                let new_assgn = sat.difference_iter().filter(|x| !(x.label() == cur_v));"""),
    dict(name="pm-set-true-keeps-false", file=MODEL, rule="PM", props=["C15"], expect="set:two-sets",
         old="""            self.true_assignments.insert(label);
            self.false_assignments.remove(label);""",
         new="""            self.true_assignments.insert(label);"""),
    dict(name="pm-get-swapped", file=MODEL, rule="PM", props=["C15", "C09"], expect="get:two-sets",
         old="""        if self.true_assignments.contains(label) {
            Some(true)
        } else if self.false_assignments.contains(label) {
            Some(false)""",
         new="""        if self.false_assignments.contains(label) {
            Some(true)
        } else if self.true_assignments.contains(label) {
            Some(false)"""),
    dict(name="pm-neg-implied-is-implied", file=MODEL, rule="PM", props=["C15", "C09"], expect="lit_neg_implied:two-sets",
         old="""            Some(v) => v != lit.polarity(),""", new="""            Some(v) => v == lit.polarity(),"""),
    dict(name="pm-set-order-swapped-ok", file=MODEL, rule="PM", props=["C15"], expect=None,
         old="""            self.true_assignments.insert(label);
            self.false_assignments.remove(label);""",
         new="""            self.false_assignments.remove(label);
            self.true_assignments.insert(label);"""),
    dict(name="pm-get-false-first-ok", file=MODEL, rule="PM", props=["C15", "C09"], expect=None,
         old="""        if self.true_assignments.contains(label) {
            Some(true)
        } else if self.false_assignments.contains(label) {
            Some(false)""",
         new="""        if self.false_assignments.contains(label) {
            Some(false)
        } else if self.true_assignments.contains(label) {
            Some(true)"""),
    dict(name="hs-satisfied-clause-breaks", file=CNF, rule="HS", props=["C15"], expect="satisfied-clause-skipped",
         old="""                    continue 'outer;
                } else if m.lit_neg_implied(*lit) {""",
         new="""                    break;
                } else if m.lit_neg_implied(*lit) {"""),
    dict(name="hs-false-literal-multiplied", file=CNF, rule="HS", props=["C15"], expect="false-literal-skipped",
         old="""                    // skip this literal and move onto the next one
                    continue;""",
         new="""                    cur_clause_v = cur_clause_v.wrapping_mul(*weight as u128);"""),
    dict(name="hs-branches-reordered-ok", file=CNF, rule="HS", props=["C15"], expect=None,
         old="""                if m.lit_implied(*lit) {
                    // move onto the next clause without updating the
                    // accumulator
                    continue 'outer;
                } else if m.lit_neg_implied(*lit) {
                    // skip this literal and move onto the next one
                    continue;
                } else {""",
         new="""                if m.lit_neg_implied(*lit) {
                    continue;
                } else if m.lit_implied(*lit) {
                    continue 'outer;
                } else {"""),
    dict(name="ws-contains-by-position", file=UP, rule="WS", props=["C09"], expect="contains:Clause",
         old="""                    self.watch_list_pos[candidate_unwatched].contains(&prev_watcher)""",
         new="""                    self.watch_list_pos[candidate_unwatched].contains(&watcher_idx)"""),
    dict(name="ws-push-position", file=UP, rule="WS", props=["C09"], expect="push:Clause",
         old="""                    self.watch_list_pos[new_loc].push(prev_watcher);""",
         new="""                    self.watch_list_pos[new_loc].push(watcher_idx);"""),
    dict(name="ws-alias-ok", file=UP, rule="WS", props=["C09"], expect=None,
         old="""                    self.watch_list_pos[candidate_unwatched].contains(&prev_watcher)""",
         new="""                    {
                        let this_clause: ClauseIdx = prev_watcher;
                        self.watch_list_pos[candidate_unwatched].contains(&this_clause)
                    }"""),
    dict(name="tf-adjacent-pairs-only", file=UP, rule="TF", props=["C09"], expect="tautology-filter",
         old="""                    for i in 0..clause.len() {
                        for j in (i + 1)..clause.len() {
                            if clause[i].label() == clause[j].label()
                                && clause[i].polarity() != clause[j].polarity()
                            {
                                return false;
                            }
                        }
                    }
                    true""",
         new="""                    !clause
                        .windows(2)
                        .any(|w| w[0].label() == w[1].label() && w[0].polarity() != w[1].polarity())"""),
    dict(name="tf-inner-loop-from-zero-ok", file=UP, rule="TF", props=["C09"], expect=None,
         old="""                        for j in (i + 1)..clause.len() {""", new="""                        for j in 0..clause.len() {"""),
    dict(name="ec-empty-clause-as-short", file=UP, rule="EC", props=["C06", "C09"], expect="clause-length-0",
         old="""            if c.is_empty() {
                return None;
            }
            if c.len() == 1 {
                implied.push(c[0]);
                continue;
            }""",
         new="""            if c.len() < 2 {
                implied.extend(c.first());
                continue;
            }"""),
    dict(name="ec-unit-clause-watched", file=UP, rule="EC", props=["C09"], expect="clause-length-1",
         old="""            if c.len() == 1 {
                implied.push(c[0]);
                continue;
            }""",
         new="""            if c.len() == 1 {
                implied.push(c[0]);
            }"""),
    dict(name="ec-len-zero-test-ok", file=UP, rule="EC", props=["C06", "C09"], expect=None,
         old="""            if c.is_empty() {
                return None;
            }""",
         new="""            if c.len() == 0 {
                return None;
            }"""),
    dict(name="sp2-sdd-short-clear-and-unmarked-descent", file=RS, rule="SP", props=["C10"], expect="count_nodes::count_h:descent",
         old="""                BDD(node) | ComplBDD(node) => {
                    ptr.set_scratch::<usize>(0);
                    1 + count_h(node.low()) + 1 + count_h(node.high())
                }""",
         new="""                BDD(node) | ComplBDD(node) => 2 + count_h(node.low()) + count_h(node.high()),""",
         more=[("src/repr/sdd/binary_sdd.rs", """        *(self.scratch.borrow_mut()) = None;
""", """        if self.scratch.borrow_mut().take().is_none() {
            return;
        }
"""), ("src/repr/sdd/sdd_or.rs", """        *(self.scratch.borrow_mut()) = None;
""", """        if self.scratch.borrow_mut().take().is_none() {
            return;
        }
""")]),
    dict(name="sp2-sdd-short-clear-alone-ok", file="src/repr/sdd/binary_sdd.rs", rule="SP", props=["C10"], expect=None,
         old="""        *(self.scratch.borrow_mut()) = None;
""", new="""        if self.scratch.borrow_mut().take().is_none() {
            return;
        }
""", more=[("src/repr/sdd/sdd_or.rs", """        *(self.scratch.borrow_mut()) = None;
""", """        if self.scratch.borrow_mut().take().is_none() {
            return;
        }
""")]),
    dict(name="se-eq-pointer-fast-path", file=SEM, rule="SE", props=["C11"], expect="SE2:eq-by-hash",
         old="""        let h1 = a.cached_semantic_hash(&self.vtree, &self.map);
        let h2 = b.cached_semantic_hash(&self.vtree, &self.map);
        h1 == h2""",
         new="""        if a.is_const() || a.is_var() || b.is_const() || b.is_var() {
            return a == b;
        }
        let h1 = a.cached_semantic_hash(&self.vtree, &self.map);
        let h2 = b.cached_semantic_hash(&self.vtree, &self.map);
        h1 == h2"""),
    dict(name="se-eq-hashes-swapped-ok", file=SEM, rule="SE", props=["C11"], expect=None,
         old="""        h1 == h2""", new="""        h2 == h1"""),
    dict(name="vo-force-order-filters", file=CNF, rule="VO", props=["C14"], expect="force_order:permutation-preserved",
         old="""            let mut avg_cog: Vec<(f64, usize)> = avg_cog.into_iter().zip(0..l).collect();""",
         new="""            let mut avg_cog: Vec<(f64, usize)> = avg_cog.into_iter().zip(0..l).filter(|(c, _)| *c > 0.0).collect();"""),
    dict(name="vo-force-order-match-ok", file=CNF, rule="VO", props=["C14"], expect=None,
         old="""                .map(|(total, cnt)| if cnt == 0 { 0.0 } else { total / (cnt as f64) })""",
         new="""                .map(|(total, cnt)| match cnt {
                    0 => 0.0,
                    _ => total / (cnt as f64),
                })"""),
]

# ------------------------------------------------------------------ BB (C12): branch-and-bound siblings
CASES += [
    dict(name="bb1-leaf-witness-mismatch", file=RB, rule="BB", props=["C12"], expect="marginal_map_h:BB1",
         old="""                if possible_best.0 > cur_lb {
                    (possible_best.0, cur_assgn)""",
         new="""                if possible_best.0 > cur_lb {
                    (possible_best.0, cur_best)"""),
    dict(name="bb1-leaf-keeps-worse", file=RB, rule="BB", props=["C12"], expect="meu_h:BB1",
         old="""                if possible_best.1 > cur_lb.1 {""", new="""                if possible_best.1 < cur_lb.1 {"""),
    dict(name="bb2-both-branches-true", file=RB, rule="BB", props=["C12"], expect="marginal_map_h:BB2",
         old="""                false_model.set(*x, false);

                let true_ub = self.marginal_map_eval""",
         new="""                false_model.set(*x, true);

                let true_ub = self.marginal_map_eval"""),
    dict(name="bb3-order-crossed", file=RB, rule="BB", props=["C12"], expect="bb_h:BB3",
         old="""                let order = if true_ub == BBSemiring::choose(&true_ub, &false_ub) {
                    [(true_ub, true_model), (false_ub, false_model)]""",
         new="""                let order = if true_ub == BBSemiring::choose(&true_ub, &false_ub) {
                    [(true_ub, false_model), (false_ub, true_model)]"""),
    dict(name="bb5-prune-inverted", file=RB, rule="BB", props=["C12"], expect="meu_h:BB5",
         old="""                    if upper_bound.1 > best_lb.1 {""", new="""                    if upper_bound.1 < best_lb.1 {"""),
    dict(name="bb6-assigned-children-swapped", file=RB, rule="BB", props=["C12"], expect="bb_ub:BB6",
         old="""                    // reached a base case. We return the accumulated value.
                    Some(true) => high,
                    Some(false) => low,""",
         new="""                    // reached a base case. We return the accumulated value.
                    Some(true) => low,
                    Some(false) => high,"""),
    dict(name="bb6-sum-weights-crossed", file=RB, rule="BB", props=["C12"], expect="eu_ub:BB6",
         old="""                            (*false_w * low) + (*true_w * high)""", new="""                            (*true_w * low) + (*false_w * high)"""),
    dict(name="bb6w-assigned-weight-wrong-side", file=RB, rule="BB", props=["C12"], expect="marginal_map_eval:BB6w",
         old="""            if lit.polarity() {
                v = v * (*h);
            } else {
                v = v * (*l);
            }""",
         new="""            if lit.polarity() {
                v = v * (*l);
            } else {
                v = v * (*h);
            }"""),
    dict(name="bb7-driver-bound-of-other-assignment", file=RB, rule="BB", props=["C12"], expect="marginal_map:BB7",
         old="""        self.marginal_map_h(
            lower_bound.0,
            cur_assgn,""",
         new="""        self.marginal_map_h(
            lower_bound.0,
            PartialModel::from_litvec(&[], num_vars),"""),
    dict(name="bb1-leaf-reordered-ok", file=RB, rule="BB", props=["C12"], expect=None,
         old="""                if possible_best.0 > cur_lb {
                    (possible_best.0, cur_assgn)
                } else {
                    (cur_lb, cur_best)
                }""",
         new="""                if possible_best.0 <= cur_lb {
                    (cur_lb, cur_best)
                } else {
                    (possible_best.0, cur_assgn)
                }"""),
    dict(name="bb5-prune-mirrored-ok", file=RB, rule="BB", props=["C12"], expect=None,
         old="""                    if upper_bound.0 > best_lb {""", new="""                    if best_lb < upper_bound.0 {"""),
]

CASES += [
    dict(name="dp-sexpr-double-negation-wrong", file="src/repr/logical_expr.rs", rule="DP", props=["C17"], expect="from_sexpr::helper:Not",
         old="""                    _ => LogicalExpr::Not(Box::new(helper(l.as_ref(), mapping))),""",
         new="""                    LogicalSExpr::Not(_) => helper(l.as_ref(), mapping),
                    _ => LogicalExpr::Not(Box::new(helper(l.as_ref(), mapping))),"""),
    dict(name="dp-sexpr-double-negation-ok", file="src/repr/logical_expr.rs", rule="DP", props=["C17"], expect=None,
         old="""                    _ => LogicalExpr::Not(Box::new(helper(l.as_ref(), mapping))),""",
         new="""                    LogicalSExpr::Not(e) => helper(e.as_ref(), mapping),
                    _ => LogicalExpr::Not(Box::new(helper(l.as_ref(), mapping))),"""),
]

CASES += [
    dict(name="lc-assignment-and-polarity", file=BB, rule="LC", props=["C05"], expect="compile_cnf_with_assignments:literal-status",
         old="""                    Some(v) if v == lit.polarity() => {""", new="""                    Some(v) if v && lit.polarity() => {"""),
    dict(name="lc-status-inverted", file=BB, rule="LC", props=["C05"], expect="compile_cnf_with_assignments:literal-status",
         old="""                    Some(v) if v == lit.polarity() => {""", new="""                    Some(v) if v != lit.polarity() => {"""),
    dict(name="lc-decide-scan-ignores-value", file=UP, rule="LC", props=["C09"], expect="UnitPropagate::decide:literal-status",
         old="""                    Some(v) if lit.polarity() == v => {""", new="""                    Some(_v) if lit.polarity() => {"""),
    dict(name="lc-xor-form-ok", file=BB, rule="LC", props=["C05"], expect=None,
         old="""                    Some(v) if v == lit.polarity() => {""", new="""                    Some(v) if !(v ^ lit.polarity()) => {"""),
    dict(name="gl8-insert-key-swapped", file="src/builder/cache/all_app.rs", rule="GL", props=["C16"], expect="AllIteTable:GL8",
         old="""                self.table
                    .insert((f, g, h), if compl { res.neg() } else { res });""",
         new="""                self.table
                    .insert((f, h, g), if compl { res.neg() } else { res });"""),
    dict(name="gl8-both-keys-reordered-ok", file="src/builder/cache/all_app.rs", rule="GL", props=["C16"], expect=None,
         old="""                self.table
                    .insert((f, g, h), if compl { res.neg() } else { res });""",
         new="""                self.table
                    .insert((g, f, h), if compl { res.neg() } else { res });""",
         more=[("src/builder/cache/all_app.rs", """                let r = self.table.get(&(f, g, h));""", """                let r = self.table.get(&(g, f, h));""")]),
]

CASES += [
    dict(name="wp3-hash-guard-asks-new-model", file=UP, rule="WP", props=["C09", "C06"], expect="WP3:one-base-state",
         old="""                    if !self.top_state().model.is_set(clause_lit.label()) {""",
         new="""                    if !new_model.is_set(clause_lit.label()) {"""),
    dict(name="wp3-base-bound-to-local-ok", file=UP, rule="WP", props=["C09", "C06"], expect=None,
         old="""                for (clause_lit, weight) in self.clauses[clause_idx].iter() {
                    if !self.top_state().model.is_set(clause_lit.label()) {""",
         new="""                let base = self.top_state();
                for (clause_lit, weight) in self.clauses[clause_idx].iter() {
                    if !base.model.is_set(clause_lit.label()) {"""),
]

CASES += [
    dict(name="fs-and-lst-exits-on-true", file=BB, rule="FS", props=["C01", "C05"], expect="and_lst:cur_bdd<-and:early-exit",
         old="""            cur_bdd = self.and(cur_bdd, itm);
        }""",
         new="""            cur_bdd = self.and(cur_bdd, itm);
            if cur_bdd.is_true() {
                break;
            }
        }"""),
    dict(name="fs-and-lst-exits-on-false-ok", file=BB, rule="FS", props=["C01", "C05"], expect=None,
         old="""            cur_bdd = self.and(cur_bdd, itm);
        }""",
         new="""            cur_bdd = self.and(cur_bdd, itm);
            if cur_bdd.is_false() {
                break;
            }
        }"""),
    dict(name="rh-grow-rehomes-with-old-capacity", file=BT, rule="RH", props=["C02", "C04"], expect="grow:rehome",
         old="""        let new_sz = (self.cap + 1).next_power_of_two();
        self.cap = new_sz;
        let old = mem::replace(&mut self.tbl, vec![HashTableElement::default(); new_sz]);
        let c = self.cap;""",
         new="""        let c = self.cap;
        let new_sz = (c + 1).next_power_of_two();
        self.cap = new_sz;
        let old = mem::replace(&mut self.tbl, vec![HashTableElement::default(); new_sz]);"""),
    dict(name="rh-grow-old-capacity-only-for-size-ok", file=BT, rule="RH", props=["C02", "C04"], expect=None,
         old="""        let new_sz = (self.cap + 1).next_power_of_two();
        self.cap = new_sz;""",
         new="""        let old_cap = self.cap;
        let new_sz = (old_cap + 1).next_power_of_two();
        self.cap = new_sz;"""),
]

VOF = "src/repr/var_order.rs"
CASES += [
    dict(name="vo-first-picks-later", file=VOF, rule="VO", props=["C01", "C02"], expect="VarOrder::first:by-level",
         old="""                if pa < pb {
                    a
                } else {
                    b
                }""",
         new="""                if pa < pb {
                    b
                } else {
                    a
                }"""),
    dict(name="vo-first-constant-first", file=VOF, rule="VO", props=["C01", "C02"], expect="VarOrder::first:by-level",
         old="""            (None, _) => b,
            (_, None) => a,
            (Some(va), Some(vb)) => {
                let pa = self.get(va);
                let pb = self.get(vb);
                if pa < pb {
                    a""",
         new="""            (None, _) => a,
            (_, None) => a,
            (Some(va), Some(vb)) => {
                let pa = self.get(va);
                let pb = self.get(vb);
                if pa < pb {
                    a"""),
    dict(name="vo-first-mirrored-ok", file=VOF, rule="VO", props=["C01", "C02"], expect=None,
         old="""                if pa < pb {
                    a
                } else {
                    b
                }""",
         new="""                if pb <= pa {
                    b
                } else {
                    a
                }"""),
]

CASES += [
    dict(name="lc-cnf-condition-polarity-swapped", file=CNF, rule="LC", props=["C15"], expect="Cnf::condition:literal-status",
         old="""                if l.label() == lit.label() && l.polarity() == lit.polarity() {
                    // skip over this whole clause
                    continue 'cnf;
                } else if l.label() == lit.label() && l.polarity() != lit.polarity() {""",
         new="""                if l.label() == lit.label() && l.polarity() != lit.polarity() {
                    // skip over this whole clause
                    continue 'cnf;
                } else if l.label() == lit.label() && l.polarity() == lit.polarity() {"""),
    dict(name="lc-cnf-condition-keeps-complement", file=CNF, rule="LC", props=["C15"], expect="Cnf::condition:literal-status",
         old="""                } else if l.label() == lit.label() && l.polarity() != lit.polarity() {
                    // skip over this literal
                    continue 'clause;""",
         new="""                } else if l.label() == lit.label() && l.polarity() != lit.polarity() && l.polarity() {
                    // skip over this literal
                    continue 'clause;"""),
    dict(name="lc-cnf-eval-inverted", file=CNF, rule="LC", props=["C15"], expect="Cnf::eval:literal-status",
         old="""                let assgn = assignment[lit.label().value() as usize];
                if lit.polarity() == assgn {""",
         new="""                let assgn = assignment[lit.label().value() as usize];
                if lit.polarity() != assgn {"""),
    dict(name="lc-cnf-condition-whole-literal-ok", file=CNF, rule="LC", props=["C15"], expect=None,
         old="""                if l.label() == lit.label() && l.polarity() == lit.polarity() {
                    // skip over this whole clause""",
         new="""                if *l == lit {
                    // skip over this whole clause"""),
]

CASES += [
    dict(name="se3-node-hash-weights-crossed", file=RB, rule="SE", props=["C11"], expect="BddNode::semantic_hash:SE3",
         old="""        self.low.cached_semantic_hash(order, map) * (*low_w)
            + self.high.cached_semantic_hash(order, map) * (*high_w)""",
         new="""        self.low.cached_semantic_hash(order, map) * (*high_w)
            + self.high.cached_semantic_hash(order, map) * (*low_w)"""),
    dict(name="se3-true-hashes-to-zero", file=RB, rule="SE", props=["C11"], expect="BddPtr::cached_semantic_hash:SE3",
         old="""            PtrTrue => FiniteField::new(1),
            PtrFalse => FiniteField::new(0),
            Reg(node) => node.cached_semantic_hash(order, map),""",
         new="""            PtrTrue => FiniteField::new(0),
            PtrFalse => FiniteField::new(1),
            Reg(node) => node.cached_semantic_hash(order, map),"""),
    dict(name="se3-node-hash-commuted-ok", file=RB, rule="SE", props=["C11"], expect=None,
         old="""        self.low.cached_semantic_hash(order, map) * (*low_w)
            + self.high.cached_semantic_hash(order, map) * (*high_w)""",
         new="""        (*high_w) * self.high.cached_semantic_hash(order, map)
            + (*low_w) * self.low.cached_semantic_hash(order, map)"""),
]

CASES += [
    dict(name="hs5-occurrence-tables-skip-first", file=CNF, rule="HS", props=["C15"], expect="one-clause-numbering",
         old="""        let pos_lits: Vec<Vec<usize>> = (0..num_vars)
            .map(|lit_idx| {
                clauses
                    .iter()
                    .enumerate()""",
         new="""        let pos_lits: Vec<Vec<usize>> = (0..num_vars)
            .map(|lit_idx| {
                clauses
                    .iter()
                    .filter(|c| c.len() > 1)
                    .enumerate()"""),
    dict(name="ee-wmc-shortcut", file=CNF, rule="EE", props=["C15"], expect="Cnf::wmc:returns-enumerated-sum",
         old="""        let mut weight_vec = Vec::new();
        for i in 0..self.num_vars() {""",
         new="""        if self.clauses.is_empty() {
            return T::one();
        }
        let mut weight_vec = Vec::new();
        for i in 0..self.num_vars() {"""),
    dict(name="cm-compress-advances-after-remove", file="src/builder/sdd/compression.rs", rule="CM", props=["C04"], expect="compress:CM3",
         old="""                    node.swap_remove(j);
                } else {
                    j += 1;
                }""",
         new="""                    node.swap_remove(j);
                }
                j += 1;"""),
    dict(name="cm-compress-merges-primes-with-and", file="src/builder/sdd/compression.rs", rule="CM", props=["C04"], expect="compress:CM2",
         old="""                    node[i] = SddAnd::new(self.or(node[i].prime(), node[j].prime()), node[i].sub());""",
         new="""                    node[i] = SddAnd::new(self.and(node[i].prime(), node[j].prime()), node[i].sub());"""),
    dict(name="cm-compress-sub-of-j-ok", file="src/builder/sdd/compression.rs", rule="CM", props=["C04"], expect=None,
         old="""                    node[i] = SddAnd::new(self.or(node[i].prime(), node[j].prime()), node[i].sub());""",
         new="""                    node[i] = SddAnd::new(self.or(node[j].prime(), node[i].prime()), node[j].sub());"""),
]

VTF = "src/repr/vtree.rs"
CASES += [
    dict(name="vt-right-linear-repeats-first", file=VTF, rule="VT", props=["C14"], expect="right_linear:slice-partition",
         old="""            [cur, rest @ ..] => {
                let l_tree = BTree::Leaf(*cur);
                let r_tree = Self::right_linear(rest);""",
         new="""            [cur, _rest @ ..] => {
                let l_tree = BTree::Leaf(*cur);
                let r_tree = Self::right_linear(order);"""),
    dict(name="vt-even-split-drops-middle", file=VTF, rule="VT", props=["C14"], expect="even_split:slice-partition",
         old="""            let (l_s, r_s) = order.split_at(order.len() / 2);
            let l_tree = Self::even_split(l_s, num_splits - 1);
            let r_tree = Self::even_split(r_s, num_splits - 1);""",
         new="""            let (l_s, r_s) = order.split_at(order.len() / 2);
            let l_tree = Self::even_split(l_s, num_splits - 1);
            let r_tree = Self::even_split(&r_s[1..], num_splits - 1);"""),
    dict(name="vt-even-split-third-ok", file=VTF, rule="VT", props=["C14"], expect=None,
         old="""            let (l_s, r_s) = order.split_at(order.len() / 2);""",
         new="""            let (l_s, r_s) = order.split_at((order.len() + 1) / 2);"""),
]

CASES += [
    dict(name="vo-in-order-iter-wrong-table", file=VOF, rule="VO", props=["C14"], expect="in_order_iter:iter-elements",
         old="""        self.pos_to_var.iter().map(|x| VarLabel::new_usize(*x))
    }""",
         new="""        self.var_to_pos.iter().map(|x| VarLabel::new_usize(*x))
    }"""),
]

BTF = "src/util/btree.rs"
CASES += [
    dict(name="bt-dfs-preorder", file=BTF, rule="BT", props=["C03", "C14"], expect="dfs_recurse:BT1",
         old="""                l.dfs_recurse(v);
                v.push_back(self);
                r.dfs_recurse(v);""",
         new="""                v.push_back(self);
                l.dfs_recurse(v);
                r.dfs_recurse(v);"""),
    dict(name="bt-mapping-wrong-labelling", file=BTF, rule="BT", props=["C03", "C14"], expect="dfs_to_bfs_mapping:BT3",
         old="""        let bfs_map = self.bfs_labeling();
        for i in self.inorder_dfs_iter() {""",
         new="""        let bfs_map = self.dfs_labeling();
        for i in self.inorder_dfs_iter() {"""),
    dict(name="bt-lca-unordered-range", file=BTF, rule="BT", props=["C03", "C14"], expect="lca:BT5",
         old="""            let (l, r) = if l < r { (l, r) } else { (r, l) };""",
         new="""            let (l, r) = if l > r { (l, r) } else { (r, l) };"""),
    dict(name="bt-lca-mirrored-ok", file=BTF, rule="BT", props=["C03", "C14"], expect=None,
         old="""            let (l, r) = if l < r { (l, r) } else { (r, l) };""",
         new="""            let (l, r) = if r <= l { (r, l) } else { (l, r) };"""),
]

_SM_FIELD = ("""    order: RefCell<VarOrder>,
}""", """    order: RefCell<VarOrder>,
    smooth_table: RefCell<HashMap<(BddPtr<'a>, usize, usize), BddPtr<'a>>>,
}""")
_SM_INIT = ("""            stats: RefCell::new(BddBuilderStats::new()),
        }""", """            stats: RefCell::new(BddBuilderStats::new()),
            smooth_table: RefCell::new(HashMap::new()),
        }""")
CASES += [
    dict(name="gl9-persistent-memo-key-misses-parameter", file=B, rule="GL", props=["C10"], expect="smooth_helper:GL9",
         old="""        let level_var = self.order.borrow().var_at_level(current);
        match bdd {""",
         new="""        if let Some(r) = self.smooth_table.borrow().get(&(bdd, current, 0)) {
            return *r;
        }
        let level_var = self.order.borrow().var_at_level(current);
        match bdd {""",
         more=[(B,) + _SM_FIELD, (B,) + _SM_INIT]),
    dict(name="gl9-persistent-memo-complete-key-ok", file=B, rule="GL", props=["C10"], expect=None,
         old="""        let level_var = self.order.borrow().var_at_level(current);
        match bdd {""",
         new="""        if let Some(r) = self.smooth_table.borrow().get(&(bdd, current, total)) {
            return *r;
        }
        let level_var = self.order.borrow().var_at_level(current);
        match bdd {""",
         more=[(B,) + _SM_FIELD, (B,) + _SM_INIT]),
]

CASES += [
    dict(name="gl10-ite-cache-insert-renormalises", file="src/builder/sdd/compression.rs", rule="GL", props=["C03", "C16"], expect="ite_cache_insert:GL10",
         old="""        self.ite_cache.borrow_mut().insert(ite, res, hash)""",
         new="""        let res = if ite.is_compl_choice() { res.neg() } else { res };
        self.ite_cache.borrow_mut().insert(ite, res, hash)"""),
    dict(name="cp-closure-exists-on-stored-subs", file=SB, rule="CP", props=["C03"], expect="exists:sdd:closure-elem",
         old="""        // TODO this can be optimized by specializing it
        let v1 = self.condition(sdd, lbl, true);""",
         new="""        if let SddPtr::Reg(or) | SddPtr::Compl(or) = sdd {
            let lbl_idx = self.vtree_manager().var_index(lbl);
            if self.vtree_manager().is_prime_index(or.index(), lbl_idx) {
                let v: Vec<SddAnd> = or
                    .iter()
                    .map(|a| SddAnd::new(a.prime(), self.exists(a.sub(), lbl)))
                    .collect();
                let r = self.canonicalize(v, or.index());
                return if sdd.is_neg() { r.neg() } else { r };
            }
        }
        let v1 = self.condition(sdd, lbl, true);"""),
    # the CP rule must stay silent; the ownership rule WC sdd-node reports any new constructor of decision nodes, correct or
    # not (stated in DESIGN §10, round 4), so no property check is required to pass here
    dict(name="cp-closure-exists-sign-adjusted-ok", file=SB, rule="CP", props=[], expect=None,
         old="""        // TODO this can be optimized by specializing it
        let v1 = self.condition(sdd, lbl, true);""",
         new="""        if let SddPtr::Reg(or) | SddPtr::Compl(or) = sdd {
            let lbl_idx = self.vtree_manager().var_index(lbl);
            if self.vtree_manager().is_prime_index(or.index(), lbl_idx) {
                let v: Vec<SddAnd> = or
                    .iter()
                    .map(|a| {
                        let s = if sdd.is_neg() { a.sub().neg() } else { a.sub() };
                        SddAnd::new(a.prime(), self.exists(s, lbl))
                    })
                    .collect();
                return self.canonicalize(v, or.index());
            }
        }
        let v1 = self.condition(sdd, lbl, true);"""),
]

# ------------------------------------------------------------------ renaming locals must not matter
CASES += [
    dict(name="rename-locals-unit-prop-ok", file=UP, rule="WS", props=["C09", "C06"], expect=None,
         rename=[("watcher_idx", "cursor"), ("implied", "initial_units"), ("new_set", "sat_now"), ("prev_watcher", "this_clause"),
                 ]),
    dict(name="rename-locals-compress-ok", file="src/builder/sdd/compression.rs", rule="CM", props=["C04"], expect=None,
         rename=[("j", "other")]),
    dict(name="rename-locals-bb-ok", file=RB, rule="BB", props=["C12"], expect=None,
         rename=[("best_lb", "incumbent_value"), ("best_model", "incumbent"), ("true_model", "with_x"), ("false_model", "without_x")]),
    dict(name="rename-locals-cnf-ok", file=CNF, rule="HS", props=["C15"], expect=None,
         rename=[("cur_clause_v", "prod"), ("clause_sat", "ok"), ("new_clause", "kept")]),
    dict(name="rename-locals-bump-table-ok", file=BT, rule="RH", props=["C02", "C04"], expect=None,
         rename=[("searcher", "carried"), ("pos", "slot"), ("cur_itm", "resident"), ("off", "next_dist")]),
]

ALLP = ["C01", "C02", "C03", "C04", "C05", "C06", "C07", "C08", "C09", "C10", "C11", "C12", "C13", "C14", "C15", "C16", "C17", "C19"]
CASES += [
    dict(name="rename-locals-robdd-ok", file=B, rule="CP", props=ALLP, expect=None,
         rename=[("level_var", "lv"), ("smoothed_node", "padded"), ("res", "outcome")]),
    dict(name="rename-locals-topdown-ok", file=DN, rule="TD", props=ALLP, expect=None,
         rename=[("cur_v", "decision_var"), ("high_bdd", "hi"), ("low_bdd", "lo"), ("new_assgn", "implied_lits")]),
    dict(name="rename-locals-sdd-builder-ok", file=SB, rule="CP", props=ALLP, expect=None,
         rename=[("newp", "p2"), ("news", "s2")]),
    dict(name="rename-locals-var-order-ok", file=VOF, rule="VO", props=ALLP, expect=None,
         rename=[("pa", "level_a"), ("pb", "level_b"), ("this_level", "lvl")]),
    dict(name="rename-locals-vtree-ok", file=VTF, rule="VT", props=ALLP, expect=None,
         rename=[("l_tree", "left"), ("r_tree", "right"), ("l_s", "first_half"), ("r_s", "second_half")]),
    dict(name="rename-locals-model-ok", file=MODEL, rule="PM", props=ALLP, expect=None,
         rename=[("true_v", "pos_set"), ("false_v", "neg_set"), ("init_assgn", "slots")]),
    dict(name="rename-locals-lru-ok", file="src/util/lru.rs", rule="GL", props=ALLP, expect=None,
         rename=[("pos", "slot")]),
    dict(name="rename-locals-bdd-repr-ok", file=RB, rule="BB", props=ALLP, expect=None,
         rename=[("possible_best", "candidate"), ("margvar_bits", "open_vars"), ("upper_bound", "ub"), ("partialmodel", "branch")]),
]

CASES += [
    dict(name="cm-compress-skips-true-subs", file="src/builder/sdd/compression.rs", rule="CM", props=["C04"], expect="compress:CM2",
         old="""                if self.eq(node[i].sub(), node[j].sub()) {""",
         new="""                if !self.is_true(node[j].sub()) && self.eq(node[i].sub(), node[j].sub()) {"""),
    dict(name="fs-sdd-compile-cnf-true-on-no-vars", file=SB, rule="FS", props=["C05"], expect="compile_cnf:constant-answers-justified",
         old="""        if cnf.clauses().is_empty() {
            return SddPtr::true_ptr();
        }""",
         new="""        if cnf.num_vars() == 0 {
            return SddPtr::true_ptr();
        }"""),
    dict(name="fs-sdd-compile-cnf-len-zero-ok", file=SB, rule="FS", props=["C05"], expect=None,
         old="""        if cnf.clauses().is_empty() {
            return SddPtr::true_ptr();
        }""",
         new="""        if cnf.clauses().len() == 0 {
            return SddPtr::true_ptr();
        }"""),
]

CASES += [
    dict(name="bb6-relaxed-case-weight-crossed", file=RB, rule="BB", props=["C12"], expect="bb_ub:BB6",
         old="""                            let lhs = *w_l * low;""", new="""                            let lhs = *w_h * low;"""),
]

CASES += [
    dict(name="sr-sdd-row-index-before-children", file="src/serialize/ser_sdd.rs", rule="SR", props=["C17"], expect="SDDSerializer::serialize_helper:row-index",
         old="""            SddPtr::Compl(or) | SddPtr::Reg(or) => {
                let o: Vec<SDDAnd> = or""",
         new="""            SddPtr::Compl(or) | SddPtr::Reg(or) => {
                let index = nodes.len();
                let o: Vec<SDDAnd> = or""",
         more=[("src/serialize/ser_sdd.rs", """                nodes.push(SDDOr(o));
                let index = nodes.len() - 1;""", """                nodes.push(SDDOr(o));""")]),
    dict(name="sr-bdd-row-index-len-before-push-ok", file="src/serialize/ser_bdd.rs", rule="SR", props=["C17", "C19"], expect=None,
         old="""dummy-anchor-not-present""", new="""x"""),
    dict(name="gl11-sdd-ite-stores-negated", file=SB, rule="GL", props=["C03", "C16"], expect="ite:GL11",
         old="""        self.ite_cache_insert(ite, r, hash);""",
         new="""        self.ite_cache_insert(ite, if ite.is_compl_choice() { r.neg() } else { r }, hash);"""),
]
CASES = [c for c in CASES if c["name"] != "sr-bdd-row-index-len-before-push-ok"]

CASES += [
    dict(name="sr-bdd-row-index-read-before-push-ok", file="src/serialize/ser_bdd.rs", rule="SR", props=["C17", "C19"], expect=None,
         old="""                nodes.push(new_node);
                let index = nodes.len() - 1;""",
         new="""                let index = nodes.len();
                nodes.push(new_node);"""),
]

CASES += [
    dict(name="mp-count-modulus-too-small", file="bin/weighted_model_count.rs", rule="MP", props=["C19"], expect="count-modulus",
         rename=[("U64_LARGEST", "U32_SMALL")]),
]

CASES += [
    dict(name="cm4-trim-two-elements-swapped", file="src/builder/sdd/compression.rs", rule="CM", props=["C04"], expect="canonicalize_base_case:CM4",
         old="""            if self.is_true(node[0].sub()) && self.is_false(node[1].sub()) {
                return Some(node[0].prime());""",
         new="""            if self.is_true(node[0].sub()) && self.is_false(node[1].sub()) {
                return Some(node[1].prime());"""),
    dict(name="cm4-trim-single-any-prime", file="src/builder/sdd/compression.rs", rule="CM", props=["C04"], expect="canonicalize_base_case:CM4",
         old="""            if self.is_true(node[0].prime()) {
                return Some(node[0].sub());
            }""",
         new="""            if self.is_true(node[0].sub()) {
                return Some(node[0].prime());
            }"""),
]

CASES += [
    dict(name="dp-to-dimacs-sign-inverted", file=CNF, rule="DP", props=["C17"], expect="to_dimacs:sign-and-number",
         old="""                    if lit.polarity() { "" } else { "-" },""", new="""                    if lit.polarity() { "-" } else { "" },"""),
    dict(name="dp-to-dimacs-zero-based", file=CNF, rule="DP", props=["C17"], expect="to_dimacs:sign-and-number",
         old="""                    lit.label().value_usize() + 1
                );""", new="""                    lit.label().value_usize() + 0
                );"""),
]

LEF = "src/repr/logical_expr.rs"
CASES += [
    dict(name="le-eval-xor-as-iff", file=LEF, rule="LE", props=["C17", "C05"], expect="LogicalExpr::eval:Xor",
         old="""                (!l_v && r_v) || (l_v && !r_v)""", new="""                (!l_v && !r_v) || (l_v && r_v)"""),
    dict(name="le-eval-ite-branches-swapped", file=LEF, rule="LE", props=["C17", "C05"], expect="LogicalExpr::eval:Ite",
         old="""                (!l_v && r_v) || (l_v && !r_v)""", new="""                (!l_v && r_v) || (l_v && !r_v)""",
         more=[]),
    dict(name="le-eval-xor-ne-ok", file=LEF, rule="LE", props=["C17", "C05"], expect=None,
         old="""                (!l_v && r_v) || (l_v && !r_v)""", new="""                l_v != r_v"""),
]
CASES = [c for c in CASES if c["name"] != "le-eval-ite-branches-swapped"]

CASES += [
    dict(name="vx-manager-maps-swapped", file=VTF, rule="VX", props=["C03", "C14"], expect="VTreeManager::new:fields",
         old="""            dfs_to_bfs: tree.dfs_to_bfs_mapping(),
            bfs_to_dfs: tree.bfs_to_dfs_mapping(),""",
         new="""            dfs_to_bfs: tree.bfs_to_dfs_mapping(),
            bfs_to_dfs: tree.dfs_to_bfs_mapping(),"""),
    dict(name="vx-manager-leaf-only-lookup", file=VTF, rule="VX", props=["C03", "C14"], expect="VTreeManager::new:index-loop",
         old="""            index_lookup.push(v.clone());
            if v.is_leaf() {""",
         new="""            if v.is_leaf() {
                index_lookup.push(v.clone());"""),
]

CASES += [
    dict(name="bt6-lca-last-occurrence-ok", file=BTF, rule="BT", props=["C03", "C14"], expect=None,
         old="""            if lookup[cur_var].is_none() {
                lookup[cur_var] = Some(i);
            }""",
         new="""            lookup[cur_var] = Some(i);"""),
]

CASES += [
    dict(name="bt6-lca-max-tree", file=BTF, rule="BT", props=["C03", "C14"], expect="LeastCommonAncestor::new:BT6",
         old="""            seg_tree: SegmentPoint::build(euler_vec, Min),""", new="""            seg_tree: SegmentPoint::build(euler_vec, Min),""".replace("Min),", "Min),")),
]
CASES.pop()

# ------------------------------------------------------------------ LP (literal packing)
VL = "src/repr/var_label.rs"
CASES += [
    dict(name="lp-fields-overlap", file=VL, rule="LP", props=["C09", "C15"], expect="set_polarity:field-range",
         old="""    raw_polarity set_polarity[63..64],""", new="""    raw_polarity set_polarity[62..64],"""),
    dict(name="lp-negated-keeps-polarity", file=VL, rule="LP", props=["C15"], expect="negated:definition",
         old="""        Literal::new(self.label(), !self.polarity())""", new="""        Literal::new(self.label(), self.polarity())"""),
    dict(name="lp-implies-false-or", file=VL, rule="LP", props=["C15"], expect="implies_false:definition",
         old="""        self.label() == other.label() && self.polarity() != other.polarity()""",
         new="""        self.label() == other.label() || self.polarity() != other.polarity()"""),
    dict(name="lp-polarity-inverted", file=VL, rule="LP", props=["C05", "C09", "C17"], expect="new:roundtrip",
         old="""        self.raw_polarity() == 1""", new="""        self.raw_polarity() == 0"""),
    dict(name="lp-new-polarity-inverted", file=VL, rule="LP", props=["C06"], expect="new:roundtrip",
         old="""        ret.set_polarity(if polarity { 1 } else { 0 });""", new="""        ret.set_polarity(if polarity { 0 } else { 1 });"""),
    dict(name="lp-new-label-shifted", file=VL, rule="LP", props=["C15"], expect="new:roundtrip",
         old="""        ret.set_label(label.0);""", new="""        ret.set_label(label.0 << 1);"""),
    # preserving
    dict(name="lp-new-by-hand-ok", file=VL, rule="LP", props=["C09", "C15"], expect=None,
         old="""        let mut ret = Literal { data: 0 };
        ret.set_label(label.0);
        ret.set_polarity(if polarity { 1 } else { 0 });
        ret""",
         new="""        Literal {
            data: (label.0 & ((1u64 << 63) - 1)) | ((polarity as u64) << 63),
        }"""),
    dict(name="lp-polarity-nonzero-ok", file=VL, rule="LP", props=["C09"], expect=None,
         old="""        self.raw_polarity() == 1""", new="""        self.raw_polarity() != 0"""),
    dict(name="lp-implies-false-not-eq-ok", file=VL, rule="LP", props=["C15"], expect=None,
         old="""        self.label() == other.label() && self.polarity() != other.polarity()""",
         new="""        if self.label() != other.label() {
            return false;
        }
        !(self.polarity() == other.polarity())"""),
    dict(name="lp-negated-xor-ok", file=VL, rule="LP", props=["C15"], expect=None,
         old="""        Literal::new(self.label(), !self.polarity())""",
         new="""        let mut r = *self;
        r.set_polarity(self.raw_polarity() ^ 1);
        r"""),
]

# ------------------------------------------------------------------ EE counter (AssignmentIter)
CNF = "src/repr/cnf.rs"
CASES += [
    dict(name="ee-counter-carry-or", file=CNF, rule="EE", props=["C15"], expect="next:counter",
         old="""                    let new_carry = *cur_assgn && carry;""", new="""                    let new_carry = *cur_assgn || carry;"""),
    dict(name="ee-counter-no-carry-in", file=CNF, rule="EE", props=["C15"], expect="next:counter",
         old="""                (Vec::new(), true),""", new="""                (Vec::new(), false),"""),
    dict(name="ee-counter-short-first", file=CNF, rule="EE", props=["C15"], expect="next:counter",
         old="""            self.cur = Some((0..self.num_vars).map(|_| false).collect());""",
         new="""            self.cur = Some((1..self.num_vars).map(|_| false).collect());"""),
    dict(name="ee-counter-xor-as-ne-ok", file=CNF, rule="EE", props=["C15"], expect=None,
         old="""                    let new_itm = cur_assgn ^ carry;""", new="""                    let new_itm = *cur_assgn != carry;"""),
    dict(name="ee-counter-vec-macro-ok", file=CNF, rule="EE", props=["C15"], expect=None,
         old="""            self.cur = Some((0..self.num_vars).map(|_| false).collect());""",
         new="""            self.cur = Some(vec![false; self.num_vars]);"""),
]

# ------------------------------------------------------------------ SH6 (condition_model)
CASES += [
    dict(name="sh6-model-original-diagram", file=B, rule="SH", props=["C01"], expect="SH6",
         old="""        let mut bdd = bdd;
        for m in m.assignment_iter() {
            bdd = self.condition(bdd, m.label(), m.polarity());
        }
        bdd""",
         new="""        let mut res = bdd;
        for m in m.assignment_iter() {
            res = self.condition(bdd, m.label(), m.polarity());
        }
        res"""),
    dict(name="sh6-model-negated-polarity", file=B, rule="SH", props=["C01"], expect="SH6",
         old="""            bdd = self.condition(bdd, m.label(), m.polarity());""",
         new="""            bdd = self.condition(bdd, m.label(), !m.polarity());"""),
    dict(name="sh6-model-skip-first", file=B, rule="SH", props=["C01"], expect="SH6",
         old="""        for m in m.assignment_iter() {
            bdd = self.condition(bdd, m.label(), m.polarity());""",
         new="""        for m in m.assignment_iter().skip(1) {
            bdd = self.condition(bdd, m.label(), m.polarity());"""),
    dict(name="sh6-model-fold-ok", file=B, rule="SH", props=["C01"], expect=None,
         old="""        let mut bdd = bdd;
        for m in m.assignment_iter() {
            bdd = self.condition(bdd, m.label(), m.polarity());
        }
        bdd""",
         new="""        m.assignment_iter()
            .fold(bdd, |acc, lit| self.condition(acc, lit.label(), lit.polarity()))"""),
]

# ------------------------------------------------------------------ MF (min-fill order is a permutation)
CASES += [
    dict(name="mf-index-as-label", file=CNF, rule="MF", props=["C14"], expect="MF1",
         old="""            ord.push(ig[idx]);""", new="""            ord.push(VarLabel::new_usize(idx.index()));"""),
    dict(name="mf-stops-early", file=CNF, rule="MF", props=["C14"], expect="MF1",
         old="""        while ig.node_count() > 0 {""", new="""        while ig.node_count() > 1 {"""),
    dict(name="mf-conditional-removal", file=CNF, rule="MF", props=["C14"], expect="MF2",
         old="""    g.remove_node(v);
}""", new="""    if !neighbor_vec.is_empty() {
        g.remove_node(v);
    }
}"""),
    dict(name="mf-graph-misses-var0", file=CNF, rule="MF", props=["C14"], expect="MF3",
         old="""        for v in 0..self.num_vars {
            g.add_node(VarLabel::new(v as u64));""",
         new="""        for v in 1..self.num_vars {
            g.add_node(VarLabel::new(v as u64));"""),
    dict(name="mf-loop-break-ok", file=CNF, rule="MF", props=["C14"], expect=None,
         old="""        while ig.node_count() > 0 {""", new="""        while ig.node_count() != 0 {"""),
    dict(name="mf-node-weight-ok", file=CNF, rule="MF", props=["C14"], expect=None,
         old="""            ord.push(ig[idx]);""", new="""            ord.push(*ig.node_weight(idx).unwrap());"""),
]

# ------------------------------------------------------------------ WT (label-keyed tables: weight table, from_litvec)
WMC = "src/repr/wmc.rs"
CASES += [
    dict(name="wt-set-weight-swapped", file=WMC, rule="WT", props=["C07"], expect="set_weight:WT1",
         old="""        self.var_to_val[n] = Some((low, high));""", new="""        self.var_to_val[n] = Some((high, low));"""),
    dict(name="wt-assignment-weight-swapped", file=WMC, rule="WT", props=["C07"], expect="assignment_weight:WT2",
         old="""            if lit.polarity() {
                prod = prod * self.var_to_val[lit.label().value_usize()].unwrap().1""",
         new="""            if !lit.polarity() {
                prod = prod * self.var_to_val[lit.label().value_usize()].unwrap().1"""),
    dict(name="wt-growth-off-by-one", file=WMC, rule="WT", props=["C07"], expect="set_weight:WT3",
         old="""        while n >= self.var_to_val.len() {""", new="""        while n > self.var_to_val.len() {"""),
    dict(name="wt-litvec-negated", file="src/repr/model.rs", rule="WT", props=["C15"], expect="from_litvec:WT1",
         old="""            init_assgn[assgn.label().value_usize()] = Some(assgn.polarity());""",
         new="""            init_assgn[assgn.label().value_usize()] = Some(!assgn.polarity());"""),
    dict(name="wt-growth-lt-ok", file=WMC, rule="WT", props=["C07"], expect=None,
         old="""        while n >= self.var_to_val.len() {""", new="""        while self.var_to_val.len() <= n {"""),
]

CASES += [
    dict(name="D10-weight-table-sized-by-entries", file=WMC, rule="IC", props=["C07", "C08"], expect="WmcParams::<T>::new:from_elem",
         old="""        let mut var_to_val_vec: Vec<Option<(T, T)>> = vec![None; table_len];""",
         new="""        let mut var_to_val_vec: Vec<Option<(T, T)>> = vec![None; var_to_val.len()];"""),
]

# ------------------------------------------------------------------ WC sdd-node
CASES += [
    dict(name="wc-sdd-node-new-constructor", file=SB, rule="WC", props=["C04"], expect="sdd-node:unique_bdd<-xor",
         old="""    fn xor(&'a self, f: SddPtr<'a>, g: SddPtr<'a>) -> SddPtr<'a> {
        self.ite(f, g.neg(), g)""",
         new="""    fn xor(&'a self, f: SddPtr<'a>, g: SddPtr<'a>) -> SddPtr<'a> {
        if let (SddPtr::Var(l, true), false) = (f, g.is_const() || g.is_var()) {
            return self.unique_bdd(BinarySDD::new(l, g, g.neg(), g.vtree()));
        }
        self.ite(f, g.neg(), g)"""),
    dict(name="wc-sdd-node-helper-ok", file=SB, rule="WC", props=["C04", "C03"], expect=None,
         old="""                let h = self.and(r.high(), d);
                self.unique_bdd(BinarySDD::new(bdd.label(), l, h, bdd.index()))""",
         new="""                let h = self.and(r.high(), d);
                self.rebuild_binary(bdd, l, h)""",
         more=[(SB, """    fn and_sub_desc(&'a self, r: SddPtr<'a>, d: SddPtr<'a>) -> SddPtr<'a> {""",
                """    fn rebuild_binary(&'a self, bdd: &BinarySDD<'a>, l: SddPtr<'a>, h: SddPtr<'a>) -> SddPtr<'a> {
        self.unique_bdd(BinarySDD::new(bdd.label(), l, h, bdd.index()))
    }

    fn and_sub_desc(&'a self, r: SddPtr<'a>, d: SddPtr<'a>) -> SddPtr<'a> {""")]),
]

# ------------------------------------------------------------------ LT growth-only resize
CASES += [
    dict(name="lt-resize-truncates", file=WMC, rule="LT", props=["C07", "C08"], expect="WmcParams.var_to_val:indexing-kept",
         old="""        while n >= self.var_to_val.len() {
            self.var_to_val.push(None);
        }""",
         new="""        self.var_to_val.resize(n + 1, None);"""),
    dict(name="lt-resize-guarded-ok", file=WMC, rule="LT", props=["C07", "C08"], expect=None,
         old="""        while n >= self.var_to_val.len() {
            self.var_to_val.push(None);
        }""",
         new="""        if n >= self.var_to_val.len() {
            self.var_to_val.resize(n + 1, None);
        }"""),
    dict(name="lt-resize-max-ok", file=WMC, rule="LT", props=["C07", "C08"], expect=None,
         old="""        while n >= self.var_to_val.len() {
            self.var_to_val.push(None);
        }""",
         new="""        let new_len = self.var_to_val.len().max(n + 1);
        self.var_to_val.resize(new_len, None);"""),
]

# ------------------------------------------------------------------ NB generic modulus / shifts / loop bodies
CASES += [
    dict(name="nb-shift-drops-bits", file=FF, rule="NB", props=["C13", "C08"], expect="mul@ANY_P",
         old="""        a = (a + a) % P;""", new="""        a = (a << 4) % P;"""),
    dict(name="nb-shift-by-one-ok", file=FF, rule="NB", props=["C13", "C08"], expect=None,
         old="""        a = (a + a) % P;""", new="""        a = (a << 1) % P;"""),
]

CASES += [
    dict(name="D11-from-string-zero-negative", file=CNF, rule="DP", props=["C15", "C17"], expect="from_string:sign",
         old="""                let neg = parsed < 0;""", new="""                let neg = parsed <= 0;"""),
    dict(name="dp-from-string-ge-ok", file=CNF, rule="DP", props=["C15"], expect=None,
         old="""                let neg = parsed < 0;
                c.push(Literal::new(
                    VarLabel::new_usize(i64::abs(parsed) as usize),
                    !neg,
                ));""",
         new="""                c.push(Literal::new(
                    VarLabel::new_usize(parsed.unsigned_abs() as usize),
                    parsed >= 0,
                ));"""),
]

# ------------------------------------------------------------------ VO level arguments; MK composite keys
CASES += [
    dict(name="vo-level-arg-from-label", file=DN, rule="VO", props=["C06"], expect="level-arg:topdown_h",
         old="""            DecisionResult::Unknown => {
                let sub = self.topdown_h(cnf, sat, level + 1, cache);
                let new_assgn = sat.difference_iter().filter(|x| x.label() != cur_v);
                let r = self.conjoin_implied(new_assgn, sub);
                sat.pop();
                r
            }
        };
        let low_bdd""",
         new="""            DecisionResult::Unknown => {
                let sub = self.topdown_h(cnf, sat, cur_v.value_usize() + 1, cache);
                let new_assgn = sat.difference_iter().filter(|x| x.label() != cur_v);
                let r = self.conjoin_implied(new_assgn, sub);
                sat.pop();
                r
            }
        };
        let low_bdd"""),
    dict(name="vo-level-arg-hoisted-ok", file=DN, rule="VO", props=["C06"], expect=None,
         old="""            DecisionResult::Unknown => {
                let sub = self.topdown_h(cnf, sat, level + 1, cache);
                let new_assgn = sat.difference_iter().filter(|x| x.label() != cur_v);
                let r = self.conjoin_implied(new_assgn, sub);
                sat.pop();
                r
            }
        };
        let low_bdd""",
         new="""            DecisionResult::Unknown => {
                let next_level = 1 + level;
                let sub = self.topdown_h(cnf, sat, next_level, cache);
                let new_assgn = sat.difference_iter().filter(|x| x.label() != cur_v);
                let r = self.conjoin_implied(new_assgn, sub);
                sat.pop();
                r
            }
        };
        let low_bdd"""),
]

CASES += [
    dict(name="D12-composite-modulus", file="src/constants.rs", rule="NB", props=["C11", "C13"], expect="U64_LARGEST:is-prime",
         old="""    pub const U64_LARGEST: u128 = 18_446_744_073_709_551_557;""",
         new="""    pub const U64_LARGEST: u128 = 18_446_744_073_709_551_591;"""),
]

# ------------------------------------------------------------------ HS6 a formula's hasher is built from its own clauses
CASES += [
    dict(name="hs6-hasher-carried-over", file=CNF, rule="HS", props=["C15"], expect="condition:HS6",
         old="""        Cnf::new(&new_cnf)""",
         new="""        let num_vars = self.num_vars;
        Cnf {
            hasher: self.hasher.clone(),
            clauses: new_cnf,
            num_vars,
        }"""),
    dict(name="hs6-hoisted-hasher-ok", file=CNF, rule="HS", props=["C15"], expect=None,
         old="""        Cnf {
            hasher: CnfHasher::new(&clauses, num_vars),
            clauses,
            num_vars,
        }""",
         new="""        let hasher = CnfHasher::new(&clauses, num_vars);
        Cnf {
            clauses,
            num_vars,
            hasher,
        }"""),
]

# ------------------------------------------------------------------ LAW equality of the float-backed semirings
CX = "src/util/semirings/complex.rs"
CASES += [
    dict(name="law-eq-by-bits", file=CX, rule="LAW", props=["C13"], expect="Complex:eq-is-value-equality",
         old="""#[derive(Debug, Clone, Copy, PartialEq, PartialOrd, Serialize, Deserialize)]""",
         new="""#[derive(Debug, Clone, Copy, Serialize, Deserialize)]""",
         more=[(CX, """impl Display for Complex {""", """impl PartialEq for Complex {
    fn eq(&self, other: &Self) -> bool {
        self.re.to_bits() == other.re.to_bits() && self.im.to_bits() == other.im.to_bits()
    }
}

impl Display for Complex {""")]),
    dict(name="law-eq-by-hand-ok", file=CX, rule="LAW", props=["C13"], expect=None,
         old="""#[derive(Debug, Clone, Copy, PartialEq, PartialOrd, Serialize, Deserialize)]""",
         new="""#[derive(Debug, Clone, Copy, Serialize, Deserialize)]""",
         more=[(CX, """impl Display for Complex {""", """impl PartialEq for Complex {
    fn eq(&self, other: &Self) -> bool {
        self.re == other.re && self.im == other.im
    }
}

impl Display for Complex {""")]),
]

# ------------------------------------------------------------------ EM empty cases (D13 re-introduced; preserving spellings)
CASES += [
    dict(name="D13a-span-of-empty-clause", file=CNF, rule="EM", props=["C14", "C15", "C19"], expect="average_span:empty-case",
         old="""            if clause.is_empty() {
                // an empty clause mentions no variable: its span is 0
                continue;
            }
""", new=""""""),
    dict(name="D13b-span-without-clauses", file=CNF, rule="EM", props=["C14", "C15", "C19"], expect="force_order:empty-case",
         old="""        if self.clauses.is_empty() {
            // no clauses: nothing spans anything (and 0 / 0 would be NaN)
            return 0.0;
        }
""", new=""""""),
    dict(name="em-len-zero-ok", file=CNF, rule="EM", props=["C14", "C15"], expect=None,
         old="""            if clause.is_empty() {
                // an empty clause mentions no variable: its span is 0
                continue;
            }
""", new="""            if clause.len() == 0 {
                continue;
            }
"""),
    dict(name="em-unwrap-last-of-empty-clause", file=CNF, rule="EM", props=["C15", "C17"], expect="to_dimacs:empty-case",
         old="""    pub fn to_dimacs(&self) -> String {
        let mut r = String::new();
        for clause in self.clauses.iter() {""",
         new="""    pub fn to_dimacs(&self) -> String {
        let mut r = String::new();
        for clause in self.clauses.iter() {
            let _widest = clause.iter().map(|l| l.label().value()).max().unwrap();"""),
]

# ------------------------------------------------------------------ BB5 order loop exits; (PM shared model: no instance today, see seeded C12-r6m1)
CASES += [
    dict(name="bb5-break-on-other-test", file=RB, rule="BB", props=["C12"], expect="marginal_map_h:BB5",
         old="""                for (upper_bound, partialmodel) in order {
                    // branch + bound
                    if upper_bound.0 > best_lb {
                        (best_lb, best_model) = self.marginal_map_h(""",
         new="""                for (upper_bound, partialmodel) in order {
                    if best_lb >= 0.5 {
                        break;
                    }
                    // branch + bound
                    if upper_bound.0 > best_lb {
                        (best_lb, best_model) = self.marginal_map_h("""),
]

# ------------------------------------------------------------------ SR-root
CASES += [
    dict(name="sr-root-rewritten", file="src/serialize/ser_bdd.rs", rule="SR", props=["C17"], expect="from_bdd:root-as-given",
         old="""        let r = BDDSerializer::serialize_helper(bdd, &mut table, &mut nodes);""",
         new="""        let r = BDDSerializer::serialize_helper(bdd.to_reg(), &mut table, &mut nodes);"""),
    dict(name="sr-root-copied-ok", file="src/serialize/ser_bdd.rs", rule="SR", props=["C17", "C19"], expect=None,
         old="""        let r = BDDSerializer::serialize_helper(bdd, &mut table, &mut nodes);""",
         new="""        let root = bdd;
        let r = BDDSerializer::serialize_helper(root, &mut table, &mut nodes);"""),
]

# ------------------------------------------------------------------ UG guarded assignment in unit propagation
CASES += [
    dict(name="ug-overwrites-opposite-value", file=UP, rule="UG", props=["C09", "C06"], expect="assigns-unassigned",
         old="""        match cur_state.get(new_assignment.label()) {
            None => (),
            Some(v) => {
                if v == new_assignment.polarity() {
                    return UnitPropResult::PartialSAT(cur_state);
                } else {
                    return UnitPropResult::UNSAT;
                }
            }
        };""",
         new="""        if let Some(v) = cur_state.get(new_assignment.label()) {
            if v == new_assignment.polarity() {
                return UnitPropResult::PartialSAT(cur_state);
            }
        }"""),
    dict(name="ug-guard-by-is-set-ok", file=UP, rule="UG", props=["C09", "C06"], expect=None,
         old="""        match cur_state.get(new_assignment.label()) {
            None => (),
            Some(v) => {
                if v == new_assignment.polarity() {
                    return UnitPropResult::PartialSAT(cur_state);
                } else {
                    return UnitPropResult::UNSAT;
                }
            }
        };""",
         new="""        if cur_state.is_set(new_assignment.label()) {
            return if cur_state.get(new_assignment.label()) == Some(new_assignment.polarity()) {
                UnitPropResult::PartialSAT(cur_state)
            } else {
                UnitPropResult::UNSAT
            };
        }"""),
]

# ------------------------------------------------------------------ SH2 literal case of the SDD condition, evaluated per path
CASES += [
    dict(name="sh2-sdd-literal-flipped", file=SB, rule="SH", props=["C03"], expect="condition:SH2:literal",
         old="""                    if polarity == value {
                        SddPtr::PtrTrue
                    } else {
                        SddPtr::PtrFalse
                    }""",
         new="""                    if polarity == value {
                        SddPtr::PtrFalse
                    } else {
                        SddPtr::PtrTrue
                    }"""),
    dict(name="sh2-sdd-literal-other-label-conditioned", file=SB, rule="SH", props=["C03"], expect="condition:SH2:literal",
         old="""                if label == lbl {
                    if polarity == value {""",
         new="""                if label != lbl {
                    if polarity == value {"""),
    dict(name="sh2-sdd-literal-guards-ok", file=SB, rule="SH", props=["C03"], expect=None,
         old="""            SddPtr::Var(label, polarity) => {
                if label == lbl {
                    if polarity == value {
                        SddPtr::PtrTrue
                    } else {
                        SddPtr::PtrFalse
                    }
                } else {
                    f
                }
            }""",
         new="""            SddPtr::Var(label, _) if label != lbl => f,
            SddPtr::Var(_, true) if value => SddPtr::PtrTrue,
            SddPtr::Var(_, false) if !value => SddPtr::PtrTrue,
            SddPtr::Var(..) => SddPtr::PtrFalse,"""),
]

# ------------------------------------------------------------------ round 7: VO across crate calls, DI, FS reduce, PR keyed weights, CM per impl
WMC = "src/repr/wmc.rs"
_FIRST_UNSET_LABELS = ("src/repr/unit_prop.rs", """    pub fn is_set(&self, var: VarLabel) -> bool {
        self.top_state().model.is_set(var)
    }
}
""", """    pub fn is_set(&self, var: VarLabel) -> bool {
        self.top_state().model.is_set(var)
    }

    pub fn first_unset_from(&self, start: usize) -> Option<usize> {
        let model = &self.top_state().model;
        (start..self.contains_pos_lit.len()).find(|&i| !model.is_set(VarLabel::new_usize(i)))
    }
}
""")
_DI_FIELDS = [(WMC, """    var_to_val: Vec<Option<(T, T)>>,
}""", """    var_to_val: Vec<Option<(T, T)>>,
    total: std::cell::OnceCell<usize>,
}"""), (WMC, """            var_to_val: var_to_val_vec,
""", """            var_to_val: var_to_val_vec,
            total: std::cell::OnceCell::new(),
"""), (WMC, """            var_to_val: Vec::new(),
""", """            var_to_val: Vec::new(),
            total: std::cell::OnceCell::new(),
""")]
CASES += [
    dict(name="vo-argspace-label-scan-given-a-level", file=DN, rule="VO", props=["C06"], expect="arg-space:first_unset_from",
         old="""        let cur_v = self.order().var_at_level(level);

        // check if this literal is currently set in unit propagation; if
        // it is, skip it
        if sat.is_set(cur_v) {
            return self.topdown_h(cnf, sat, level + 1, cache);
        }
""",
         new="""        let level = match sat.first_unset_from(level) {
            Some(l) => l,
            None => return BddPtr::true_ptr(),
        };
        let cur_v = self.order().var_at_level(level);
""", more=[_FIRST_UNSET_LABELS]),
    dict(name="vo-argspace-level-scan-ok", file=DN, rule="VO", props=["C06", "C14"], expect=None,
         old="""        let cur_v = self.order().var_at_level(level);

        // check if this literal is currently set in unit propagation; if
        // it is, skip it
        if sat.is_set(cur_v) {
            return self.topdown_h(cnf, sat, level + 1, cache);
        }
""",
         new="""        let n = cnf.num_vars();
        let level = match (level..n).find(|&l| !sat.is_set(self.order().var_at_level(l))) {
            Some(l) => l,
            None => return BddPtr::true_ptr(),
        };
        let cur_v = self.order().var_at_level(level);
"""),
    dict(name="di-lazy-field-reset-on-growth-only", file=WMC, rule="DI", props=["C07", "C10"], expect="set_weight:DI:total",
         old="""        while n >= self.var_to_val.len() {
            self.var_to_val.push(None);
        }
        self.var_to_val[n] = Some((low, high));""",
         new="""        if n >= self.var_to_val.len() {
            self.var_to_val.resize(n + 1, None);
            self.total.take();
        }
        self.var_to_val[n] = Some((low, high));""", more=_DI_FIELDS),
    dict(name="di-lazy-field-always-reset-ok", file=WMC, rule="DI", props=["C07", "C10"], expect=None,
         old="""        while n >= self.var_to_val.len() {
            self.var_to_val.push(None);
        }
        self.var_to_val[n] = Some((low, high));""",
         new="""        self.total.take();
        while n >= self.var_to_val.len() {
            self.var_to_val.push(None);
        }
        self.var_to_val[n] = Some((low, high));""", more=_DI_FIELDS),
    dict(name="fs-reduce-or-defaults-to-true", file="src/plan/bottom_up_plan.rs", rule="FS", props=["C05"], expect="reduce<-or",
         old="""                if clause.is_empty() {
                    Self::ConstFalse
                } else if clause.len() == 1 {
                    Self::literal(clause[0].label(), clause[0].polarity())
                } else {
                    let first_lit = Self::literal(clause[0].label(), clause[0].polarity());
                    clause.iter().skip(1).fold(first_lit, |acc, i| {
                        let new_l = Self::literal(i.label(), i.polarity());
                        Self::or(acc, new_l)
                    })
                }""",
         new="""                clause
                    .iter()
                    .map(|i| Self::literal(i.label(), i.polarity()))
                    .reduce(|acc, l| Self::or(acc, l))
                    .unwrap_or(Self::ConstTrue)"""),
    dict(name="pr-weight-looked-up-by-literal", file=UP, rule="PR", props=["C09", "C06"], expect="SATSolver::new:fresh-primes",
         old="""                let mut primes = primal::Primes::all();
                let clauses: Vec<Vec<(Literal, u128)>> = i
                    .map({
                        |clause| {
                            clause
                                .iter()
                                .map(|lit| (*lit, primes.next().unwrap() as u128))
                                .collect()
                        }
                    })
                    .collect();""",
         new="""                let lit_primes: Vec<u128> = primal::Primes::all().take(2 * cnf.num_vars()).map(|p| p as u128).collect();
                let weight_of = |lit: &Literal| -> u128 { lit_primes[2 * lit.label().value_usize() + usize::from(lit.polarity())] };
                let clauses: Vec<Vec<(Literal, u128)>> = i
                    .map(|clause| clause.iter().map(|lit| (*lit, weight_of(lit))).collect())
                    .collect();"""),
    dict(name="cm-semantic-compress-stale-prime", file=SEM, rule="CM", props=["C11"], expect="SemanticSddBuilder<P> as builder::sdd::builder::SddBuilder>::compress:CM2",
         old="""    fn compress(&'a self, _node: &mut Vec<SddAnd<'a>>) {}""",
         new="""    fn compress(&'a self, node: &mut Vec<SddAnd<'a>>) {
        use crate::builder::BottomUpBuilder;
        let mut i = 0;
        while i < node.len() {
            let (prime, sub) = (node[i].prime(), node[i].sub());
            let mut j = i + 1;
            while j < node.len() {
                if self.sdd_eq(sub, node[j].sub()) {
                    node[i] = SddAnd::new(self.or(prime, node[j].prime()), sub);
                    node.swap_remove(j);
                } else {
                    j += 1;
                }
            }
            i += 1;
        }
    }"""),
    dict(name="cm-semantic-compress-fresh-prime-ok", file=SEM, rule="CM", props=["C11"], expect=None,
         old="""    fn compress(&'a self, _node: &mut Vec<SddAnd<'a>>) {}""",
         new="""    fn compress(&'a self, node: &mut Vec<SddAnd<'a>>) {
        use crate::builder::BottomUpBuilder;
        let mut i = 0;
        while i < node.len() {
            let sub = node[i].sub();
            let mut j = i + 1;
            while j < node.len() {
                if self.sdd_eq(sub, node[j].sub()) {
                    node[i] = SddAnd::new(self.or(node[i].prime(), node[j].prime()), sub);
                    node.swap_remove(j);
                } else {
                    j += 1;
                }
            }
            i += 1;
        }
    }"""),
    dict(name="mp-from-sexpr-own-lexicographic-numbering", file="src/serialize/ser_logical_expr.rs", rule="MP", props=["C19", "C17"],
         expect="from_sexpr:variable-numbering",
         old="""        v.sort();
        HashMap::from_iter""",
         new="""        v.sort_by_key(|s| (s.len(), (*s).clone()));
        HashMap::from_iter""",
         more=[("src/repr/logical_expr.rs", """        let mapping = sexpr.variable_mapping();
""", """        let mut names: Vec<&String> = sexpr.unique_variables().into_iter().collect();
        names.sort();
        let mapping: HashMap<&String, usize> = names.into_iter().enumerate().map(|(i, s)| (s, i)).collect();
""")]),
    # (round 9) a consistent change of the numbering keeps the tool's pipeline intact (C19: weights and orders are attached by
    # name) but is no longer "the documented variable numbering" of C17: reported for C17 by MP documented-order
    dict(name="mp-variable-mapping-other-order-alone", file="src/serialize/ser_logical_expr.rs", rule="MP", props=["C17"], expect="variable-numbering:documented-order",
         old="""        v.sort();
        HashMap::from_iter""",
         new="""        v.sort_by_key(|s| (s.len(), (*s).clone()));
        HashMap::from_iter"""),
]

# ------------------------------------------------------------------ HS7 occurrence index / CP returned-from-table / LAW tolerance equality
CNF_RS = "src/repr/cnf.rs"
_OCC_SKIP_UNITS = [(CNF_RS, """                        if clause.contains(&Literal::new(VarLabel::new_usize(lit_idx), true)) {""",
                    """                        if clause.len() > 1 && clause.contains(&Literal::new(VarLabel::new_usize(lit_idx), true)) {"""),
                   (CNF_RS, """                        if clause.contains(&Literal::new(VarLabel::new_usize(lit_idx), false)) {""",
                    """                        if clause.len() > 1 && clause.contains(&Literal::new(VarLabel::new_usize(lit_idx), false)) {""")]
CASES += [
    dict(name="hs7-index-skips-units-and-rows-handed-out", file=CNF_RS, rule="HS", props=["C15"], expect="occurrences:HS7:index-use",
         old="""    pub fn decide(&mut self, lit: Literal) {
        if lit.polarity() {
            for clause_idx in self.pos_lits""",
         new="""    pub fn occurrences(&self, lit: Literal) -> &[usize] {
        if lit.polarity() {
            self.pos_lits[lit.label().value_usize()].as_slice()
        } else {
            self.neg_lits[lit.label().value_usize()].as_slice()
        }
    }

    pub fn decide(&mut self, lit: Literal) {
        if lit.polarity() {
            for clause_idx in self.pos_lits""", more=_OCC_SKIP_UNITS),
    dict(name="hs7-index-skips-units-alone-ok", file=CNF_RS, rule="HS", props=["C15"], expect=None,
         old=_OCC_SKIP_UNITS[0][1], new=_OCC_SKIP_UNITS[0][2], more=_OCC_SKIP_UNITS[1:]),
    dict(name="hs7-rows-handed-out-alone-ok", file=CNF_RS, rule="HS", props=["C15"], expect=None,
         old="""    pub fn decide(&mut self, lit: Literal) {
        if lit.polarity() {
            for clause_idx in self.pos_lits""",
         new="""    pub fn occurrences(&self, lit: Literal) -> &[usize] {
        if lit.polarity() {
            self.pos_lits[lit.label().value_usize()].as_slice()
        } else {
            self.neg_lits[lit.label().value_usize()].as_slice()
        }
    }

    pub fn decide(&mut self, lit: Literal) {
        if lit.polarity() {
            for clause_idx in self.pos_lits"""),
    dict(name="law-eq-by-tolerance", file="src/util/semirings/expectation.rs", rule="LAW", props=["C12", "C13"], expect="ExpectedUtility:eq-is-value-equality",
         old="""#[derive(Debug, Clone, Copy, PartialEq)]
pub struct ExpectedUtility(pub f64, pub f64);""",
         new="""#[derive(Debug, Clone, Copy)]
pub struct ExpectedUtility(pub f64, pub f64);

impl PartialEq for ExpectedUtility {
    fn eq(&self, other: &ExpectedUtility) -> bool {
        (self.0 - other.0).abs() <= 1e-9 && (self.1 - other.1).abs() <= 1e-9
    }
}"""),
    dict(name="law-eq-handwritten-componentwise-ok", file="src/util/semirings/expectation.rs", rule="LAW", props=["C12", "C13"], expect=None,
         old="""#[derive(Debug, Clone, Copy, PartialEq)]
pub struct ExpectedUtility(pub f64, pub f64);""",
         new="""#[derive(Debug, Clone, Copy)]
pub struct ExpectedUtility(pub f64, pub f64);

impl PartialEq for ExpectedUtility {
    fn eq(&self, other: &ExpectedUtility) -> bool {
        self.0 == other.0 && self.1 == other.1
    }
}"""),
]

# ------------------------------------------------------------------ round 8: TR, CN container, VO stores, RN3 path order, facts through helpers
SEMB = "src/builder/sdd/semantic.rs"
CASES += [
    dict(name="tr-memoised-hash-truncated-to-u64", file=RB, rule="TR", props=["C10"], expect="cached_semantic_hash:TR:field-as-u64",
         old="""        *(self.semantic_hash.borrow_mut()) = Some(h.value());""",
         new="""        *(self.semantic_hash.borrow_mut()) = Some((h.value() as u64) as u128);"""),
    dict(name="tr-widening-and-same-width-casts-ok", file=RB, rule="TR", props=["C10", "C12"], expect=None,
         old="""        *(self.semantic_hash.borrow_mut()) = Some(h.value());""",
         new="""        *(self.semantic_hash.borrow_mut()) = Some((h.value() as u128) + ((self.var.value() as usize) as u128) * 0);"""),
    dict(name="cn-clause-collected-by-variable", file="src/repr/cnf.rs", rule="CN", props=["C17", "C15"], expect="from_dimacs:clause-as-variable-map",
         old="""            let mut lit_vec: Vec<Literal> = Vec::new();
            for l in itm.lits().iter() {
                let b = match l.sign() {
                    Sign::Neg => false,
                    Sign::Pos => true,
                };
                // subtract 1, we are 0-indexed
                let lbl = VarLabel::new(l.var().to_u64() - 1);
                m = max(l.var().to_u64() as usize, m);
                lit_vec.push(Literal::new(lbl, b));
            }
            clause_vec.push(lit_vec);""",
         new="""            let mut by_var: std::collections::BTreeMap<VarLabel, bool> = std::collections::BTreeMap::new();
            for l in itm.lits().iter() {
                let b = match l.sign() {
                    Sign::Neg => false,
                    Sign::Pos => true,
                };
                m = max(l.var().to_u64() as usize, m);
                by_var.insert(VarLabel::new(l.var().to_u64() - 1), b);
            }
            clause_vec.push(by_var.into_iter().map(|(v, b)| Literal::new(v, b)).collect());"""),
    dict(name="cn-clause-collected-by-literal-ok", file="src/repr/cnf.rs", rule="CN", props=["C17", "C15"], expect=None,
         old="""            let mut lit_vec: Vec<Literal> = Vec::new();
            for l in itm.lits().iter() {
                let b = match l.sign() {
                    Sign::Neg => false,
                    Sign::Pos => true,
                };
                // subtract 1, we are 0-indexed
                let lbl = VarLabel::new(l.var().to_u64() - 1);
                m = max(l.var().to_u64() as usize, m);
                lit_vec.push(Literal::new(lbl, b));
            }
            clause_vec.push(lit_vec);""",
         new="""            let mut seen: std::collections::BTreeSet<Literal> = std::collections::BTreeSet::new();
            for l in itm.lits().iter() {
                let b = match l.sign() {
                    Sign::Neg => false,
                    Sign::Pos => true,
                };
                m = max(l.var().to_u64() as usize, m);
                seen.insert(Literal::new(VarLabel::new(l.var().to_u64() - 1), b));
            }
            clause_vec.push(seen.into_iter().collect());"""),
    dict(name="vo-new-stores-pos-to-var-swapped", file="src/repr/var_order.rs", rule="VO", props=["C14", "C08", "C01"], expect="VarOrder::new:inverse-by-construction",
         old="""        let mut v = vec![0; order.len()];
        let mut pos_to_var = Vec::new();
        for i in 0..order.len() {
            v[order[i].value() as usize] = i;
            pos_to_var.push(order[i].value() as usize);
        }""",
         new="""        let mut v = vec![0; order.len()];
        let mut pos_to_var = vec![0; order.len()];
        for (pos, var) in order.iter().enumerate() {
            let var = var.value_usize();
            v[var] = pos;
            pos_to_var[var] = pos;
        }"""),
    dict(name="vo-new-stores-both-tables-ok", file="src/repr/var_order.rs", rule="VO", props=["C14", "C08", "C01"], expect=None,
         old="""        let mut v = vec![0; order.len()];
        let mut pos_to_var = Vec::new();
        for i in 0..order.len() {
            v[order[i].value() as usize] = i;
            pos_to_var.push(order[i].value() as usize);
        }""",
         new="""        let mut v = vec![0; order.len()];
        let mut pos_to_var = vec![0; order.len()];
        for (pos, var) in order.iter().enumerate() {
            let var = var.value_usize();
            v[var] = pos;
            pos_to_var[pos] = var;
        }"""),
    dict(name="rn3-order-compressed-list-interned-untrimmed", file="src/builder/sdd/compression.rs", rule="RN", props=["C04"], expect="canonicalize:RN3:order",
         old="""            // check for a base case after compression (compression can sometimes
            // reduce node counts to a base case)
            if let Some(sdd) = self.canonicalize_base_case(&node) {
                return sdd;
            }
        }""",
         new="""        }"""),
    dict(name="rn3-sign-test-through-predicate-helper-ok", file=SB, rule="RN", props=["C04"], expect=None,
         old="""        if bdd.high().is_neg() || self.is_false(bdd.high()) || bdd.high().is_neg_var() {""",
         new="""        let stored_negated = |x: SddPtr<'a>| x.is_neg() || self.is_false(x) || x.is_neg_var();
        if stored_negated(bdd.high()) {"""),
]

VTF = "src/repr/vtree.rs"
CASES += [
    # ------------------------------------------------------------------ FD (round 9, pre-emptive from the coverage listing)
    dict(name="fd-right-child-dropped", file=VTF, rule="FD", props=["C14"], expect="from_dtree:FD1",
         old="""                    (None, Some(r)) => Some(VTree::right_linear_c(cutset_v.as_slice(), &Some(r))),""",
         new="""                    (None, Some(_r)) => Some(VTree::right_linear_c(cutset_v.as_slice(), &None)),"""),
    dict(name="fd-both-children-left-only", file=VTF, rule="FD", props=["C14"], expect="from_dtree:FD1",
         old="""                        let subtree = VTree::new_node(Box::new(l), Box::new(r));
                        Some(VTree::right_linear_c(cutset_v.as_slice(), &Some(subtree)))""",
         new="""                        let _ = r;
                        Some(VTree::right_linear_c(cutset_v.as_slice(), &Some(l)))"""),
    dict(name="fd-none-without-cutset-test", file=VTF, rule="FD", props=["C14"], expect="from_dtree:FD1",
         old="""                    (None, None) if cutset_v.is_empty() => None,
                    (None, None) => Some(VTree::right_linear_c(cutset_v.as_slice(), &None)),""",
         new="""                    (None, None) => None,"""),
    dict(name="fd-left-child-twice", file=VTF, rule="FD", props=["C14"], expect="from_dtree:FD1",
         old="""                        let subtree = VTree::new_node(Box::new(l), Box::new(r));""",
         new="""                        let _ = r;
                        let subtree = VTree::new_node(Box::new(l.clone()), Box::new(l));"""),
    dict(name="fd-continuation-dropped-at-last-var", file=VTF, rule="FD", props=["C14"], expect="right_linear_c:FD2",
         old="""            (&[v1], Some(v2)) => {
                VTree::new_node(Box::new(VTree::new_leaf(v1)), Box::new(v2.clone()))
            }""",
         new="""            (&[v1], Some(_v2)) => VTree::new_leaf(v1),"""),
    dict(name="fd-continuation-not-passed-down", file=VTF, rule="FD", props=["C14"], expect="right_linear_c:FD2",
         old="""                let sub = VTree::right_linear_c(vars, continuation);""",
         new="""                let sub = VTree::right_linear_c(vars, &None);"""),
    dict(name="fd-or-pattern-and-if-let-ok", file=VTF, rule="FD", props=["C14"], expect=None,
         old="""                    (Some(l), None) => Some(VTree::right_linear_c(cutset_v.as_slice(), &Some(l))),
                    (None, Some(r)) => Some(VTree::right_linear_c(cutset_v.as_slice(), &Some(r))),""",
         new="""                    (Some(t), None) | (None, Some(t)) => {
                        let k = Some(t);
                        Some(VTree::right_linear_c(&cutset_v, &k))
                    }"""),
    dict(name="fd-leaf-case-by-len-ok", file=VTF, rule="FD", props=["C14"], expect=None,
         old="""                if cutset.is_empty() {
                    None
                } else {
                    Some(VTree::right_linear_c(cutset_v.as_slice(), &None))
                }""",
         new="""                if !cutset.is_empty() {
                    return Some(VTree::right_linear_c(cutset_v.as_slice(), &None));
                }
                None"""),
]

CASES += [
    dict(name="vt-balanced-left-half-twice", file="src/repr/dtree.rs", rule="VT", props=["C14"], expect="DTree::balanced:slice-partition",
         old="""            let subr = DTree::balanced(r);""",
         new="""            let _ = r;
            let subr = DTree::balanced(l);"""),
    dict(name="vt-balanced-skips-middle", file="src/repr/dtree.rs", rule="VT", props=["C14"], expect="DTree::balanced:slice-partition",
         old="""            let (l, r) = trees.split_at(trees.len() / 2);""",
         new="""            let mid = trees.len() / 2;
            let (l, r) = (&trees[..mid], &trees[mid + 1..]);"""),
    dict(name="vt-balanced-range-halves-ok", file="src/repr/dtree.rs", rule="VT", props=["C14"], expect=None,
         old="""            let (l, r) = trees.split_at(trees.len() / 2);""",
         new="""            let mid = trees.len() >> 1;
            let (l, r) = (&trees[..mid], &trees[mid..]);"""),
]

CASES += [
    # ------------------------------------------------------------------ MM (the double-and-add loop of mul_mod; part of LAW)
    dict(name="mm-bit-test-inverted", file=FF, rule="LAW", props=["C13"], expect="mul_mod:double-and-add",
         old="""        if b & 1 == 1 {""", new="""        if b & 1 == 0 {"""),
    dict(name="mm-multiple-not-doubled", file=FF, rule="LAW", props=["C13"], expect="mul_mod:double-and-add",
         old="""        a = (a + a) % P;""", new="""        a = (a + 1) % P;"""),
    dict(name="mm-accumulator-adds-twice", file=FF, rule="LAW", props=["C13"], expect="mul_mod:double-and-add",
         old="""            result = (result + a) % P;""", new="""            result = (result + a + a) % P;"""),
    dict(name="mm-accumulator-seeded-with-a", file=FF, rule="LAW", props=["C13"], expect="mul_mod:double-and-add",
         old="""    let mut result: u128 = 0;
    let mut a = a % P;""", new="""    let mut a = a % P;
    let mut result: u128 = a;"""),
    dict(name="mm-returns-multiple", file=FF, rule="LAW", props=["C13"], expect="mul_mod:double-and-add",
         old="""        b >>= 1;
    }
    result
}""", new="""        b >>= 1;
    }
    let _ = result;
    a
}"""),
    dict(name="mm-other-spellings-ok", file=FF, rule="LAW", props=["C13"], expect=None,
         old="""    while b > 0 {
        if b & 1 == 1 {
            result = (result + a) % P;
        }
        a = (a + a) % P;
        b >>= 1;
    }""", new="""    while b != 0 {
        if b % 2 != 0 {
            result = (a + result) % P;
        }
        a = (2 * a) % P;
        b /= 2;
    }"""),
]

SLE = "src/serialize/ser_logical_expr.rs"
CASES += [
    # ------------------------------------------------------------------ UV (pre-emptive, from the coverage listing)
    dict(name="uv-ite-else-branch-skipped", file=SLE, rule="UV", props=["C17", "C19"], expect="unique_variables:visits-every-subformula",
         old="""                .collect::<HashSet<&String>>()
                .union(&c.unique_variables())
                .cloned()
                .collect::<HashSet<&String>>(),""",
         new="""                .collect::<HashSet<&String>>(),"""),
    dict(name="uv-intersection-for-union", file=SLE, rule="UV", props=["C17", "C19"], expect="unique_variables:visits-every-subformula",
         old="""                .union(&b.unique_variables())
                .cloned()
                .collect::<HashSet<&String>>(),
            LogicalSExpr::Ite(a, b, c) => a""",
         new="""                .intersection(&b.unique_variables())
                .cloned()
                .collect::<HashSet<&String>>(),
            LogicalSExpr::Ite(a, b, c) => a"""),
    dict(name="uv-xor-left-only", file=SLE, rule="UV", props=["C17", "C19"], expect="unique_variables:visits-every-subformula",
         old="""            | LogicalSExpr::Iff(a, b)
            | LogicalSExpr::Xor(a, b) => a""",
         new="""            | LogicalSExpr::Iff(a, b) => a
                .unique_variables()
                .union(&b.unique_variables())
                .cloned()
                .collect::<HashSet<&String>>(),
            LogicalSExpr::Xor(a, _b) => a.unique_variables(),
            LogicalSExpr::Xor(a, b) => a"""),
    dict(name="uv-extend-loop-ok", file=SLE, rule="UV", props=["C17", "C19"], expect=None,
         old="""            LogicalSExpr::Ite(a, b, c) => a
                .unique_variables()
                .union(&b.unique_variables())
                .cloned()
                .collect::<HashSet<&String>>()
                .union(&c.unique_variables())
                .cloned()
                .collect::<HashSet<&String>>(),""",
         new="""            LogicalSExpr::Ite(a, b, c) => {
                let mut vars = a.unique_variables();
                vars.extend(b.unique_variables());
                vars.extend(c.unique_variables());
                vars
            }"""),
]

CNFF = "src/repr/cnf.rs"
CASES += [
    # ------------------------------------------------------------------ TX (round 9; also reports C17-r6m1, missed since round 6)
    dict(name="tx-zero-lines-filtered", file=CNFF, rule="TX", props=["C17", "C19"], expect="Cnf::from_dimacs:text-as-given",
         old="""        let (_, cvec) = match parse_dimacs(input).unwrap() {""",
         new="""        let cleaned: String = input.lines().map(str::trim).filter(|l| *l != "%" && *l != "0").collect::<Vec<_>>().join("\\n");
        let (_, cvec) = match parse_dimacs(&cleaned).unwrap() {"""),
    dict(name="tx-zero-lines-skipped-in-loop", file=CNFF, rule="TX", props=["C17", "C19"], expect="Cnf::from_dimacs:text-as-given",
         old="""        let (_, cvec) = match parse_dimacs(input).unwrap() {""",
         new="""        let mut cleaned = String::new();
        for l in input.lines() {
            if l.trim() != "0" {
                cleaned.push_str(l);
                cleaned.push('\\n');
            }
        }
        let (_, cvec) = match parse_dimacs(&cleaned).unwrap() {"""),
    dict(name="tx-comment-and-trailer-filter-ok", file=CNFF, rule="TX", props=["C17", "C19"], expect=None,
         old="""        let (_, cvec) = match parse_dimacs(input).unwrap() {""",
         new="""        let cleaned: String = input.replace('\\r', "").lines().filter(|l| !l.trim_start().starts_with('%')).collect::<Vec<_>>().join("\\n");
        let (_, cvec) = match parse_dimacs(&cleaned).unwrap() {"""),
]

VOF = "src/repr/var_order.rs"
CASES += [
    # ------------------------------------------------------------------ DF (round 9: two agents independently "hardened" VarOrder::get)
    dict(name="df-order-position-defaults-to-last", file=VOF, rule="DF", props=["C01", "C02", "C14"], expect="VarOrder::get:VarOrder.var_to_pos:no-default",
         old="""        self.var_to_pos[var.value() as usize]
    }""",
         new="""        self.var_to_pos.get(var.value() as usize).copied().unwrap_or(self.var_to_pos.len())
    }"""),
    dict(name="df-weight-defaults-to-one", file="src/repr/wmc.rs", rule="DF", props=["C07", "C08", "C11"], expect="var_weight:WmcParams.var_to_val:no-default",
         old="""        return (self.var_to_val[label.value_usize()]).as_ref().unwrap();""",
         new="""        match self.var_to_val.get(label.value_usize()) {
            Some(Some(w)) => w,
            _ => &self.fallback,
        }""",
         more=[("src/repr/wmc.rs", """    var_to_val: Vec<Option<(T, T)>>,
}""", """    var_to_val: Vec<Option<(T, T)>>,
    fallback: (T, T),
}"""),
               ("src/repr/wmc.rs", """            var_to_val: var_to_val_vec,
        }""", """            var_to_val: var_to_val_vec,
            fallback: (T::one(), T::one()),
        }"""),
               ("src/repr/wmc.rs", """            var_to_val: Vec::new(),
        }""", """            var_to_val: Vec::new(),
            fallback: (T::one(), T::one()),
        }""")]),
    dict(name="df-checked-lookup-that-still-refuses-ok", file=VOF, rule="DF", props=["C01", "C02", "C14"], expect=None,
         old="""        self.var_to_pos[var.value() as usize]
    }""",
         new="""        match self.var_to_pos.get(var.value() as usize) {
            Some(p) => *p,
            None => panic!("variable {:?} is not in the order", var),
        }
    }"""),
]

CASES += [
    # ------------------------------------------------------------------ RH (round 9: C02-r9m2, C04-r9m2)
    dict(name="rh-propagate-resets-carried-length", file=BT, rule="RH", props=["C02", "C04"], expect="displaced-keeps-length",
         old="""    let mut searcher = itm;
    let mut pos = pos;""",
         new="""    let mut searcher = HashTableElement { psl: 0, ..itm };
    let mut pos = pos;"""),
    dict(name="rh-propagate-starts-behind-given-slot", file=BT, rule="RH", props=["C02", "C04"], expect="grow:rehome",
         old="""    let mut searcher = itm;
    let mut pos = pos;""",
         new="""    let mut searcher = itm;
    searcher.psl += 1;
    let mut pos = (pos + 1) % cap;""",
         more=[(BT, """                    self.propagate(cur_itm, pos);
                    let ptr = self.alloc.alloc(elem);
                    let entry = HashTableElement::new(ptr, hash, psl);
                    self.len += 1;
                    self.tbl[pos] = entry;
                    return ptr;""", """                    let ptr = self.alloc.alloc(elem);
                    self.tbl[pos] = HashTableElement::new(ptr, hash, psl);
                    self.len += 1;
                    propagate(&mut self.tbl, self.cap, cur_itm, pos);
                    return ptr;""")]),
    dict(name="rh-propagate-rebuilds-element-with-its-length-ok", file=BT, rule="RH", props=["C02", "C04"], expect=None,
         old="""    let mut searcher = itm;
    let mut pos = pos;""",
         new="""    let mut searcher = HashTableElement { psl: itm.psl, ..itm };
    let mut pos = pos;"""),
]

CASES += [
    # ------------------------------------------------------------------ UF (round 9: C09-r9m1)
    dict(name="uf-unit-skipped-under-a-budget", file=UP, rule="UG", props=["C09"], expect="decide:unit-found-is-propagated",
         old="""                // just found a unit. propagate it and move onto the next watcher
                let new_unit = remaining_lits.next().unwrap();""",
         new="""                // just found a unit. propagate it and move onto the next watcher
                if cur_state.true_assignments.iter().count() > 4096 {
                    watcher_idx += 1;
                    continue;
                }
                let new_unit = remaining_lits.next().unwrap();"""),
    dict(name="uf-match-on-the-count-ok", file=UP, rule="UG", props=["C09"], expect=None,
         old="""            } else if num_remaining == 1 {
                // just found a unit. propagate it and move onto the next watcher
                let new_unit = remaining_lits.next().unwrap();
                match self.decide(cur_state, *new_unit) {
                    UnitPropResult::UNSAT => return UnitPropResult::UNSAT,
                    UnitPropResult::PartialSAT(new_state) => {
                        cur_state = new_state;
                        watcher_idx += 1;
                    }
                }
            } else {""",
         new="""            } else if 1 == num_remaining {
                // just found a unit. propagate it and move onto the next watcher
                let new_unit = *remaining_lits.next().unwrap();
                let UnitPropResult::PartialSAT(new_state) = self.decide(cur_state, new_unit) else {
                    return UnitPropResult::UNSAT;
                };
                cur_state = new_state;
                watcher_idx += 1;
            } else {"""),
]

CASES += [
    # ------------------------------------------------------------------ SH2 binary-case (round 9: C03-r9m1)
    dict(name="sh2-sdd-binary-fast-path-sign-dependent", file=SB, rule="SH", props=["C03"], expect="condition:SH2:binary-case",
         old="""            _ => {
                let mut v = Vec::new();
                // f is a node; recurse and compress the result""",
         new="""            SddPtr::BDD(bdd) | SddPtr::ComplBDD(bdd) if bdd.label() == lbl => {
                if !f.is_neg() == value {
                    f.high()
                } else {
                    f.low()
                }
            }
            _ => {
                let mut v = Vec::new();
                // f is a node; recurse and compress the result"""),
    dict(name="sh2-sdd-binary-fast-path-ok", file=SB, rule="SH", props=["C03"], expect=None,
         old="""            _ => {
                let mut v = Vec::new();
                // f is a node; recurse and compress the result""",
         new="""            SddPtr::BDD(bdd) | SddPtr::ComplBDD(bdd) if bdd.label() == lbl => {
                if value {
                    f.high()
                } else {
                    f.low()
                }
            }
            _ => {
                let mut v = Vec::new();
                // f is a node; recurse and compress the result"""),
]

CASES += [
    # ------------------------------------------------------------------ WC owned state (round 9: C06-r9m1, C11-r9m2; also C06-r4m1)
    dict(name="wc-watch-tables-asked-by-the-solver", file=UP, rule="WC", props=["C06", "C09"], expect="watch-tables:access<-repr::unit_prop::UnitPropagate::is_watched",
         old="""    /// Set a variable to a particular value and propagates
    /// returns true if success, false if UNSAT
    fn decide(""",
         new="""    /// true if some clause watches a literal of this variable
    pub fn is_watched(&self, var: VarLabel) -> bool {
        !self.watch_list_pos[var.value_usize()].is_empty() || !self.watch_list_neg[var.value_usize()].is_empty()
    }

    /// Set a variable to a particular value and propagates
    /// returns true if success, false if UNSAT
    fn decide(""",
         more=[(UP, """    pub fn is_sat(&self) -> bool {""", """    pub fn is_constrained(&self, var: VarLabel) -> bool {
        self.up.is_watched(var)
    }

    pub fn is_sat(&self) -> bool {""")]),
    dict(name="wc-watch-tables-private-helper-of-decide-ok", file=UP, rule="WC", props=["C06", "C09"], expect=None,
         old="""    /// Set a variable to a particular value and propagates
    /// returns true if success, false if UNSAT
    fn decide(""",
         new="""    fn num_watchers(&self, lit: Literal) -> usize {
        if lit.polarity() {
            self.watch_list_neg[lit.label().value_usize()].len()
        } else {
            self.watch_list_pos[lit.label().value_usize()].len()
        }
    }

    /// Set a variable to a particular value and propagates
    /// returns true if success, false if UNSAT
    fn decide(""",
         more=[(UP, """            if new_assignment.polarity() {
                if watcher_idx >= self.watch_list_neg[var_idx].len() {
                    break;
                }
            } else if watcher_idx >= self.watch_list_pos[var_idx].len() {
                break;
            }""", """            if watcher_idx >= self.num_watchers(new_assignment) {
                break;
            }""")]),
]

CASES += [
    # ------------------------------------------------------------------ DI eager derived fields (pre-emptive for round 10)
    dict(name="di-eager-count-not-updated-by-new-last", file=VOF, rule="DI", props=["C01", "C02", "C14"], expect="new_last:DI:eager:count",
         old="""    pos_to_var: Vec<usize>,
}""",
         new="""    pos_to_var: Vec<usize>,
    /// number of variables, fixed when the order is built
    count: usize,
}""",
         more=[(VOF, """        VarOrder {
            var_to_pos: v,
            pos_to_var,
        }""", """        VarOrder {
            count: v.len(),
            var_to_pos: v,
            pos_to_var,
        }"""),
               (VOF, """    pub fn num_vars(&self) -> usize {
        self.var_to_pos.len()""", """    pub fn num_vars(&self) -> usize {
        self.count""")]),
    dict(name="di-eager-count-updated-ok", file=VOF, rule="DI", props=["C01", "C02", "C14"], expect=None,
         old="""    pos_to_var: Vec<usize>,
}""",
         new="""    pos_to_var: Vec<usize>,
    /// number of variables
    count: usize,
}""",
         more=[(VOF, """        VarOrder {
            var_to_pos: v,
            pos_to_var,
        }""", """        VarOrder {
            count: v.len(),
            var_to_pos: v,
            pos_to_var,
        }"""),
               (VOF, """    pub fn num_vars(&self) -> usize {
        self.var_to_pos.len()""", """    pub fn num_vars(&self) -> usize {
        self.count"""),
               (VOF, """        self.var_to_pos.push(pos);
        self.pos_to_var.push(pos);
        VarLabel::new(pos as u64)""", """        self.var_to_pos.push(pos);
        self.pos_to_var.push(pos);
        self.count += 1;
        VarLabel::new(pos as u64)""")]),
]

CASES += [
    # ------------------------------------------------------------------ DN (round 10: C06-r10m2, C11-r10m2 - two agents, same idea)
    dict(name="dn-order-cutoff-in-ddnnf-conditioning", file=DN, rule="DN", props=["C06"], expect="cond_helper:returned-as-is",
         old="""            BddPtr::Reg(node) | BddPtr::Compl(node) => {
                // check cache
                if let Some(v) = bdd.scratch::<BddPtr>() {""",
         new="""            BddPtr::Reg(node) | BddPtr::Compl(node) if self.order().lt(lbl, node.var) => bdd,
            BddPtr::Reg(node) | BddPtr::Compl(node) => {
                // check cache
                if let Some(v) = bdd.scratch::<BddPtr>() {"""),
    dict(name="dn-constant-test-first-ok", file=DN, rule="DN", props=["C06"], expect=None,
         old="""    fn cond_helper(&'a self, bdd: BddPtr<'a>, lbl: VarLabel, value: bool) -> BddPtr<'a> {
        match bdd {""",
         new="""    fn cond_helper(&'a self, bdd: BddPtr<'a>, lbl: VarLabel, value: bool) -> BddPtr<'a> {
        if bdd.is_const() {
            return bdd;
        }
        match bdd {"""),
]

CASES += [
    # ------------------------------------------------------------------ PA paired calls (round 10: C03-r10m1)
    dict(name="pa-early-return-between-begin-and-end", file=CNFF, rule="PA", props=["C15"], expect="Cnf::eval:eval_scope_begin/eval_scope_end",
         old="""    pub fn eval(&self, assignment: &Vec<bool>) -> bool {
        assert!(assignment.len() >= self.num_vars());""",
         new="""    fn eval_scope_begin(&self) {}
    fn eval_scope_end(&self) {}
    pub fn eval(&self, assignment: &Vec<bool>) -> bool {
        assert!(assignment.len() >= self.num_vars());
        self.eval_scope_begin();""",
         more=[(CNFF, """        // no unsat clauses
        true
    }""", """        // no unsat clauses
        self.eval_scope_end();
        true
    }""")]),
    dict(name="pa-end-on-every-path-ok", file=CNFF, rule="PA", props=["C15"], expect=None,
         old="""    pub fn eval(&self, assignment: &Vec<bool>) -> bool {
        assert!(assignment.len() >= self.num_vars());""",
         new="""    fn eval_scope_begin(&self) {}
    fn eval_scope_end(&self) {}
    pub fn eval(&self, assignment: &Vec<bool>) -> bool {
        assert!(assignment.len() >= self.num_vars());
        self.eval_scope_begin();""",
         more=[(CNFF, """        // no unsat clauses
        true
    }""", """        // no unsat clauses
        self.eval_scope_end();
        true
    }"""),
               (CNFF, """            if !clause_sat {
                return false;
            }
        }
        // no unsat clauses""", """            if !clause_sat {
                self.eval_scope_end();
                return false;
            }
        }
        // no unsat clauses""")]),
]

POLY = "src/util/semirings/polynomial_semiring_implementation.rs"
CASES += [
    # ------------------------------------------------------------------ LAW mul-pairs-complete (round 10: C07-r10m2)
    dict(name="law-poly-mul-clamp-off-by-one", file=POLY, rule="LAW", props=["C13", "C07"], expect="Polynomial:mul-pairs-complete",
         old="""            for j in 0..rhs.len {
                if i + j < MAX_COEFFS {
                    new_coeffs[i + j] =
                        new_coeffs[i + j] + (self.coefficients[i] * rhs.coefficients[j]);
                }
            }""",
         new="""            let j_end = rhs.len.min((MAX_COEFFS - 1).saturating_sub(i));
            for j in 0..j_end {
                new_coeffs[i + j] =
                    new_coeffs[i + j] + (self.coefficients[i] * rhs.coefficients[j]);
            }"""),
    dict(name="law-poly-mul-clamp-hoisted-ok", file=POLY, rule="LAW", props=["C13", "C07"], expect=None,
         old="""            for j in 0..rhs.len {
                if i + j < MAX_COEFFS {
                    new_coeffs[i + j] =
                        new_coeffs[i + j] + (self.coefficients[i] * rhs.coefficients[j]);
                }
            }""",
         new="""            let j_end = rhs.len.min(MAX_COEFFS.saturating_sub(i));
            for j in 0..j_end {
                new_coeffs[i + j] =
                    new_coeffs[i + j] + (self.coefficients[i] * rhs.coefficients[j]);
            }"""),
]

CASES += [
    # ------------------------------------------------------------------ FS empty-list (round 10: C01-r10m2)
    dict(name="fs-or-lst-balanced-empty-is-true", file=BB, rule="FS", props=["C01", "C05"], expect="or_lst:empty-list",
         old="""        let mut cur_bdd = BddPtr::false_ptr();
        for &itm in f {
            cur_bdd = self.or(cur_bdd, itm);
        }
        cur_bdd""",
         new="""        let negated: Vec<BddPtr<'a>> = f.iter().map(|x| x.neg()).collect();
        match self.collapse_clauses(&negated) {
            None => BddPtr::true_ptr(),
            Some(x) => x.neg(),
        }"""),
    dict(name="fs-or-lst-balanced-empty-is-false-ok", file=BB, rule="FS", props=["C01", "C05"], expect=None,
         old="""        let mut cur_bdd = BddPtr::false_ptr();
        for &itm in f {
            cur_bdd = self.or(cur_bdd, itm);
        }
        cur_bdd""",
         new="""        let negated: Vec<BddPtr<'a>> = f.iter().map(|x| x.neg()).collect();
        match self.collapse_clauses(&negated) {
            None => BddPtr::false_ptr(),
            Some(x) => x.neg(),
        }"""),
]

_SM_OLD = """            BddPtr::Reg(_) | BddPtr::PtrTrue | BddPtr::PtrFalse => {
                let smoothed_node = BddNode::new(
                    level_var,
                    self.smooth_helper(bdd, current + 1, total),
                    self.smooth_helper(bdd, current + 1, total),
                );
                self.get_or_insert(smoothed_node)
            }"""
_SM_NEW = """            BddPtr::PtrTrue => self.smooth_tail(current, total),
            BddPtr::PtrFalse => self.smooth_tail(current, total).neg(),
            BddPtr::Reg(_) => {
                let below = self.smooth_helper(bdd, current + 1, total);
                self.get_or_insert(BddNode::new(level_var, below, below))
            }"""
_SM_FIELD = ("""    order: RefCell<VarOrder>,
}""", """    order: RefCell<VarOrder>,
    smooth_tails: RefCell<%s>,
}""")
_SM_INIT = ("""            stats: RefCell::new(BddBuilderStats::new()),
        }""", """            stats: RefCell::new(BddBuilderStats::new()),
            smooth_tails: RefCell::new(%s),
        }""")
_SM_AT = """    fn smooth_helper(&'a self, bdd: BddPtr<'a>, current: usize, total: usize) -> BddPtr<'a> {"""

CASES += [
    # ------------------------------------------------------------------ GL12 on-demand table (round 10: C08-r10m1)
    dict(name="gl12-smooth-tails-indexed-by-remaining", file=B, rule="GL", props=["C08", "C19"], expect="GL12:on-demand-table:smooth_tails",
         old=_SM_OLD, new=_SM_NEW,
         more=[(B, _SM_FIELD[0], _SM_FIELD[1] % "Vec<BddPtr<'a>>"), (B, _SM_INIT[0], _SM_INIT[1] % "vec![BddPtr::PtrTrue]"),
               (B, _SM_AT, """    fn smooth_tail(&'a self, current: usize, total: usize) -> BddPtr<'a> {
        let remaining = total - current;
        let mut tails = self.smooth_tails.borrow_mut();
        while tails.len() <= remaining {
            let level_var = self.order.borrow().var_at_level(total - tails.len());
            let below = tails[tails.len() - 1];
            let tail = self.get_or_insert(BddNode::new(level_var, below, below));
            tails.push(tail);
        }
        tails[remaining]
    }

""" + _SM_AT)]),
    dict(name="gl12-smooth-tails-keyed-by-both-ok", file=B, rule="GL", props=["C08", "C19"], expect=None,
         old=_SM_OLD, new=_SM_NEW,
         more=[(B, _SM_FIELD[0], _SM_FIELD[1] % "std::collections::HashMap<(usize, usize), BddPtr<'a>>"),
               (B, _SM_INIT[0], _SM_INIT[1] % "std::collections::HashMap::new()"),
               (B, _SM_AT, """    fn smooth_tail(&'a self, current: usize, total: usize) -> BddPtr<'a> {
        if current >= total {
            return BddPtr::PtrTrue;
        }
        if let Some(t) = self.smooth_tails.borrow().get(&(current, total)) {
            return *t;
        }
        let below = self.smooth_tail(current + 1, total);
        let level_var = self.order.borrow().var_at_level(current);
        let tail = self.get_or_insert(BddNode::new(level_var, below, below));
        self.smooth_tails.borrow_mut().insert((current, total), tail);
        tail
    }

""" + _SM_AT)]),
]

CASES += [
    # ------------------------------------------------------------------ SL4 the caller's bound (round 10: C08-r10m2)
    dict(name="sl4-constant-chain-counted-from-the-order", file=B, rule="SL", props=["C08", "C19"], expect="smooth_helper:return-as-is",
         old=_SM_OLD,
         new="""            BddPtr::PtrTrue | BddPtr::PtrFalse => {
                let order = self.order.borrow();
                order
                    .reverse_in_order_iter()
                    .take(order.num_vars() - current)
                    .fold(bdd, |below, var| {
                        self.get_or_insert(BddNode::new(var, below, below))
                    })
            }
            BddPtr::Reg(_) => {
                let below = self.smooth_helper(bdd, current + 1, total);
                self.get_or_insert(BddNode::new(level_var, below, below))
            }"""),
    dict(name="sl4-order-size-only-asserted-ok", file=B, rule="SL", props=["C08", "C19"], expect=None,
         old="""        debug_assert!(current <= total);
        if current >= total {""",
         new="""        debug_assert!(current <= total);
        debug_assert!(total - current <= self.order.borrow().num_vars());
        if current >= total {"""),
]

ALLAPP = "src/builder/cache/all_app.rs"
_CK = """fn commutative_key<'a, T: DDNNFPtr<'a>>(f: T, g: T, h: T) -> (T, T, T) {
    let rank = |x: &T| {
        let mut hasher = rustc_hash::FxHasher::default();
        x.hash(&mut hasher);
        std::hash::Hasher::finish(&hasher)
    };
    if %s && rank(&g) < rank(&f) {
        (g, f, h)
    } else {
        (f, g, h)
    }
}

impl<'a, T: DDNNFPtr<'a>> IteTable<'a, T> for AllIteTable<T> {"""
_CK_MORE = [(ALLAPP, """                self.table
                    .insert((f, g, h), if compl { res.neg() } else { res });""",
             """                self.table
                    .insert(commutative_key(f, g, h), if compl { res.neg() } else { res });"""),
            (ALLAPP, """                let r = self.table.get(&(f, g, h));""", """                let r = self.table.get(&commutative_key(f, g, h));""")]

CASES += [
    # ------------------------------------------------------------------ GL13 rewritten keys (C01-r4m2 re-examined in round 10)
    dict(name="gl13-key-swapped-for-any-constant-else-branch", file=ALLAPP, rule="GL", props=["C01", "C03", "C16"],
         expect="AllIteTable:GL13:key-denotes-the-triple",
         old="""impl<'a, T: DDNNFPtr<'a>> IteTable<'a, T> for AllIteTable<T> {""",
         new=_CK % "(h.is_true() || h.is_false())", more=_CK_MORE),
    dict(name="gl13-key-swapped-for-conjunctions-only-ok", file=ALLAPP, rule="GL", props=["C01", "C03", "C16"], expect=None,
         old="""impl<'a, T: DDNNFPtr<'a>> IteTable<'a, T> for AllIteTable<T> {""",
         new=_CK % "h.is_false()", more=_CK_MORE),
]

_MM_OLD = """    let mut result: u128 = 0;
    let mut a = a % P;
    let mut b = b;
    while b > 0 {
        if b & 1 == 1 {
            result = (result + a) % P;
        }
        a = (a + a) % P;
        b >>= 1;
    }
    result
}"""
_MM_NEW = """    thread_local! {
        static RECENT: std::cell::RefCell<[(u128, u128, u128, u128); 256]> =
            const { std::cell::RefCell::new([(0, 0, 0, 0); 256]) };
    }
    let key = %s;
    let slot = ((key.1 ^ (key.1 >> 64) ^ key.2.rotate_left(7)) as usize) %% 256;
    let (kp, ka, kb, product) = RECENT.with(|r| r.borrow()[slot]);
    if %s == key {
        return product;
    }
    let mut result: u128 = 0;
    let (mut a, mut b) = (key.1, key.2);
    while b > 0 {
        if b & 1 == 1 {
            result = (result + a) %% P;
        }
        a = (a + a) %% P;
        b >>= 1;
    }
    RECENT.with(|r| r.borrow_mut()[slot] = (P, key.1, key.2, result));
    result
}"""

CASES += [
    # ------------------------------------------------------------------ GL14 static memo in a generic function (round 10: C13-r10m1)
    dict(name="gl14-mul-mod-memo-shared-by-all-moduli", file=FF, rule="GL", props=["C13"], expect="mul_mod:GL14:static-memo-in-generic-fn",
         old=_MM_OLD, new=_MM_NEW % ("(0u128, a % P, b % P)", "(0u128, ka, kb)")),
    dict(name="gl14-mul-mod-memo-keyed-by-modulus-ok", file=FF, rule="GL", props=["C13"], expect=None,
         old=_MM_OLD, new=_MM_NEW % ("(P, a % P, b % P)", "(kp, ka, kb)")),
]

_BT_FIELD = (BT, """    cap: usize,
    /// the length of `tbl`""", """    cap: usize,
    #[allow(dead_code)]
    mask: usize,
    /// the length of `tbl`""")
_BT_INIT = (BT, """            cap: DEFAULT_SIZE,
            len: 0,""", """            cap: DEFAULT_SIZE,
            mask: DEFAULT_SIZE - 1,
            len: 0,""")

CASES += [
    # ------------------------------------------------------------------ DI eager, arithmetic form (round 10: C04-r10m1)
    dict(name="di-eager-mask-not-refreshed-by-grow", file=BT, rule="DI", props=["C04", "C02"], expect="grow:DI:eager:mask",
         old="""        let mut pos: usize = (hash as usize) % self.cap;
        // the distance this item is from its desired location
        let mut psl = 0;

        loop {
            if self.is_occupied(pos) {
                let cur_itm = self.tbl[pos].clone();
                // first check the hashes to see if these elements could
                // possibly be equal; if they are, check if the items are
                // equal and return the found pointer if so""",
         new="""        let mut pos: usize = (hash as usize) & self.mask;
        // the distance this item is from its desired location
        let mut psl = 0;

        loop {
            if self.is_occupied(pos) {
                let cur_itm = self.tbl[pos].clone();
                // first check the hashes to see if these elements could
                // possibly be equal; if they are, check if the items are
                // equal and return the found pointer if so""",
         more=[_BT_FIELD, _BT_INIT]),
    dict(name="di-eager-mask-refreshed-by-grow-ok", file=BT, rule="DI", props=["C04", "C02"], expect=None,
         old="""        self.cap = new_sz;
        let old = mem::replace""", new="""        self.cap = new_sz;
        self.mask = new_sz - 1;
        let old = mem::replace""",
         more=[_BT_FIELD, _BT_INIT]),
]

SSD = "src/serialize/ser_sdd.rs"
_SSD_PRED = (SSD, """impl SDDSerializer {
    fn serialize_helper<'a>(""", """impl SDDSerializer {
    fn is_compl(sdd: SddPtr) -> bool {
        matches!(
            sdd,
            SddPtr::PtrFalse | SddPtr::Var(_, false) | SddPtr::ComplBDD(_) | SddPtr::Compl(_)
        )
    }

    fn serialize_helper<'a>(""")
_SSD_USE = ("""        let compl = matches!(
            sdd,
            SddPtr::PtrFalse | SddPtr::Var(_, false) | SddPtr::ComplBDD(_) | SddPtr::Compl(_)
        );

        let reg = match sdd {""", """        let compl = SDDSerializer::is_compl(sdd);

        let reg = match sdd {""")

CASES += [
    # ------------------------------------------------------------------ CP root-is-helper-result (round 10: C17-r10m2)
    dict(name="cp-sdd-terminal-root-boxed-and-negated-again", file=SSD, rule="CP", props=["C17"], expect="from_sdd:root-is-helper-result",
         old=_SSD_USE[0], new=_SSD_USE[1],
         more=[_SSD_PRED, (SSD, """        let r = SDDSerializer::serialize_helper(sdd, &mut table, &mut nodes);
        SDDSerializer {
            nodes,
            roots: vec![r],
        }""", """        let index = match SDDSerializer::serialize_helper(sdd, &mut table, &mut nodes) {
            SerSDDPtr::Ptr { index, .. } => index,
            terminal => {
                nodes.push(SDDOr(vec![SDDAnd {
                    prime: SerSDDPtr::True,
                    sub: terminal,
                }]));
                nodes.len() - 1
            }
        };
        let compl = SDDSerializer::is_compl(sdd);
        SDDSerializer {
            nodes,
            roots: vec![SerSDDPtr::Ptr { index, compl }],
        }""")]),
    dict(name="cp-sdd-compl-predicate-extracted-ok", file=SSD, rule="CP", props=["C17"], expect=None,
         old=_SSD_USE[0], new=_SSD_USE[1], more=[_SSD_PRED]),
]

CASES += [
    # ------------------------------------------------------------------ BB3 bound by division (round 10: C12-r10m2)
    dict(name="bb3-false-bound-rescaled-by-weight-quotient", file=RB, rule="BB", props=["C12"], expect="marginal_map_h:BB3:order",
         old="""                let false_ub = self.marginal_map_eval(&false_model, &margvar_bits, wmc);""",
         new="""                let false_ub = if margvar_bits.contains(x.value_usize()) {
                    self.marginal_map_eval(&false_model, &margvar_bits, wmc)
                } else {
                    let (low_w, high_w) = wmc.var_weight(*x);
                    RealSemiring(true_ub.0 * low_w.0 / high_w.0)
                };"""),
]

CASES += [
    # ------------------------------------------------------------------ round 11
    dict(name="sp2-sdd-clear-skips-complemented-binary", file=RS, rule="SP", props=["C10"], expect="SddPtr::clear_scratch:every-node-variant",
         old="""            BDD(bdd) | ComplBDD(bdd) => bdd.clear_scratch(),""",
         new="""            BDD(bdd) => bdd.clear_scratch(),
            ComplBDD(_) => {}"""),
    dict(name="sp2-sdd-clear-split-arms-ok", file=RS, rule="SP", props=["C10"], expect=None,
         old="""            BDD(bdd) | ComplBDD(bdd) => bdd.clear_scratch(),""",
         new="""            BDD(bdd) => bdd.clear_scratch(),
            ComplBDD(bdd) => bdd.clear_scratch(),"""),
    dict(name="dp-from-sexpr-table-starts-empty", file="src/repr/logical_expr.rs", rule="DP", props=["C17", "C19"],
         expect="from_sexpr:labels-from-variable-mapping",
         old="""        helper(sexpr, &mapping)""",
         new="""        let _ = &mapping;
        helper(sexpr, &HashMap::new())"""),
    dict(name="rh-evicted-resident-starts-one-slot-on", file=BT, rule="RH", props=["C02", "C04"], expect="displaced-from-own-slot",
         old="""                    self.propagate(cur_itm, pos);""",
         new="""                    self.propagate(cur_itm, (pos + 1) % self.cap);"""),
]
