//! rsdd-sa: a rustc_private driver that dumps the *resolved* program of every
//! crate it compiles as a JSON fact file (type-checked MIR with resolved
//! callees, ADT layouts with Freeze-ness, visibility, ABI attributes, const
//! values).  It never runs the analysed code.  The rules that decide the
//! properties live in /verif/rules/*.py and read these fact files.
//!
//! Used as RUSTC_WORKSPACE_WRAPPER: argv = [self, rustc, args...].
//! One fact file per compiled crate is written to $RSDD_SA_OUT (one write).
#![feature(rustc_private)]
#![allow(clippy::all)]

extern crate rustc_abi;
extern crate rustc_driver;
extern crate rustc_hir;
extern crate rustc_interface;
extern crate rustc_middle;
extern crate rustc_span;

use rustc_driver::Compilation;
use rustc_hir::def::DefKind;
use rustc_hir::def_id::{DefId, LocalDefId};
use rustc_middle::mir::{
    AggregateKind, BasicBlockData, Body, BorrowKind, Const, Operand, Place, ProjectionElem,
    Rvalue, StatementKind, TerminatorKind,
};
use rustc_middle::ty::{self, Instance, Ty, TyCtxt, TypingEnv};
use rustc_span::Span;
use std::fmt::Write as _;

// ---------------------------------------------------------------- JSON
enum J {
    Null,
    B(bool),
    N(i64),
    S(String),
    A(Vec<J>),
    O(Vec<(&'static str, J)>),
}
fn esc(s: &str, out: &mut String) {
    out.push('"');
    for c in s.chars() {
        match c {
            '"' => out.push_str("\\\""),
            '\\' => out.push_str("\\\\"),
            '\n' => out.push_str("\\n"),
            '\r' => out.push_str("\\r"),
            '\t' => out.push_str("\\t"),
            c if (c as u32) < 0x20 => {
                let _ = write!(out, "\\u{:04x}", c as u32);
            }
            c => out.push(c),
        }
    }
    out.push('"');
}
impl J {
    fn s<T: Into<String>>(t: T) -> J {
        J::S(t.into())
    }
    fn write(&self, out: &mut String) {
        match self {
            J::Null => out.push_str("null"),
            J::B(b) => out.push_str(if *b { "true" } else { "false" }),
            J::N(n) => {
                let _ = write!(out, "{}", n);
            }
            J::S(s) => esc(s, out),
            J::A(v) => {
                out.push('[');
                for (i, x) in v.iter().enumerate() {
                    if i > 0 {
                        out.push(',');
                    }
                    x.write(out);
                }
                out.push(']');
            }
            J::O(v) => {
                out.push('{');
                for (i, (k, x)) in v.iter().enumerate() {
                    if i > 0 {
                        out.push(',');
                    }
                    esc(k, out);
                    out.push(':');
                    x.write(out);
                }
                out.push('}');
            }
        }
    }
}

// ---------------------------------------------------------------- helpers
struct Cx<'tcx> {
    tcx: TyCtxt<'tcx>,
}

impl<'tcx> Cx<'tcx> {
    fn path(&self, did: DefId) -> String {
        self.tcx.def_path_str(did)
    }

    fn loc(&self, sp: Span) -> (String, i64, i64) {
        let sp = sp.source_callsite();
        let sm = self.tcx.sess.source_map();
        let lo = sm.lookup_char_pos(sp.lo());
        let hi = sm.lookup_char_pos(sp.hi());
        let name = format!("{}", lo.file.name.prefer_local_unconditionally());
        (name, lo.line as i64, hi.line as i64)
    }

    fn ty_info(&self, t: Ty<'tcx>) -> J {
        // kind + the ADT path behind references/pointers (for typing rules)
        let mut kind = "other";
        let mut adt: Option<String> = None;
        let mut inner = t;
        let mut depth = 0;
        loop {
            match inner.kind() {
                ty::Ref(_, x, _) => {
                    if depth == 0 {
                        kind = "ref";
                    }
                    inner = *x;
                }
                ty::RawPtr(x, _) => {
                    if depth == 0 {
                        kind = "rawptr";
                    }
                    inner = *x;
                }
                _ => break,
            }
            depth += 1;
            if depth > 4 {
                break;
            }
        }
        match inner.kind() {
            ty::Adt(def, _) => {
                if depth == 0 {
                    kind = "adt";
                }
                adt = Some(self.path(def.did()));
            }
            ty::Bool if depth == 0 => kind = "bool",
            ty::Int(_) | ty::Uint(_) if depth == 0 => kind = "int",
            ty::Float(_) if depth == 0 => kind = "float",
            ty::Tuple(_) if depth == 0 => kind = "tuple",
            ty::Closure(..) if depth == 0 => kind = "closure",
            ty::FnDef(..) if depth == 0 => kind = "fndef",
            ty::Param(_) if depth == 0 => kind = "param",
            ty::Slice(_) | ty::Array(..) if depth == 0 => kind = "array",
            _ => {}
        }
        J::O(vec![
            ("s", J::s(format!("{}", t))),
            ("k", J::s(kind)),
            ("adt", adt.map(J::S).unwrap_or(J::Null)),
        ])
    }

    fn place(&self, body: &Body<'tcx>, p: &Place<'tcx>) -> J {
        let mut proj = Vec::new();
        for (base, elem) in p.as_ref().iter_projections() {
            let bty = base.ty(body, self.tcx);
            let e = match elem {
                ProjectionElem::Deref => {
                    let raw = matches!(bty.ty.kind(), ty::RawPtr(..));
                    J::O(vec![("p", J::s("deref")), ("raw", J::B(raw))])
                }
                ProjectionElem::Field(f, fty) => {
                    let mut name = format!("{}", f.index());
                    let mut owner = J::Null;
                    match bty.ty.kind() {
                        ty::Adt(def, _) => {
                            let v = match bty.variant_index {
                                Some(v) => def.variant(v),
                                None => {
                                    if def.is_enum() {
                                        // should not happen without downcast
                                        def.variants().iter().next().unwrap()
                                    } else {
                                        def.non_enum_variant()
                                    }
                                }
                            };
                            if let Some(fd) = v.fields.get(f) {
                                name = fd.name.to_string();
                            }
                            owner = J::s(self.path(def.did()));
                        }
                        ty::Closure(did, _) => {
                            let caps = self.tcx.closure_captures(did.expect_local());
                            if let Some(c) = caps.get(f.index()) {
                                name = c.to_symbol().to_string();
                            }
                            owner = J::s(self.path(*did));
                        }
                        _ => {}
                    }
                    J::O(vec![
                        ("p", J::s("field")),
                        ("i", J::N(f.index() as i64)),
                        ("name", J::S(name)),
                        ("owner", owner),
                        ("ty", J::s(format!("{}", fty))),
                    ])
                }
                ProjectionElem::Index(l) => {
                    J::O(vec![("p", J::s("index")), ("l", J::N(l.index() as i64))])
                }
                ProjectionElem::ConstantIndex { offset, from_end, .. } => J::O(vec![
                    ("p", J::s("cindex")),
                    ("off", J::N(offset as i64)),
                    ("from_end", J::B(from_end)),
                ]),
                ProjectionElem::Subslice { from, to, from_end } => J::O(vec![
                    ("p", J::s("subslice")),
                    ("from", J::N(from as i64)),
                    ("to", J::N(to as i64)),
                    ("from_end", J::B(from_end)),
                ]),
                ProjectionElem::Downcast(name, vi) => {
                    let mut n = name.map(|s| s.to_string()).unwrap_or_default();
                    if n.is_empty() {
                        if let ty::Adt(def, _) = bty.ty.kind() {
                            n = def.variant(vi).name.to_string();
                        }
                    }
                    J::O(vec![
                        ("p", J::s("downcast")),
                        ("v", J::S(n)),
                        ("vi", J::N(vi.index() as i64)),
                    ])
                }
                _ => J::O(vec![("p", J::s("other"))]),
            };
            proj.push(e);
        }
        J::O(vec![("l", J::N(p.local.index() as i64)), ("proj", J::A(proj))])
    }

    fn fn_ref(&self, owner: LocalDefId, did: DefId, args: ty::GenericArgsRef<'tcx>) -> Vec<(&'static str, J)> {
        let tcx = self.tcx;
        let mut v = vec![
            ("def", J::s(self.path(did))),
            ("args", J::s(format!("{:?}", args))),
            ("local", J::B(did.is_local())),
        ];
        let mut targs = Vec::new();
        for a in args.iter() {
            if let Some(t) = a.as_type() {
                targs.push(J::s(format!("{}", t)));
            }
        }
        v.push(("targs", J::A(targs)));
        // the trait the callee is declared in, if any
        if let Some(tr) = tcx.trait_of_assoc(did) {
            v.push(("trait", J::s(self.path(tr))));
        }
        let res = if matches!(tcx.def_kind(did), DefKind::Fn | DefKind::AssocFn) {
            let env = TypingEnv::post_analysis(tcx, owner.to_def_id());
            match Instance::try_resolve(tcx, env, did, args) {
                Ok(Some(inst)) => {
                    let rd = inst.def_id();
                    Some((self.path(rd), rd.is_local(), format!("{:?}", inst.def)))
                }
                _ => None,
            }
        } else {
            None
        };
        match res {
            Some((p, l, k)) => {
                v.push(("res", J::S(p)));
                v.push(("res_local", J::B(l)));
                v.push(("res_kind", J::S(k.split('(').next().unwrap_or("").to_string())));
            }
            None => v.push(("res", J::Null)),
        }
        v
    }

    fn operand(&self, owner: LocalDefId, body: &Body<'tcx>, op: &Operand<'tcx>) -> J {
        match op {
            Operand::Copy(p) => J::O(vec![("k", J::s("copy")), ("place", self.place(body, p))]),
            Operand::Move(p) => J::O(vec![("k", J::s("move")), ("place", self.place(body, p))]),
            Operand::Constant(c) => {
                let ty = c.const_.ty();
                let mut v = vec![("k", J::s("const")), ("ty", J::s(format!("{}", ty)))];
                if let ty::FnDef(did, args) = *ty.kind() {
                    v.push(("fn", J::O(self.fn_ref(owner, did, args))));
                } else if let ty::Closure(did, _) = *ty.kind() {
                    v.push(("closure", J::s(self.path(did))));
                } else {
                    match c.const_ {
                        Const::Ty(_, ct) => {
                            if let ty::ConstKind::Param(p) = ct.kind() {
                                v.push(("param", J::s(p.name.to_string())));
                            } else if let Some(si) = ct.try_to_leaf() {
                                v.push(("val", J::s(format!("{}", si.to_bits_unchecked()))));
                            } else {
                                v.push(("txt", J::s(format!("{}", c.const_))));
                            }
                        }
                        Const::Unevaluated(uv, _) => {
                            v.push(("uneval", J::s(self.path(uv.def))));
                            // a promoted constant (`&"0"`, `&Sign::Neg`): export the one literal its body wraps, so that a
                            // comparison against it can be read like a comparison against the literal itself
                            if let Some(idx) = uv.promoted {
                                if let Some(ld) = uv.def.as_local() {
                                    let proms = self.tcx.promoted_mir(ld.to_def_id());
                                    if let Some(pb) = proms.get(idx) {
                                        let mut lits: Vec<String> = Vec::new();
                                        for bbd in pb.basic_blocks.iter() {
                                            for st in bbd.statements.iter() {
                                                if let StatementKind::Assign(bx) = &st.kind {
                                                    if let Rvalue::Use(Operand::Constant(pc), ..) = &bx.1 {
                                                        if let Const::Val(..) = pc.const_ {
                                                            let mut t = format!("{}", pc.const_);
                                                            t.truncate(120);
                                                            lits.push(t);
                                                        }
                                                    }
                                                    // a field-less enum variant (`&Sign::Neg`)
                                                    if let Rvalue::Aggregate(_, ops) = &bx.1 {
                                                        if ops.is_empty() {
                                                            let mut t = format!("{:?}", &bx.1);
                                                            t.truncate(120);
                                                            lits.push(t);
                                                        }
                                                    }
                                                }
                                            }
                                        }
                                        if lits.len() == 1 {
                                            v.push(("ptxt", J::S(lits.pop().unwrap())));
                                        }
                                    }
                                }
                            }
                            if ty.is_integral() || ty.is_bool() {
                                let env = TypingEnv::post_analysis(self.tcx, owner.to_def_id());
                                if uv.args.is_empty() {
                                    if let Some(si) = c.const_.try_eval_scalar_int(self.tcx, env) {
                                        v.push(("val", J::s(format!("{}", si.to_bits_unchecked()))));
                                    }
                                }
                            }
                        }
                        Const::Val(..) => {
                            if let Some(si) = c.const_.try_to_scalar_int() {
                                v.push(("val", J::s(format!("{}", si.to_bits_unchecked()))));
                            } else {
                                let mut t = format!("{}", c.const_);
                                t.truncate(120);
                                v.push(("txt", J::S(t)));
                            }
                        }
                    }
                }
                J::O(v)
            }
            _ => J::O(vec![("k", J::s("runtime_checks"))]),
        }
    }

    fn rvalue(&self, owner: LocalDefId, body: &Body<'tcx>, rv: &Rvalue<'tcx>) -> J {
        match rv {
            Rvalue::Use(op, _) => J::O(vec![("k", J::s("use")), ("op", self.operand(owner, body, op))]),
            Rvalue::Repeat(op, n) => J::O(vec![
                ("k", J::s("repeat")),
                ("op", self.operand(owner, body, op)),
                ("n", J::s(format!("{}", n))),
            ]),
            Rvalue::Ref(_, bk, p) => J::O(vec![
                ("k", J::s("ref")),
                ("mut", J::B(matches!(bk, BorrowKind::Mut { .. }))),
                ("place", self.place(body, p)),
            ]),
            Rvalue::RawPtr(kind, p) => J::O(vec![
                ("k", J::s("rawptr")),
                ("mut", J::B(format!("{:?}", kind).contains("Mut"))),
                ("place", self.place(body, p)),
            ]),
            Rvalue::Cast(kind, op, ty) => J::O(vec![
                ("k", J::s("cast")),
                ("kind", J::s(format!("{:?}", kind).split('(').next().unwrap_or("").to_string())),
                ("op", self.operand(owner, body, op)),
                ("ty", self.ty_info(*ty)),
            ]),
            Rvalue::BinaryOp(op, ab) => J::O(vec![
                ("k", J::s("bin")),
                ("op", J::s(format!("{:?}", op))),
                ("a", self.operand(owner, body, &ab.0)),
                ("b", self.operand(owner, body, &ab.1)),
            ]),
            Rvalue::UnaryOp(op, a) => J::O(vec![
                ("k", J::s("un")),
                ("op", J::s(format!("{:?}", op))),
                ("a", self.operand(owner, body, a)),
            ]),
            Rvalue::Discriminant(p) => {
                let pty = p.ty(body, self.tcx).ty;
                let mut vars = Vec::new();
                let mut adt = J::Null;
                if let ty::Adt(def, _) = pty.kind() {
                    if def.is_enum() {
                        adt = J::s(self.path(def.did()));
                        for (vi, d) in def.discriminants(self.tcx) {
                            vars.push(J::A(vec![
                                J::s(format!("{}", d.val)),
                                J::s(def.variant(vi).name.to_string()),
                            ]));
                        }
                    }
                }
                J::O(vec![
                    ("k", J::s("discr")),
                    ("place", self.place(body, p)),
                    ("adt", adt),
                    ("variants", J::A(vars)),
                ])
            }
            Rvalue::CopyForDeref(p) => J::O(vec![
                ("k", J::s("use")),
                ("op", J::O(vec![("k", J::s("copy")), ("place", self.place(body, p))])),
            ]),
            Rvalue::Aggregate(kind, ops) => {
                let mut v = vec![("k", J::s("agg"))];
                match &**kind {
                    AggregateKind::Array(_) => v.push(("agg", J::s("array"))),
                    AggregateKind::Tuple => v.push(("agg", J::s("tuple"))),
                    AggregateKind::Adt(did, vi, _, _, _) => {
                        v.push(("agg", J::s("adt")));
                        v.push(("adt", J::s(self.path(*did))));
                        let def = self.tcx.adt_def(*did);
                        let var = def.variant(*vi);
                        v.push(("variant", J::s(var.name.to_string())));
                        v.push((
                            "fields",
                            J::A(var.fields.iter().map(|f| J::s(f.name.to_string())).collect()),
                        ));
                    }
                    AggregateKind::Closure(did, _) => {
                        v.push(("agg", J::s("closure")));
                        v.push(("closure", J::s(self.path(*did))));
                        let caps = self.tcx.closure_captures(did.expect_local());
                        v.push((
                            "fields",
                            J::A(caps.iter().map(|c| J::s(c.to_symbol().to_string())).collect()),
                        ));
                    }
                    AggregateKind::RawPtr(..) => v.push(("agg", J::s("rawptr"))),
                    _ => v.push(("agg", J::s("other"))),
                }
                v.push(("ops", J::A(ops.iter().map(|o| self.operand(owner, body, o)).collect())));
                J::O(v)
            }
            other => {
                let mut t = format!("{:?}", other);
                t.truncate(160);
                J::O(vec![("k", J::s("other")), ("txt", J::S(t))])
            }
        }
    }

    fn block(&self, owner: LocalDefId, body: &Body<'tcx>, bb: &BasicBlockData<'tcx>) -> J {
        let mut stmts = Vec::new();
        for st in &bb.statements {
            let (_, line, _) = self.loc(st.source_info.span);
            let exp = st.source_info.span.from_expansion();
            match &st.kind {
                StatementKind::Assign(b) => {
                    let (lhs, rv) = &**b;
                    stmts.push(J::O(vec![
                        ("k", J::s("assign")),
                        ("lhs", self.place(body, lhs)),
                        ("rv", self.rvalue(owner, body, rv)),
                        ("line", J::N(line)),
                        ("exp", J::B(exp)),
                    ]));
                }
                StatementKind::Intrinsic(i) => {
                    let mut t = format!("{:?}", i);
                    t.truncate(120);
                    stmts.push(J::O(vec![("k", J::s("intrinsic")), ("txt", J::S(t)), ("line", J::N(line))]));
                }
                _ => {}
            }
        }
        let term = bb.terminator();
        let (_, line, _) = self.loc(term.source_info.span);
        let exp = term.source_info.span.from_expansion();
        let mut t: Vec<(&'static str, J)> = vec![("line", J::N(line)), ("exp", J::B(exp))];
        match &term.kind {
            TerminatorKind::Goto { target } => {
                t.push(("k", J::s("goto")));
                t.push(("target", J::N(target.index() as i64)));
            }
            TerminatorKind::SwitchInt { discr, targets } => {
                t.push(("k", J::s("switch")));
                t.push(("op", self.operand(owner, body, discr)));
                t.push((
                    "targets",
                    J::A(targets
                        .iter()
                        .map(|(v, b)| J::A(vec![J::s(format!("{}", v)), J::N(b.index() as i64)]))
                        .collect()),
                ));
                t.push(("otherwise", J::N(targets.otherwise().index() as i64)));
            }
            TerminatorKind::Return => t.push(("k", J::s("return"))),
            TerminatorKind::Unreachable => t.push(("k", J::s("unreachable"))),
            TerminatorKind::UnwindResume => t.push(("k", J::s("resume"))),
            TerminatorKind::UnwindTerminate(_) => t.push(("k", J::s("terminate"))),
            TerminatorKind::Drop { place, target, .. } => {
                t.push(("k", J::s("drop")));
                t.push(("place", self.place(body, place)));
                t.push(("target", J::N(target.index() as i64)));
            }
            TerminatorKind::Call { func, args, destination, target, .. } => {
                t.push(("k", J::s("call")));
                match func.const_fn_def() {
                    Some((did, ga)) => t.push(("fn", J::O(self.fn_ref(owner, did, ga)))),
                    None => t.push(("fnop", self.operand(owner, body, func))),
                }
                t.push(("args", J::A(args.iter().map(|a| self.operand(owner, body, &a.node)).collect())));
                t.push(("dest", self.place(body, destination)));
                t.push(("target", target.map(|b| J::N(b.index() as i64)).unwrap_or(J::Null)));
            }
            TerminatorKind::TailCall { .. } => t.push(("k", J::s("tailcall"))),
            TerminatorKind::Assert { cond, expected, msg, target, .. } => {
                t.push(("k", J::s("assert")));
                t.push(("cond", self.operand(owner, body, cond)));
                t.push(("expected", J::B(*expected)));
                let mut m = format!("{:?}", msg);
                m.truncate(60);
                t.push(("msg", J::s(m.split('(').next().unwrap_or("").to_string())));
                t.push(("target", J::N(target.index() as i64)));
            }
            TerminatorKind::FalseEdge { real_target, .. } => {
                t.push(("k", J::s("goto")));
                t.push(("target", J::N(real_target.index() as i64)));
            }
            TerminatorKind::FalseUnwind { real_target, .. } => {
                t.push(("k", J::s("goto")));
                t.push(("target", J::N(real_target.index() as i64)));
            }
            _ => t.push(("k", J::s("other"))),
        }
        J::O(vec![
            ("stmts", J::A(stmts)),
            ("term", J::O(t)),
            ("cleanup", J::B(bb.is_cleanup)),
        ])
    }

    fn body(&self, def: LocalDefId) -> Option<J> {
        let tcx = self.tcx;
        let did = def.to_def_id();
        let kind = tcx.def_kind(def);
        let is_fn = matches!(kind, DefKind::Fn | DefKind::AssocFn | DefKind::Closure);
        if !is_fn {
            return None;
        }
        let body: &Body<'tcx> = tcx.optimized_mir(did);
        let (file, l0, l1) = self.loc(tcx.def_span(did));
        let (_, _, lend) = self.loc(body.span);
        let _ = l1;
        let mut v: Vec<(&'static str, J)> = vec![
            ("path", J::s(self.path(did))),
            ("kind", J::s(format!("{:?}", kind))),
            ("file", J::S(file)),
            ("line", J::N(l0)),
            ("line_end", J::N(lend)),
            ("argc", J::N(body.arg_count as i64)),
        ];
        if matches!(kind, DefKind::Fn | DefKind::AssocFn) {
            let vis = tcx.visibility(did);
            v.push(("vis_pub", J::B(vis.is_public())));
            let reach = tcx.effective_visibilities(()).is_reachable(def);
            v.push(("reachable", J::B(reach)));
            let sig = tcx.fn_sig(did).instantiate_identity().skip_binder();
            v.push(("abi", J::s(format!("{:?}", sig.abi()))));
            v.push(("unsafe_fn", J::B(!sig.safety().is_safe())));
            let attrs = tcx.codegen_fn_attrs(did);
            let nm = attrs.flags.contains(rustc_middle::middle::codegen_fn_attrs::CodegenFnAttrFlags::NO_MANGLE);
            v.push(("no_mangle", J::B(nm)));
            v.push(("ret", self.ty_info(sig.output())));
            if let Some(imp) = tcx.impl_of_assoc(did) {
                let self_ty = tcx.type_of(imp).instantiate_identity().skip_norm_wip();
                v.push(("impl_self", self.ty_info(self_ty)));
                if let Some(tr) = tcx.impl_opt_trait_ref(imp) {
                    v.push(("impl_trait", J::s(self.path(tr.skip_binder().def_id))));
                }
            }
            if let Some(tr) = tcx.trait_of_assoc(did) {
                v.push(("in_trait", J::s(self.path(tr))));
            }
        }
        if let Some(parent) = tcx.opt_local_parent(def) {
            v.push(("parent", J::s(self.path(parent.to_def_id()))));
        }
        // locals
        let mut locals = Vec::new();
        for (_, d) in body.local_decls.iter_enumerated() {
            locals.push(self.ty_info(d.ty));
        }
        v.push(("locals", J::A(locals)));
        // debug info: user variable names
        let mut dbg = Vec::new();
        for di in &body.var_debug_info {
            if let rustc_middle::mir::VarDebugInfoContents::Place(p) = &di.value {
                dbg.push(J::O(vec![
                    ("name", J::s(di.name.to_string())),
                    ("place", self.place(body, p)),
                    ("arg", di.argument_index.map(|i| J::N(i as i64)).unwrap_or(J::Null)),
                ]));
            }
        }
        v.push(("debug", J::A(dbg)));
        let mut blocks = Vec::new();
        for (_, bb) in body.basic_blocks.iter_enumerated() {
            blocks.push(self.block(def, body, bb));
        }
        v.push(("blocks", J::A(blocks)));
        Some(J::O(v))
    }

    fn adts(&self) -> J {
        let tcx = self.tcx;
        let mut out = Vec::new();
        for id in tcx.hir_free_items() {
            let did = id.owner_id.to_def_id();
            let kind = tcx.def_kind(did);
            if !matches!(kind, DefKind::Struct | DefKind::Enum | DefKind::Union) {
                continue;
            }
            let def = tcx.adt_def(did);
            let env = TypingEnv::post_analysis(tcx, did);
            let (file, line, _) = self.loc(tcx.def_span(did));
            let mut variants = Vec::new();
            for var in def.variants() {
                let mut fields = Vec::new();
                for f in &var.fields {
                    let fty = tcx.type_of(f.did).instantiate_identity().skip_norm_wip();
                    let freeze = fty.is_freeze(tcx, env);
                    fields.push(J::O(vec![
                        ("name", J::s(f.name.to_string())),
                        ("ty", J::s(format!("{}", fty))),
                        ("freeze", J::B(freeze)),
                        ("pub", J::B(f.vis.is_public())),
                    ]));
                }
                variants.push(J::O(vec![("name", J::s(var.name.to_string())), ("fields", J::A(fields))]));
            }
            out.push(J::O(vec![
                ("path", J::s(self.path(did))),
                ("kind", J::s(format!("{:?}", kind))),
                ("file", J::S(file)),
                ("line", J::N(line)),
                ("pub", J::B(tcx.visibility(did).is_public())),
                ("reachable", J::B(tcx.effective_visibilities(()).is_reachable(id.owner_id.def_id))),
                ("variants", J::A(variants)),
            ]));
        }
        J::A(out)
    }

    fn consts(&self) -> J {
        let tcx = self.tcx;
        let mut out = Vec::new();
        for id in tcx.hir_free_items() {
            let did = id.owner_id.to_def_id();
            if !matches!(tcx.def_kind(did), DefKind::Const { .. }) {
                continue;
            }
            let ty = tcx.type_of(did).instantiate_identity().skip_norm_wip();
            let mut v = vec![("path", J::s(self.path(did))), ("ty", J::s(format!("{}", ty)))];
            if ty.is_integral() || ty.is_bool() {
                if let Ok(val) = tcx.const_eval_poly(did) {
                    if let Some(s) = val.try_to_scalar_int() {
                        v.push(("val", J::s(format!("{}", s.to_bits_unchecked()))));
                    }
                }
            } else if ty.is_floating_point() {
                if let Ok(val) = tcx.const_eval_poly(did) {
                    if let Some(s) = val.try_to_scalar_int() {
                        v.push(("bits", J::s(format!("{}", s.to_bits_unchecked()))));
                    }
                }
            }
            out.push(J::O(v));
        }
        J::A(out)
    }

    fn modules(&self) -> J {
        // module tree visibility: which top-level modules are nameable from outside
        let tcx = self.tcx;
        let mut out = Vec::new();
        for id in tcx.hir_free_items() {
            let did = id.owner_id.to_def_id();
            if !matches!(tcx.def_kind(did), DefKind::Mod) {
                continue;
            }
            out.push(J::O(vec![
                ("path", J::s(self.path(did))),
                ("pub", J::B(tcx.visibility(did).is_public())),
                ("reachable", J::B(tcx.effective_visibilities(()).is_reachable(id.owner_id.def_id))),
            ]));
        }
        J::A(out)
    }
}

struct Cb;

impl rustc_driver::Callbacks for Cb {
    fn after_analysis<'tcx>(
        &mut self,
        _c: &rustc_interface::interface::Compiler,
        tcx: TyCtxt<'tcx>,
    ) -> Compilation {
        let out_dir = match std::env::var("RSDD_SA_OUT") {
            Ok(d) => d,
            Err(_) => return Compilation::Continue,
        };
        let krate = tcx.crate_name(rustc_span::def_id::LOCAL_CRATE).to_string();
        let want = std::env::var("RSDD_SA_CRATES").unwrap_or_else(|_| "rsdd".to_string());
        // bins of the package have their own crate names; analyse everything in the workspace
        let _ = want;
        let cx = Cx { tcx };
        let mut fns = Vec::new();
        let mut n_bodies = 0i64;
        for def in tcx.hir_body_owners() {
            if let Some(j) = cx.body(def) {
                n_bodies += 1;
                fns.push(j);
            }
        }
        let is_test = tcx.sess.opts.test;
        let crate_types: Vec<J> =
            tcx.crate_types().iter().map(|t| J::s(format!("{:?}", t))).collect();
        let cfgs: Vec<J> = tcx
            .sess
            .opts
            .cg
            .overflow_checks
            .map(|b| vec![J::s(format!("overflow_checks={}", b))])
            .unwrap_or_default();
        let j = J::O(vec![
            ("crate", J::s(krate.clone())),
            ("crate_types", J::A(crate_types)),
            ("test_harness", J::B(is_test)),
            ("debug_assertions", J::B(tcx.sess.opts.debug_assertions)),
            ("overflow_checks", J::B(tcx.sess.overflow_checks())),
            ("cg", J::A(cfgs)),
            ("n_bodies", J::N(n_bodies)),
            ("adts", cx.adts()),
            ("consts", cx.consts()),
            ("modules", cx.modules()),
            ("fns", J::A(fns)),
        ]);
        let mut s = String::with_capacity(1 << 24);
        j.write(&mut s);
        let kind = if tcx.crate_types().iter().any(|t| format!("{:?}", t) == "Executable") {
            "bin"
        } else {
            "lib"
        };
        let suffix = if is_test { "-test" } else { "" };
        let path = format!("{}/{}-{}{}.json", out_dir, krate, kind, suffix);
        std::fs::write(&path, s).expect("write fact file");
        Compilation::Continue
    }
}

fn main() {
    let mut args: Vec<String> = std::env::args().collect();
    // RUSTC_WORKSPACE_WRAPPER: argv[1] is the real rustc; drop it
    if args.len() > 1 && (args[1].ends_with("rustc") || args[1].contains("/rustc")) {
        args.remove(1);
    }
    rustc_driver::run_compiler(&args, &mut Cb);
}
