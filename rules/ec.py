"""EC — how the watched-literal constructor treats a clause, by its length.

UnitPropagate::new looks at every clause once.  The rule interprets the body of that loop over the
abstract clause length n ∈ {0, 1, 2, 3} (3 standing for "longer"): branch conditions on
`is_empty()` / `len()` are evaluated, every other branch is explored both ways, and the effects on
each path are collected.  Required:

  n = 0   every path returns None (an empty clause is an immediate conflict) before anything else
  n = 1   exactly one literal is queued for initial propagation, nothing is watched
  n ≥ 2   nothing is queued, exactly two literals (positions 0 and 1) are put on watch lists

and no path indexes the clause at a position ≥ n.
"""
from . import mir
from .base import inst, OK, VIOLATION, UNDECIDED, strip
from .facts import CheckerError
from .mir import show
from .ws import wl_row

UP = "repr::unit_prop::UnitPropagate"


class Und(Exception):
    pass


def run(prog):
    fn = prog.find1(name="new", self_adt=UP, unit="rsdd-lib")
    te, cfg = fn.terms, fn.cfg
    # the clause loop: the loop whose header's `next` iterates enumerate(clauses)
    enum = [cs for cs in te.calls if cs.callee.name == "enumerate" and "clauses" in show(cs.args[0])]
    if len(enum) != 1:
        raise CheckerError("EC: clause loop (clauses().iter().enumerate()) not found in UnitPropagate::new")
    header = None
    for h, body in sorted(cfg.loop_headers.items()):
        if cfg.dominates(enum[0].bb, h) and fn.blocks[h]["term"]["k"] == "call" and \
                (fn.blocks[h]["term"].get("fn") or {}).get("def", "").endswith("::next"):
            if header is None or h < header:
                header = h
    if header is None:
        raise CheckerError("EC: header of the clause loop not found")
    body = cfg.loop_headers[header]
    sw = fn.blocks[header]["term"]["target"]
    some = [t for v, t in fn.blocks[sw]["term"]["targets"] if v == "1"]
    if not some:
        raise CheckerError("EC: Some edge of the clause iterator not found")
    start = some[0]

    # private helpers that put a clause on a watch list (a push onto a row selected by a literal's label)
    watch_helpers = set()
    for g in prog.lib_fns:
        if g.impl_self == UP and g is not fn and any(bk["term"]["k"] == "call" for bk in g.blocks):
            for c2 in g.terms.calls:
                if c2.callee.name == "push" and len(c2.args) == 2:
                    r_ = strip(c2.args[0])
                    if (r_[0] == "call" and r_[1].name in ("index", "index_mut") and "label(" in show(r_[2][1])) or \
                            (r_[0] == "index" and "label(" in show(r_[2])):
                        watch_helpers.add(g.name)

    # ... or a closure of the constructor doing the same (`let mut watch = |lit, idx| { tab[lit.label()..].push(idx) }`)
    watch_closures = set()
    for g in prog.lib_fns:
        if g.npath.startswith(fn.npath + "::{closure"):
            for c2 in g.terms.calls:
                if c2.callee.name == "push" and len(c2.args) == 2:
                    r_ = strip(c2.args[0])
                    if (r_[0] == "call" and r_[1].name in ("index", "index_mut") and "label(" in show(r_[2][1])) or \
                            (r_[0] == "index" and "label(" in show(r_[2])):
                        watch_closures.add(g.npath)

    def is_clause(t):
        s = show(strip(t))
        return s.endswith("as Some).0.1") and "next" in s

    def cond_value(c, n):
        c = strip(c)
        if mir.is_call(c, "is_empty") and is_clause(c[2][0]):
            return int(n == 0)
        if mir.is_call(c, "len") and is_clause(c[2][0]):
            return n          # `match c.len() { 0 => .., 1 => .., _ => .. }` switches on the length itself
        if isinstance(c, tuple) and c[0] == "bin" and c[1] in ("Eq", "Ne", "Lt", "Le", "Gt", "Ge"):
            a, b = strip(c[2]), strip(c[3])
            def val(x):
                if mir.is_call(x, "len") and is_clause(x[2][0]):
                    return n
                if x[0] == "un" and x[1] == "PtrMetadata" and is_clause(x[2]):
                    return n          # slice patterns (`match c.as_slice() { [] => .., [u] => .., [a, b, ..] => .. }`)
                if x[0] == "const":
                    return int(x[2])
                return None
            va, vb = val(a), val(b)
            if va is None or vb is None:
                return None
            return int({"Eq": va == vb, "Ne": va != vb, "Lt": va < vb, "Le": va <= vb, "Gt": va > vb, "Ge": va >= vb}[c[1]])
        return None

    # inner loops over a fixed number of items (`for lit in [second, first] { .. }`): (header -> (iterator local, count))
    fixed_loops = {}
    for h2, body2 in cfg.loop_headers.items():
        if h2 == header or h2 not in body:
            continue
        for (hh, l), init in te.mu_init.items():
            if hh != h2:
                continue
            src = strip(init)
            g_ = 0
            while mir.is_call(src) and src[2] and src[1].name in ("into_iter", "iter", "iter_mut", "copied", "cloned") and g_ < 5:
                src = strip(src[2][0])
                g_ += 1
            if src[0] == "agg" and src[1] == "array":
                fixed_loops[h2] = (l, len(src[4]))

    def walk(n):
        results = []

        def go(b, eff, seen, depth, iters=None):
            iters = dict(iters or {})
            if depth > 160 or len(results) > 200:
                raise Und("path explosion")
            eff = list(eff)
            for cs in [c for c in te.calls if c.bb == b]:
                nm = cs.callee.name
                if cs.callee.local and nm in watch_helpers:
                    eff.append(("watch", "via %s" % nm, cs.line))
                    continue
                if nm in ("call_mut", "call", "call_once") and cs.args and watch_closures:
                    # a call of the local closure that registers a watch
                    from .mir import norm as _norm
                    if _norm(getattr(cs.callee, "res", None) or "") in watch_closures or (getattr(cs.callee, "res", None) or "") in watch_closures:
                        eff.append(("watch", "via closure", cs.line))
                        continue
                    tgt = strip(cs.args[0])
                    if tgt[0] in ("mutref", "ref", "local") and len(tgt) == 2:
                        v0 = te.state_in.get(cs.bb, {}).get(tgt[1]) or te.state_out.get(cs.bb, {}).get(tgt[1])
                        tgt = strip(v0) if v0 is not None else tgt
                    while isinstance(tgt, tuple) and tgt and tgt[0] in ("mut", "ref", "deref", "mutref") and len(tgt) > 1 and isinstance(tgt[-1], tuple):
                        tgt = strip(tgt[-1])
                    if isinstance(tgt, tuple) and tgt and tgt[0] == "agg" and tgt[1] == "closure" and tgt[2] in watch_closures:
                        eff.append(("watch", "via closure", cs.line))
                        continue
                if nm == "push" and len(cs.args) == 2:
                    recv = strip(cs.args[0])
                    if wl_row(cs.args[0], fn):
                        eff.append(("watch", show(cs.args[1])[:20], cs.line))
                    elif isinstance(recv, tuple) and len(recv) == 2 and isinstance(recv[1], int):
                        eff.append(("unit", "", cs.line))   # a plain local list: the queue of initial units
                elif nm in ("extend", "extend_from_slice", "append") and cs.args and \
                        isinstance(strip(cs.args[0]), tuple) and len(strip(cs.args[0])) == 2 and isinstance(strip(cs.args[0])[1], int):
                    src = show(cs.args[1])
                    if "first(" in src or "get(" in src or "iter().take(1" in src:
                        if n >= 1:
                            eff.append(("unit", "", cs.line))
                    else:
                        for _ in range(n):
                            eff.append(("unit", "", cs.line))
                elif nm == "index" and len(cs.args) == 2 and is_clause(cs.args[0]):
                    k = strip(cs.args[1])
                    if k[0] == "const" and int(k[2]) >= n:
                        eff.append(("oob", k[2], cs.line))
            t = fn.blocks[b]["term"]
            if t["k"] == "return":
                r = te.ret_by_block.get(b)
                results.append((eff, "return", r))
                return
            if t["k"] == "switch":
                c = te.switch_term[b][0]
                v = cond_value(c, n)
                # the `next()` of a fixed-size inner loop: Some for the first k visits, then None
                c0 = strip(c)
                if v is None and c0[0] == "discr" and mir.is_call(strip(c0[1]), "next"):
                    itl = strip(strip(c0[1])[2][0])
                    for h2, (l2, k2) in fixed_loops.items():
                        if itl == ("mutref", l2):
                            vm = te.switch_term[b][1] or {}
                            some_lab = next((lab for lab, nm_ in vm.items() if nm_ == "Some"), "1")
                            none_lab = next((lab for lab, nm_ in vm.items() if nm_ == "None"), "0")
                            v = int(some_lab) if iters.get(h2, 0) < k2 else int(none_lab)
                            if iters.get(h2, 0) < k2:
                                iters[h2] = iters.get(h2, 0) + 1
                if v is None and any((mir.is_call(x, "len") or mir.is_call(x, "is_empty") or (x[0] == "un" and x[1] == "PtrMetadata"))
                                     for x in mir.subterms(c)) and "next" in show(c):
                    raise Und("a test on the clause's length is not evaluated: %s" % show(c)[:60])
                if v is not None:
                    tg = [x for val, x in t["targets"] if int(val) == v]
                    nxts = [tg[0]] if tg else [t["otherwise"]]
                else:
                    nxts = [x for _, x in t["targets"]] + [t["otherwise"]]
            else:
                nxts = list(cfg.succ[b])
            for s in nxts:
                if fn.blocks[s]["term"]["k"] == "unreachable":
                    continue
                if s == header:
                    results.append((eff, "next-clause", None))
                elif s not in body:
                    # left the loop: either a return path or the code after the loop
                    rb = [x for x in cfg.reachable_from(s) if fn.blocks[x]["term"]["k"] == "return"]
                    direct = fn.blocks[s]["term"]["k"] in ("return", "goto", "drop") and len(cfg.reachable_from(s, avoid=())) <= 12
                    results.append((eff, "leave" if not direct else "return-path", s))
                elif s in fixed_loops and s in seen:
                    # back edge of a fixed-size inner loop: go round again (its body may be revisited)
                    go(s, eff, (seen - cfg.loop_headers[s]) | {s}, depth + 1, iters)
                elif s in seen:
                    if s in cfg.loop_headers and s != header:
                        raise Und("an inner loop whose number of iterations is not fixed")
                    continue
                else:
                    go(s, eff, seen | {s}, depth + 1, iters)
        go(start, [], {start}, 0)
        return results

    def returns_none(s):
        """block s leads (through cleanup only) to a return of None"""
        reach = cfg.reachable_from(s)
        rets = [x for x in reach if fn.blocks[x]["term"]["k"] == "return"]
        if any(c.bb in reach for c in te.calls if c.callee.name == "decide"):
            return False
        r = strip(te.ret)
        # the return term is a phi over predecessor blocks; take the alternatives reachable from s
        alts = []
        if r[0] == "phi":
            for pb, v in r[2]:
                pbn = int(str(pb).replace("bb", "")) if not isinstance(pb, int) else pb
                if pbn in reach or pbn == s:
                    alts.append(strip(v))
        else:
            alts = [r]
        return bool(alts) and all(a[0] == "agg" and a[3] == "None" for a in alts)

    out = []
    for n in (0, 1, 2, 3):
        key = "%s:clause-length-%s" % (fn.npath, n if n < 3 else "3+")
        try:
            res = walk(n)
        except Und as e:
            out.append(inst("EC", key, UNDECIDED, fn, None, str(e)))
            continue
        errs = []
        for eff, how, where in res:
            units = [e for e in eff if e[0] == "unit"]
            watches = [e for e in eff if e[0] == "watch"]
            oob = [e for e in eff if e[0] == "oob"]
            if oob:
                errs.append("indexes the clause at %s (line %d) although it has %d literal(s)" % (oob[0][1], oob[0][2], n))
            if n == 0:
                if how == "next-clause" or not (how in ("leave", "return-path") and returns_none(where)):
                    errs.append("an empty clause does not make the constructor return None (path ends with `%s`, effects %s): "
                                "the formula is unsatisfiable but the solver is built and never reports the conflict"
                                % (how, [e[0] for e in eff]))
                elif units or watches:
                    errs.append("effects before the conflict is reported: %s" % [e[0] for e in eff])
            elif n == 1:
                if how != "next-clause" or len(units) != 1 or watches:
                    errs.append("a unit clause must queue exactly its literal and watch nothing; path does %s and ends with `%s`"
                                % ([e[0] for e in eff], how))
            else:
                if how != "next-clause" or units or len(watches) != 2:
                    errs.append("a clause of %d literals must put exactly two literals on watch lists; path does %s and ends with `%s`"
                                % (n, [e[0] for e in eff], how))
        if not res:
            errs.append("?no path found through the clause loop body")
        out.append(inst("EC", key, VIOLATION if errs else OK, fn, None,
                        errs[0] if errs else "%d path(s): %s" % (len(res), {0: "conflict (None)", 1: "queued as unit"}.get(n, "two watches"))))
    return out
