"""BS — a binary search states a belief about the order of the data; the sorts of the same type state another.

`slice.binary_search_by_key(&k, key)` / `binary_search_by` / `partition_point` / `binary_search` are only meaningful on data
sorted by that very key.  Whether a given vector *is* sorted is a fact about run-time values; what can be read off the code
is a contradiction between two stated beliefs (Engler et al.): the methods of one type sort the data they store by one
ordering (`c.sort()` - the derived `Ord` of the element) and search it by another (`|(l, _)| l.label()`).  Literal's derived
order is polarity-major, so "sorted" and "sorted by label" are different orders, and the bisection misses elements that a
linear scan finds.

Verdicts: a search whose key kind differs from the kind of *every* sort in the methods of the same type is a violation; a
search with no sort in sight (the data may be sorted by its producer) is undecided; matching kinds are ok.  Zero instances
today (no binary search in the crate).
"""
from . import mir
from .base import inst, OK, VIOLATION, UNDECIDED, strip

SEARCH = ("binary_search", "binary_search_by", "binary_search_by_key", "partition_point")
SORTS = ("sort", "sort_unstable", "sort_by", "sort_by_key", "sort_unstable_by", "sort_unstable_by_key", "sort_by_cached_key")
PLUMBING = ("deref", "clone", "as_ref", "borrow", "cmp", "partial_cmp", "then", "then_with", "reverse", "eq", "ne", "lt", "le", "gt", "ge")


def _kind(prog, fn, cs):
    """'ord' for the element's own order, 'key:a,b' for a key / comparator closure that calls a, b"""
    nm = cs.callee.name
    if nm in ("sort", "sort_unstable", "binary_search"):
        return "ord"
    clo = [a for a in cs.args[1:] if isinstance(strip(a), tuple) and strip(a) and strip(a)[0] == "agg" and strip(a)[1] == "closure"]
    if not clo:
        return None
    c0 = strip(clo[-1])
    gs = [g for g in prog.lib_fns if g.npath == c0[2]]
    if not gs:
        return None
    names = sorted({c.callee.name for c in gs[0].terms.calls if c.callee.name not in PLUMBING and not c.exp})
    return "key:" + ",".join(names)


def run(prog):
    out = []
    by_self = {}
    for fn in prog.lib_fns:
        if "::test" in fn.npath or fn.name.startswith("test_"):
            continue
        owner = fn.impl_self or fn.npath.split("::{closure")[0].rsplit("::", 1)[0]
        by_self.setdefault(owner, []).append(fn)
    for owner, fns in sorted(by_self.items()):
        searches, sorts = [], []
        for f in fns:
            for cs in f.terms.calls:
                if cs.exp or "slice" not in cs.callee.key() and "Vec" not in cs.callee.key():
                    continue
                if cs.callee.name in SEARCH:
                    searches.append((f, cs))
                elif cs.callee.name in SORTS:
                    sorts.append((f, cs))
        if not searches:
            continue
        skinds = {}
        for f, cs in sorts:
            k = _kind(prog, f, cs)
            if k is not None:
                skinds.setdefault(k, (f, cs))
        n = 0
        for f, cs in searches:
            n += 1
            k = _kind(prog, f, cs)
            key = "%s:%s#%d" % (f.npath.split("::{closure")[0], cs.callee.name, n)
            if k is None or (k.startswith("key:") and k == "key:"):
                out.append(inst("BS", key, UNDECIDED, f, cs.line, "?the search key is not read"))
            elif not skinds:
                out.append(inst("BS", key, UNDECIDED, f, cs.line,
                                "?no method of %s sorts anything: whether the searched data is sorted by %s is its producer's business" % (owner, k)))
            elif k in skinds:
                out.append(inst("BS", key, OK, f, cs.line, "searched by the ordering (%s) that %s sorts by" % (k, skinds[k][0].name)))
            else:
                sf, scs = sorted(skinds.values(), key=lambda x: x[1].line)[0]
                out.append(inst("BS", key, VIOLATION, f, cs.line,
                                "%s bisects its data by %s, but the methods of %s sort what they store by %s (%s, line %s): the two "
                                "orders differ (Literal's own order is polarity-major), so the bisection misses elements a scan finds"
                                % (f.name, k, owner.rsplit("::", 1)[-1], ", ".join(sorted(skinds)), sf.name, scs.line)))
    return out
