"""Run the rsdd-sa driver over /repo's *current working tree* and load its fact files.

Nothing here executes rsdd code: the driver is rustc's front end + MIR construction
(`cargo +nightly check`), and the output is a JSON dump of the resolved program.
"""
import hashlib
import json
import os
import shutil
import subprocess
import tempfile
import time

VERIF = os.path.dirname(os.path.dirname(os.path.abspath(__file__)))
REPO = os.environ.get("RSDD_REPO", "/repo")
DRIVER = os.path.join(VERIF, "sa", "target", "release", "rsdd-sa")
CACHE_ROOT = os.environ.get("RSDD_SA_CACHE", "/tmp/rsdd-sa-cache")

EXPECTED_UNITS = {
    # config -> fact files that must be produced (fail closed otherwise)
    "ffi,cli": ["rsdd-lib.json", "bottomup_cnf_to_bdd-bin.json",
                "bottomup_formula_to_bdd-bin.json", "weighted_model_count-bin.json"],
    "cli": ["rsdd-lib.json", "bottomup_cnf_to_bdd-bin.json",
            "bottomup_formula_to_bdd-bin.json", "weighted_model_count-bin.json"],
    "ffi": ["rsdd-lib.json"],
    "": ["rsdd-lib.json"],
}


class CheckerError(Exception):
    """The checker itself is broken (exit 2), never a claimed violation."""


def sysroot():
    return subprocess.check_output(["rustc", "+nightly", "--print", "sysroot"], text=True).strip()


def ensure_driver():
    if os.path.exists(DRIVER):
        src = os.path.join(VERIF, "sa", "src", "main.rs")
        if os.path.getmtime(src) <= os.path.getmtime(DRIVER):
            return
    r = subprocess.run(["cargo", "+nightly", "build", "--release", "--offline"],
                       cwd=os.path.join(VERIF, "sa"), capture_output=True, text=True)
    if r.returncode != 0 or not os.path.exists(DRIVER):
        raise CheckerError("driver build failed:\n" + r.stderr[-3000:])


def _cache_key(repo, features, release):
    h = hashlib.sha256()
    for f in ("Cargo.toml", "Cargo.lock"):
        p = os.path.join(repo, f)
        if os.path.exists(p):
            h.update(open(p, "rb").read())
    h.update(features.encode())
    h.update(b"release" if release else b"dev")
    h.update(subprocess.check_output(["rustc", "+nightly", "--version"]))
    return h.hexdigest()[:16]


def _cargo(repo, features, release, target_dir, out_dir, wrapper=True):
    env = dict(os.environ)
    env["LD_LIBRARY_PATH"] = os.path.join(sysroot(), "lib") + ":" + env.get("LD_LIBRARY_PATH", "")
    env["RUSTFLAGS"] = "-Zmir-opt-level=0 -Awarnings"
    env["CARGO_TARGET_DIR"] = target_dir
    env["CARGO_NET_OFFLINE"] = "true"
    if wrapper:
        env["RUSTC_WORKSPACE_WRAPPER"] = DRIVER
        env["RSDD_SA_OUT"] = out_dir
    cmd = ["cargo", "+nightly", "check", "--offline", "--lib"]
    if "cli" in features.split(","):
        cmd.append("--bins")
    if features:
        cmd += ["--features", features]
    if release:
        cmd.append("--release")
    return subprocess.run(cmd, cwd=repo, env=env, capture_output=True, text=True)


def run_driver(repo=None, features="ffi,cli", release=False):
    """Returns (facts: dict unit-file -> json, meta).  Always analyses the current tree:
    a fresh target dir per run (seeded with hard links to a dependency-only cache)."""
    repo = repo or REPO
    ensure_driver()
    t0 = time.time()
    key = _cache_key(repo, features, release)
    cache = os.path.join(CACHE_ROOT, key)
    work = tempfile.mkdtemp(prefix="rsdd-sa-run.")
    out = os.path.join(work, "out")
    os.makedirs(out)
    tgt = os.path.join(work, "target")
    try:
        seeded = False
        if os.path.isdir(os.path.join(cache, "target")):
            r = subprocess.run(["cp", "-al", os.path.join(cache, "target"), tgt])
            seeded = r.returncode == 0
            if not seeded:
                shutil.rmtree(tgt, ignore_errors=True)
        r = _cargo(repo, features, release, tgt, out)
        if r.returncode != 0:
            raise CheckerError("cargo check failed on %s (features=%r release=%r):\n%s"
                               % (repo, features, release, r.stderr[-4000:]))
        facts = {}
        for unit in EXPECTED_UNITS[features]:
            p = os.path.join(out, unit)
            if not os.path.exists(p):
                raise CheckerError("analysed unit produced no fact file: %s (driver skipped?)" % unit)
            facts[unit] = json.load(open(p))
        if not seeded:
            _populate_cache(cache, tgt, release)
        meta = {"features": features, "profile": "release" if release else "dev",
                "repo": repo, "driver_s": round(time.time() - t0, 2),
                "units": {u: {"bodies": f["n_bodies"], "debug_assertions": f["debug_assertions"],
                              "overflow_checks": f["overflow_checks"]} for u, f in facts.items()}}
        return facts, meta
    finally:
        shutil.rmtree(work, ignore_errors=True)


def _populate_cache(cache, tgt, release):
    """Keep only dependency artefacts (everything except the workspace member's)."""
    try:
        tmp = cache + ".tmp.%d" % os.getpid()
        shutil.rmtree(tmp, ignore_errors=True)
        os.makedirs(tmp)
        dst = os.path.join(tmp, "target")
        subprocess.run(["cp", "-al", tgt, dst], check=True)
        prof = os.path.join(dst, "release" if release else "debug")
        for sub in (".fingerprint", "deps", "incremental", "build"):
            d = os.path.join(prof, sub)
            if not os.path.isdir(d):
                continue
            for n in os.listdir(d):
                base = n.split(".")[0]
                if (n.startswith("rsdd-") or n.startswith("librsdd-") or n.startswith("bottomup_")
                        or n.startswith("weighted_model_count") or n.startswith("libbottomup_")
                        or n.startswith("libweighted_model_count") or base == "rsdd"):
                    p = os.path.join(d, n)
                    if os.path.isdir(p):
                        shutil.rmtree(p, ignore_errors=True)
                    else:
                        os.unlink(p)
        for n in os.listdir(prof):
            p = os.path.join(prof, n)
            if os.path.isfile(p):
                os.unlink(p)
        if os.path.isdir(cache):
            shutil.rmtree(tmp, ignore_errors=True)
        else:
            os.makedirs(os.path.dirname(cache), exist_ok=True)
            os.rename(tmp, cache)
    except Exception:
        pass  # the cache is an optimisation only
