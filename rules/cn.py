"""CN — clause normalisation keeps distinct literals.

Clause normalisation may drop *repeated literals* only: a literal and its negation are different
literals (a clause containing both is a tautology and must stay one).  Every de-duplication of a
`Vec<Literal>` therefore compares whole literals (`dedup()` through Literal's derived equality) or,
if it goes through a key, a key that includes the polarity.  Sorting by label alone is fine (it
only brings repeated labels together).
"""
from . import mir
from .base import inst, OK, VIOLATION, UNDECIDED, strip
from .facts import CheckerError
from .mir import show


def run(prog):
    out = []
    n = 0
    for fn in prog.lib_fns:
        if not (fn.npath.startswith(("repr::cnf", "repr::unit_prop")) or "repr::cnf" in fn.npath or "repr::unit_prop" in fn.npath):
            continue
        if fn.name.startswith("test") or not any(b["term"]["k"] == "call" for b in fn.blocks):
            continue
        te = fn.terms
        for cs in te.calls:
            nm = cs.callee.name
            if nm not in ("dedup", "dedup_by_key", "dedup_by") or "Vec" not in cs.callee.key():
                continue
            if not any("Literal" in t for t in cs.callee.targs):
                continue
            n += 1
            key = "%s:%s" % (fn.npath, "dedup")
            if nm == "dedup":
                out.append(inst("CN", key, OK, fn, cs.line, "duplicates are recognised by whole-literal equality"))
                continue
            # keyed: the closure must mention the polarity
            clo = strip(cs.args[-1])
            kids = {k.npath: k for k in prog.children(fn)}
            uses_pol = None
            if clo[0] == "agg" and clo[1] == "closure" and clo[2] in kids:
                kt = kids[clo[2]].terms
                names = {c.callee.name for c in kt.calls}
                r = strip(kt.ret)
                whole = r[0] == "param" or (r[0] == "agg" and any(strip(o)[0] == "param" for o in r[4]))
                uses_pol = ("polarity" in names) or whole
            if uses_pol is None:
                out.append(inst("CN", key, UNDECIDED, fn, cs.line, "de-duplication key not recognised"))
            else:
                out.append(inst("CN", key, OK if uses_pol else VIOLATION, fn, cs.line,
                                "key includes the polarity" if uses_pol else
                                "clause literals are de-duplicated by a key that ignores the polarity: `x` and `!x` count as "
                                "duplicates, so a tautological clause (x | !x | …) loses a literal and the formula changes"))
    # the same loss through a container: a clause collected in a map from *variables* to polarities (or a set of
    # variables) holds one literal per variable — the later of `x` and `!x` wins
    for fn in prog.lib_fns:
        if not any(m in fn.npath for m in ("repr::cnf", "repr::unit_prop", "repr::logical_expr")) or fn.name.startswith("test") \
                or "::test" in fn.npath or not any(b["term"]["k"] == "call" for b in fn.blocks):
            continue
        if fn.impl_self not in ("repr::cnf::Cnf", "repr::logical_expr::LogicalExpr", "repr::unit_prop::SATSolver", "repr::unit_prop::UnitPropagate") and \
                not any(fn.npath.startswith(x) for x in ("repr::cnf::Cnf::", "repr::logical_expr::LogicalExpr::")):
            continue
        for cs in fn.terms.calls:
            if cs.callee.name != "insert" or len(cs.args) < 2:
                continue
            k = cs.callee.key() or ""
            if not (("BTreeMap" in k or "HashMap" in k or "BTreeSet" in k or "HashSet" in k) and
                    any(str(t).endswith("VarLabel") for t in cs.callee.targs[:1])):
                continue
            # ... whose contents become literals again
            feeds = any(c2.callee.name == "new" and "Literal" in (c2.callee.key() or "") for g in [fn] + prog.children(fn) for c2 in g.terms.calls)
            if not feeds:
                continue
            # a container made afresh for each item of a loop (one per clause), not a function-wide assignment map
            per_item = any(c2.callee.name in ("new", "default", "with_capacity") and (c2.callee.key() or "").split("::<")[0] == k.split("::<")[0].rsplit("::", 1)[0] + "::" + c2.callee.name
                           or (c2.callee.name in ("new", "default") and any(w in (c2.callee.key() or "") for w in ("BTreeMap", "HashMap", "BTreeSet", "HashSet")))
                           for c2 in fn.terms.calls if any(c2.bb in body for body in fn.cfg.loop_headers.values()))
            if not per_item:
                continue
            out.append(inst("CN", "%s:clause-as-variable-map" % fn.npath, VIOLATION, fn, cs.line,
                            "the literals of a clause are collected in a container keyed by the *variable* (%s): it holds one "
                            "literal per variable, so of `x` and `!x` only the later survives and a tautological clause becomes "
                            "a constraint" % k.split("::")[-2] if "::" in k else k))
    if n < 2:
        raise CheckerError("CN: expected >= 2 clause de-duplication sites, found %d" % n)
    return out
