"""TD — the top-down compiler conjoins *every* literal that unit propagation implied.

After `sat.decide(lit(v, b))` the solver's difference_iter yields the literals assigned since the
decision: the decision itself plus everything propagation derived.  Each branch of topdown_h must
conjoin all of them except the decision variable (which the new node decides): the literal set
handed to conjoin_implied is difference_iter itself or difference_iter filtered by a predicate that
is exactly `literal.label() != v` for the decided v.  Any other predicate (an ordering test, a
polarity test) drops implied literals, and the branch then admits assignments the CNF refutes.
"""
from . import mir
from .base import inst, OK, VIOLATION, UNDECIDED, strip
from .facts import CheckerError
from .mir import show


def run(prog):
    out = []
    n = 0
    for fn in prog.find(name="topdown_h", unit="rsdd-lib"):
        te = fn.terms
        decides = [cs for cs in te.calls if cs.callee.name == "decide"]
        k = 0
        for cs in te.calls:
            if cs.callee.name != "conjoin_implied":
                continue
            k += 1
            n += 1
            key = "%s:implied-set#%d" % (fn.npath, k)
            lits = strip(cs.args[1])
            # the decision that dominates this site
            dom = [d for d in decides if fn.cfg.dominates(d.bb, cs.bb)]
            # the closest one: it is dominated by all the others
            dom = [d for d in dom if all(fn.cfg.dominates(e.bb, d.bb) for e in dom)]
            if len(dom) != 1:
                out.append(inst("TD", key, UNDECIDED, fn, cs.line, "no unique dominating decide"))
                continue
            dl = strip(dom[0].args[1])
            dvar = strip(dl[2][0]) if mir.is_call(dl, "new") else None
            if mir.is_call(lits, "difference_iter"):
                out.append(inst("TD", key, OK, fn, cs.line, "all of difference_iter is conjoined"))
                continue
            if not (mir.is_call(lits, "filter") and mir.is_call(strip(lits[2][0]), "difference_iter")):
                out.append(inst("TD", key, VIOLATION, fn, cs.line,
                                "the literals conjoined after the decision are %s, not the solver's difference_iter "
                                "(optionally without the decision variable)" % show(lits)[:100]))
                continue
            clo = lits[2][1]
            if not (isinstance(clo, tuple) and clo[0] == "agg" and clo[1] == "closure"):
                out.append(inst("TD", key, UNDECIDED, fn, cs.line, "filter predicate is not a closure literal"))
                continue
            cf = [g for g in prog.lib_fns if g.npath == clo[2]]
            if len(cf) != 1:
                raise CheckerError("TD: closure %s not found" % clo[2])
            r = strip(cf[0].terms.ret)
            if isinstance(r, tuple) and r[0] == "un" and r[1] == "Not" and isinstance(strip(r[2]), tuple) and \
                    strip(r[2])[0] == "bin" and strip(r[2])[1] == "Eq":
                r = ("bin", "Ne", strip(r[2])[2], strip(r[2])[3])  # !(a == b)
            caps = [strip(c) for c in clo[4]]
            ok_shape = (isinstance(r, tuple) and r[0] == "bin" and r[1] == "Ne"
                        and {_k(r[2]), _k(r[3])} == {"label", "upvar"})
            if not ok_shape:
                out.append(inst("TD", key, VIOLATION, fn, cs.line,
                                "implied literals are filtered by `%s`; only `label != decision variable` may be dropped — "
                                "every other literal in difference_iter is entailed by the decision and must be conjoined"
                                % show(r)[:80]))
                continue
            if dvar is None or len(caps) != 1 or caps[0] != dvar:
                out.append(inst("TD", key, VIOLATION, fn, cs.line,
                                "the filter drops the variable %s but the decision was on %s"
                                % (show(caps[0])[:50] if caps else "?", show(dvar)[:50] if dvar else "?")))
                continue
            out.append(inst("TD", key, OK, fn, cs.line, "difference_iter minus the decision variable %s" % show(dvar)[:50]))
    if n < 4:
        raise CheckerError("TD: only %d conjoin_implied sites found in topdown_h (expected 4)" % n)
    return out


def _k(t):
    t = strip(t)
    if mir.is_call(t, "label"):
        return "label"
    if isinstance(t, tuple) and t and t[0] == "upvar":
        return "upvar"
    return "other"
