"""TD — the top-down compiler conjoins *every* literal that unit propagation implied.

After `sat.decide(lit(v, b))` the solver's difference_iter yields the literals assigned since the
decision: the decision itself plus everything propagation derived.  Each branch of topdown_h must
conjoin all of them except the decision variable (which the new node decides): the literal set
handed to conjoin_implied is difference_iter itself or difference_iter filtered by a predicate that
is exactly `literal.label() != v` for the decided v.  Any other predicate (an ordering test, a
polarity test) drops implied literals, and the branch then admits assignments the CNF refutes.
"""
from . import mir, tdctx
from .ts import count_until
from .base import inst, OK, VIOLATION, UNDECIDED, strip
from .facts import CheckerError
from .mir import show


def run(prog):
    out = []
    top, ctxs = tdctx.contexts(prog)
    if len(ctxs) < 2:
        out.append(inst("TD", "%s:implied-set" % top.npath, UNDECIDED, top, None,
                        "expected one decide per polarity in topdown_h or in a helper it calls, found %d" % len(ctxs)))
    for ctx in ctxs:
        fn, te = ctx.fn, ctx.fn.terms
        decides = [cs for cs in te.calls if tdctx.is_decide(cs)]
        sites = []
        for cs in te.calls:
            if cs.callee.name != "conjoin_implied":
                continue
            dom = [d for d in decides if fn.cfg.dominates(d.bb, cs.bb)]
            # the closest one: it is dominated by all the others
            dom = [d for d in dom if all(fn.cfg.dominates(e.bb, d.bb) for e in dom)]
            if len(dom) == 1 and dom[0] is ctx.cs:
                sites.append(cs)
        helper_site_bbs = set()
        for c_, v_ in tdctx.tail_sites(prog, fn):
            dom = [d for d in decides if fn.cfg.dominates(d.bb, c_.bb)]
            dom = [d for d in dom if all(fn.cfg.dominates(e.bb, d.bb) for e in dom)]
            if len(dom) == 1 and dom[0] is ctx.cs:
                sites.append(v_)
                helper_site_bbs.add(c_.bb)
        pol = ctx.pol
        # every non-UNSAT outcome of the decide reaches the pop through a conjoin_implied site
        site_bbs = {cs.bb for cs in sites}
        pop_bbs = {c.bb for c in te.calls if c.callee.name == "pop" and "SATSolver" in c.callee.key()}
        sw = [d for d, (c, vm) in te.switch_term.items() if c == ("discr", ctx.cs.term)]
        key = "%s:implied-set(%s):every-arm" % (top.npath, pol)
        if len(sw) != 1:
            out.append(inst("TD", key, UNDECIDED, fn, ctx.cs.line, "result of decide is not matched directly"))
        else:
            d = sw[0]
            vm = te.switch_term[d][1] or {}
            t = fn.blocks[d]["term"]
            edges = {}
            for v, b in t["targets"]:
                edges[vm.get(v, v)] = b
            for name in vm.values():
                if name not in edges:
                    edges[name] = t["otherwise"]
            bad = []
            for name, b in sorted(edges.items()):
                if name == "UNSAT":
                    continue
                r = count_until(fn, b, lambda x: x in site_bbs, lambda x: x in pop_bbs, count_start=True)
                if r is not None and r[0] < 1:
                    bad.append(name)
            out.append(inst("TD", key, VIOLATION if bad else OK, fn, ctx.cs.line,
                            ("after decide(%s) the %s outcome reaches pop() without conjoining the implied literals"
                             % (pol, "/".join(str(b) for b in bad))) if bad else
                            "SAT and Unknown outcomes conjoin the implied literals before the pop"))
        for k, cs in enumerate(sites, 1):
            key = "%s:implied-set(%s)#%d" % (top.npath, pol, k)
            lits = strip(cs.args[1])
            dl = strip(ctx.cs.args[1])
            dvar = strip(dl[2][0]) if mir.is_call(dl, "new") else None
            if mir.is_call(lits, "difference_iter"):
                out.append(inst("TD", key, OK, fn, cs.line, "all of difference_iter is conjoined"))
                continue
            if not (mir.is_call(lits, "filter") and mir.is_call(strip(lits[2][0]), "difference_iter")):
                out.append(inst("TD", key, VIOLATION, fn, cs.line,
                                "the literals conjoined after the decision are %s, not the solver's difference_iter "
                                "(optionally without the decision variable)" % show(lits)[:100]))
                continue
            clo = lits[2][1]
            if not (isinstance(clo, tuple) and clo[0] == "agg" and clo[1] == "closure"):
                out.append(inst("TD", key, UNDECIDED, fn, cs.line, "filter predicate is not a closure literal"))
                continue
            cf = [g for g in prog.lib_fns if g.npath == clo[2]]
            if len(cf) != 1:
                raise CheckerError("TD: closure %s not found" % clo[2])
            r = strip(cf[0].terms.ret)
            if isinstance(r, tuple) and r[0] == "un" and r[1] == "Not" and isinstance(strip(r[2]), tuple) and \
                    strip(r[2])[0] == "bin" and strip(r[2])[1] == "Eq":
                r = ("bin", "Ne", strip(r[2])[2], strip(r[2])[3])  # !(a == b)
            # the predicate with its captures substituted: `label(item) != W`
            from . import canon
            names = clo[5] if len(clo) > 5 and clo[5] else ()
            r = strip(canon.subst(r, None, dict(zip(names, clo[4]))))
            if isinstance(r, tuple) and r[0] == "call" and r[1].name in ("ne", "eq") and len(r[2]) == 2:
                r = ("bin", "Ne" if r[1].name == "ne" else "Eq", r[2][0], r[2][1])

            def is_item_label(t):
                t = _deref(t)
                return mir.is_call(t, "label") and _deref(t[2][0]) == ("param", 2)
            ok_shape = isinstance(r, tuple) and r[0] == "bin" and r[1] == "Ne" and \
                (is_item_label(r[2]) != is_item_label(r[3]))
            if not ok_shape:
                out.append(inst("TD", key, VIOLATION, fn, cs.line,
                                "implied literals are filtered by `%s`; only `label != decision variable` may be dropped — "
                                "every other literal in difference_iter is entailed by the decision and must be conjoined"
                                % show(r)[:80]))
                continue
            w = _deref(r[3] if is_item_label(r[2]) else r[2])
            same = (dvar is not None and w == _deref(dvar)) or \
                (mir.is_call(w, "label") and _deref(w[2][0]) == _deref(dl))
            if not same:
                out.append(inst("TD", key, VIOLATION, fn, cs.line,
                                "the filter drops the variable %s but the decision was on %s"
                                % (show(w)[:50], show(dvar if dvar is not None else dl)[:50])))
                continue
            caps = [w]
            out.append(inst("TD", key, OK, fn, cs.line, "difference_iter minus the decision variable %s"
                            % show(dvar if dvar is not None else caps[0])[:50]))
    return out


def _deref(t):
    t = strip(t)
    while isinstance(t, tuple) and t and t[0] in ("deref", "ref"):
        t = strip(t[1])
    return t


def _k(t):
    t = strip(t)
    if mir.is_call(t, "label"):
        return "label"
    if isinstance(t, tuple) and t and t[0] == "upvar":
        return "upvar"
    return "other"
