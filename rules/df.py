"""DF — a label-indexed table has no default entry.

The tables LT discovers (`VarOrder.var_to_pos`, `WmcParams.var_to_val`, the watch lists, the hasher's occurrence
lists, `VTreeManager.vtree_index`) are total maps from the variables the structure was built for to an entry that
*identifies* something: a position in the order, a weight, the clauses watching a literal, a vtree node.  Today every
read is an indexing expression, which refuses a label the table does not know (it panics).  A checked read
`table.get(label)` is fine as long as the missing case stays visible to the caller; it is a defect when the missing
case is papered over with a made-up entry, because that entry is shared by every unknown label and is wrong for each of
them: two unknown variables get the same position (the order is no longer a permutation, canonicity and conditioning
break), an unweighted variable counts with weight one (hash and count laws fail), an unwatched literal never
propagates.  Rule: for every `get` / `get_mut` on a label-indexed table
  (a) the Option is not eliminated by a defaulting combinator (`unwrap_or`, `unwrap_or_else`, `unwrap_or_default`,
      `map_or`, `map_or_else`, `or`, `or_else`, directly or behind `copied/cloned/as_ref/map/flatten/and_then`), and
  (b) no return alternative of a function whose return type is not itself an `Option`/`Result`/`bool` is reached under
      the fact "the lookup was None" (a `match` with a fall-back arm).
Writes that grow the table (`get_mut` in a constructor followed by a push/resize) are not reads and are not examined:
only a value that reaches the function's result counts.  Expected count on today's tree: zero such lookups — the
self-test holds the positive examples.
"""
from . import mir, lt
from .base import inst, OK, VIOLATION, UNDECIDED, strip
from .mir import show
from .fd import alts, key_of

DEFAULTING = {"unwrap_or", "unwrap_or_else", "unwrap_or_default", "map_or", "map_or_else", "or", "or_else", "get_or_insert_with",
              "get_or_insert", "insert"}
THROUGH = {"copied", "cloned", "as_ref", "as_mut", "map", "flatten", "and_then", "as_deref", "filter", "take", "deref"}


def tables(prog):
    fns = [f for f in prog.lib_fns if any(b["term"]["k"] == "call" for b in f.blocks)
           and not f.name.startswith("test") and "::test" not in f.npath]
    tabs = set(lt.EXPECTED)
    from . import vo
    for f in fns:
        for cs in f.terms.calls:
            if (cs.callee.name in ("index", "index_mut") or
                (cs.callee.name in ("get", "get_mut") and ("slice" in cs.callee.key() or "Vec" in cs.callee.key()))) \
                    and len(cs.args) == 2 and vo.dim(f, cs.args[1]) == "Label":
                for k in lt.fieldkeys(cs.args[0]):
                    tabs.add(k)
    return tabs, fns


def run(prog):
    tabs, fns = tables(prog)
    out = []
    n_lookups = 0
    for f in fns:
        te = f.terms
        looks = []
        for cs in te.calls:
            if cs.callee.name in ("get", "get_mut") and len(cs.args) == 2 and \
                    ("slice" in cs.callee.key() or "Vec" in cs.callee.key()):
                ks = lt.fieldkeys(cs.args[0])
                if ks and all(k in tabs for k in ks):
                    looks.append((cs, ks))
        for cs, ks in looks:
            n_lookups += 1
            gk = key_of(cs.term)
            tab = "%s.%s" % (ks[0][0].split("::")[-1], ks[0][1])
            key = "%s:%s:no-default" % (f.npath, tab)
            errs = []
            # (a) defaulting combinators applied to the lookup
            for c2 in te.calls:
                if c2.callee.name in DEFAULTING and "ption" in (c2.callee.key() or "") and c2.args:
                    r = strip(c2.args[0])
                    depth = 0
                    while mir.is_call(r) and r[1].name in THROUGH and r[2] and depth < 6:
                        r = strip(r[2][0])
                        depth += 1
                    if key_of(r) == gk or gk in key_of(c2.args[0]):
                        dflt = show(c2.args[1])[:40] if len(c2.args) > 1 else "Default::default()"
                        errs.append("a label outside %s reads as the made-up entry `%s` (%s at line %d): every unknown label gets "
                                    "the same entry" % (tab, dflt, c2.callee.name, c2.line))
            # (b) a return alternative reached with the lookup known to be None
            rty = (f.locals[0] or {}).get("s", "") if f.locals else ""
            honest = rty.startswith("std::option::Option") or rty.startswith("std::result::Result") or rty.startswith("Option<") \
                or rty.startswith("Result<") or rty == "bool"
            if not honest and not errs:
                # (b) the `None` outcome of the lookup reaches a normal return
                cfg = f.cfg
                for sb, (c, vm) in te.switch_term.items():
                    if not (isinstance(c, tuple) and c and c[0] == "discr" and key_of(c[1]) == gk):
                        continue
                    t = f.blocks[sb]["term"]
                    none_tgts = [s_ for v, s_ in t["targets"] if v == "0"]
                    if not none_tgts and t.get("otherwise") is not None and all(v != "0" for v, _ in t["targets"]):
                        none_tgts = [t["otherwise"]]
                    for nt in none_tgts:
                        reach = cfg.reachable_from(nt) | {nt}
                        if not any(r in reach for r in cfg.returns):
                            continue
                        # the missing case may be *repaired* instead of papered over: the table is grown on that path
                        some_tgts = {s_ for v, s_ in t["targets"] if v != "0"}
                        only_none = reach - set().union(*[cfg.reachable_from(x) | {x} for x in some_tgts]) if some_tgts else reach
                        grows = any(c2.bb in only_none and c2.callee.name in ("resize", "resize_with", "push", "extend", "insert") and
                                    c2.args and any(k in lt.fieldkeys(c2.args[0]) for k in ks) for c2 in te.calls)
                        if grows:
                            continue
                        if rty == "()":
                            errs.append("when the label is outside %s the function returns without doing anything: the entry of an "
                                        "unknown label is taken to be empty" % tab)
                        else:
                            errs.append("when the label is outside %s the function still returns a value: a made-up entry shared by "
                                        "every unknown label" % tab)
                        break
                    if errs:
                        break
            out.append(inst("DF", key, VIOLATION if errs else OK, f, cs.line,
                            "; ".join(dict.fromkeys(errs)) if errs else
                            "the checked lookup keeps the missing case visible (no default entry reaches the result)"))
    out.append(inst("DF", "label-tables:none-defaulted", OK, None, None,
                    "%d label-indexed tables, %d checked lookups (`get`), none of them defaulted" % (
                        len(tabs), n_lookups) if not any(r["verdict"] == VIOLATION for r in out) else
                    "%d label-indexed tables, %d checked lookups" % (len(tabs), n_lookups), loc="src/repr/var_order.rs:1"))
    return out
