"""NB — numeric bounds of the finite field (interval analysis over the reconstructed terms).

For every prime in constants::primes the bodies of FiniteField::<P>::{new, negate} and of its
Add, Mul, Sub impls are interpreted over intervals with the type invariant v ∈ [0, P-1] and P
instantiated.  A u128 +, * or - whose exact interval leaves [0, 2^128) is a violation (debug:
overflow panic, release: wrapped, i.e. wrong residue).  A subtraction is accepted when it is
guarded by the matching comparison of the same operands.
NB-inv : the struct literal FiniteField{v: ..} occurs only in `new`, after `% P`.
NB-mod : in Sub::sub an arm that is not the guarded `self.v - rhs.v` must involve the modulus
         (a borrow adds P); |a-b| is not a-b mod P.
NB-poly: every write to a coefficient array is bounded by MAX_COEFFS.
"""
from . import mir
from .base import inst, OK, VIOLATION, UNDECIDED, strip, bool_arms
from .facts import CheckerError
from .mir import show

U128 = (1 << 128) - 1
FF = "util::semirings::finitefield::FiniteField"


class Overflow(Exception):
    pass


class Unk(tuple):
    """an interval that owes its width to a construct the domain does not model (an array element, a foreign call):
    an out-of-range result that depends on it is *undecided*, not a violation"""


def unk(iv=None):
    return Unk(iv if iv is not None else (0, U128))


def tainted(*ivs):
    return any(isinstance(i, Unk) for i in ivs)


class Interp:
    def __init__(self, prog, P, fn):
        self.prog, self.P = prog, P
        self.problems = []
        self.depth = 0
        self.bounds = {}

    def rel_holds(self, rels, a, b):
        """is a >= b known?"""
        return ("ge", a, b) in rels or ("gt", a, b) in rels

    def iv(self, t, env, rels, fn):
        self.depth += 1
        try:
            if self.depth > 60:
                return (0, U128)
            return self._iv(t, env, rels, fn)
        finally:
            self.depth -= 1

    def refine(self, c, truth, env, rels, fn):
        """narrow the interval of the compared sub-terms on one side of a comparison"""
        if not (isinstance(c, tuple) and c[0] == "bin" and c[1] in ("Lt", "Le", "Gt", "Ge")):
            return
        x, y = strip(c[2]), strip(c[3])
        op = c[1]
        if not truth:
            op = {"Lt": "Ge", "Le": "Gt", "Gt": "Le", "Ge": "Lt"}[op]
        ix, iy = self.iv(x, env, rels, fn), self.iv(y, env, rels, fn)
        if op == "Ge":
            nx, ny = (max(ix[0], iy[0]), ix[1]), (iy[0], min(iy[1], ix[1]))
        elif op == "Gt":
            nx, ny = (max(ix[0], iy[0] + 1), ix[1]), (iy[0], min(iy[1], ix[1] - 1))
        elif op == "Le":
            nx, ny = (ix[0], min(ix[1], iy[1])), (max(iy[0], ix[0]), iy[1])
        else:
            nx, ny = (ix[0], min(ix[1], iy[1] - 1)), (max(iy[0], ix[0] + 1), iy[1])
        for t_, n_ in ((x, nx), (y, ny)):
            if t_[0] not in ("const", "cparam"):
                self.bounds[repr(t_)] = n_

    def _iv(self, t, env, rels, fn):
        r = self._iv0(t, env, rels, fn)
        b = self.bounds.get(repr(strip(t))) if self.bounds else None
        if b:
            r = (max(r[0], b[0]), min(r[1], b[1]))
        return r

    def _iv0(self, t, env, rels, fn):
        t0 = t
        t = strip(t)
        if not isinstance(t, tuple) or not t:
            return (0, U128)
        k = t[0]
        if k == "const":
            try:
                v = int(t[2])
                return (v, v)
            except Exception:
                return (0, U128)
        if k == "cparam":
            return (self.P, self.P)
        if k == "constitem":
            if t[2] is not None:
                return (int(t[2]), int(t[2]))
            return (0, U128)
        if k == "param":
            if t[1] in env:
                return env[t[1]]
            return (0, U128)
        if k == "field":
            if t[2] == "v" and t[3] == FF:
                return (0, self.P - 1)
            if t[2] == "0" and isinstance(t[1], tuple) and t[1][0] == "bin":
                return self.iv(t[1], env, rels, fn)
            return (0, U128)
        if k == "bin":
            op = t[1].replace("WithOverflow", "")
            a, b = self.iv(t[2], env, rels, fn), self.iv(t[3], env, rels, fn)
            if op == "Add":
                r = (a[0] + b[0], a[1] + b[1])
                if r[1] > U128:
                    self.problems.append(("?add" if tainted(a, b) else "add", t, r))
                    r = (0, U128)
                return unk(r) if tainted(a, b) else r
            if op == "Mul":
                r = (a[0] * b[0], a[1] * b[1])
                if r[1] > U128:
                    self.problems.append(("?mul" if tainted(a, b) else "mul", t, r))
                    r = (0, U128)
                return unk(r) if tainted(a, b) else r
            if op == "Sub":
                lo, hi = a[0] - b[1], a[1] - b[0]
                if lo < 0:
                    if self.rel_holds(rels, strip(t[2]), strip(t[3])):
                        lo = 0
                    else:
                        self.problems.append(("?sub" if tainted(a, b) else "sub", t, (lo, hi)))
                        lo = 0
                return (lo, max(hi, 0))
            if op == "Rem":
                if b[0] == b[1] and b[0] > 0:
                    return (0, min(a[1], b[0] - 1))
                return (0, a[1])
            if op == "Div":
                if b[0] > 0:
                    return (a[0] // b[1], a[1] // b[0])
                return (0, a[1])
            if op == "Shr":
                if b[0] == b[1]:
                    return (a[0] >> b[0], a[1] >> b[0])
                return (0, a[1])
            if op == "Shl":
                if b[0] == b[1] and (a[1] << b[0]) <= U128:
                    return (a[0] << b[0], a[1] << b[0])
                if b[0] == b[1] and a[1] < U128:
                    # a left shift drops the bits it pushes out without any check, in every build profile
                    self.problems.append(("?shl" if tainted(a, b) else "shl", t, (a[0] << b[0], a[1] << b[0])))
                return unk() if tainted(a, b) else (0, U128)
            if op == "BitAnd":
                return (0, min(a[1], b[1]))
            if op in ("Eq", "Ne", "Lt", "Le", "Gt", "Ge"):
                return (0, 1)
            return (0, U128)
        if k == "cast":
            return self.iv(t[2], env, rels, fn)
        if k == "gamma":
            ba = bool_arms(t)
            if ba:
                cond, fv, tv = ba
                c = strip(cond)
                dec = self.decide(c, env, rels, fn)
                if dec is True:
                    return self.iv(tv, env, self.with_rel(rels, c, True), fn)
                if dec is False:
                    return self.iv(fv, env, self.with_rel(rels, c, False), fn)
                saved = dict(self.bounds)
                self.refine(c, True, env, rels, fn)
                a = self.iv(tv, env, self.with_rel(rels, c, True), fn)
                self.bounds = dict(saved)
                self.refine(c, False, env, rels, fn)
                b = self.iv(fv, env, self.with_rel(rels, c, False), fn)
                self.bounds = saved
                return (min(a[0], b[0]), max(a[1], b[1]))
            vals = [self.iv(v, env, rels, fn) for _, v in t[2]]
            return (min(v[0] for v in vals), max(v[1] for v in vals))
        if k == "phi":
            # an arm is evaluated under the branch facts of the block it comes from (`if P <= 2^64 { return a * b % P }` joined
            # with later returns): an arm whose facts are false for this modulus is not taken
            vals = []
            for pb, v in t[2]:
                ways = None
                if isinstance(pb, int):
                    try:
                        ways = fn.terms.entry_guards(pb)
                    except Exception:
                        ways = None
                if not ways:
                    vals.append(self.iv(v, env, rels, fn))
                    continue
                for fs in ways:
                    feasible, rl = True, rels
                    saved = dict(self.bounds)
                    for c, val, _, _ in fs:
                        c = strip(c)
                        want = True if val in ("1", 1, True) or (isinstance(val, tuple) and val[:1] == ("not",) and "0" in str(val[1:])) \
                            else (False if val in ("0", 0, False) else None)
                        if want is None:
                            continue
                        dec = self.decide(c, env, rels, fn)
                        if dec is not None and dec != want:
                            feasible = False
                            break
                        self.refine(c, want, env, rels, fn)
                        rl = self.with_rel(rl, c, want)
                    if feasible:
                        vals.append(self.iv(v, env, rl, fn))
                    self.bounds = saved
            if not vals:
                return unk()
            return (min(v[0] for v in vals), max(v[1] for v in vals))
        if k == "mu":
            return self.mu(t, env, rels, fn)
        if k == "call":
            c = t[1]
            if c.name == "new" and FF in c.key():
                self.iv(t[2][0], env, rels, fn)  # evaluate for overflow side-conditions
                return (0, self.P - 1)
            if c.name == "value" and FF in c.key():
                return (0, self.P - 1)
            if c.name in ("checked_rem", "rem_euclid", "checked_rem_euclid", "wrapping_rem") and len(t[2]) == 2 and not c.local:
                self.iv(t[2][0], env, rels, fn)
                b = self.iv(t[2][1], env, rels, fn)
                return (0, max(b[1] - 1, 0))
            if c.name in ("min",) and len(t[2]) == 2:
                a, b = self.iv(t[2][0], env, rels, fn), self.iv(t[2][1], env, rels, fn)
                return (min(a[0], b[0]), min(a[1], b[1]))
            if c.name in ("max",) and len(t[2]) == 2:
                a, b = self.iv(t[2][0], env, rels, fn), self.iv(t[2][1], env, rels, fn)
                return (max(a[0], b[0]), max(a[1], b[1]))
            if c.local:
                # inline a crate-local helper (e.g. a modular multiplication routine)
                gs = [g for g in self.prog.resolve(c) if g.unit == fn.unit]
                if len(gs) == 1 and gs[0] is not fn and gs[0].kind != "Closure":
                    g = gs[0]
                    env2 = {i + 1: self.iv(a, env, rels, fn) for i, a in enumerate(t[2])}
                    return self.iv(g.terms.ret, env2, frozenset(), g)
            return unk()
        return unk()

    def decide(self, c, env, rels, fn, depth=0):
        if mir.is_call(c) and c[1].local and depth < 3:
            # a predicate of the modulus in a private (const) function: `fits_in_u128::<P>()`
            gs = [g for g in self.prog.resolve(c[1]) if g.unit == fn.unit and g.kind != "Closure" and g is not fn]
            if len(gs) == 1 and gs[0].terms.ret is not None:
                env2 = {i + 1: self.iv(a, env, rels, fn) for i, a in enumerate(c[2])}
                return self.decide(strip(gs[0].terms.ret), env2, frozenset(), gs[0], depth + 1)
            return None
        if not (isinstance(c, tuple) and c[0] == "bin" and c[1] in ("Eq", "Ne", "Lt", "Le", "Gt", "Ge")):
            return None
        a, b = self.iv(c[2], env, rels, fn), self.iv(c[3], env, rels, fn)
        op = c[1]
        if op == "Gt":
            return True if a[0] > b[1] else (False if a[1] <= b[0] else None)
        if op == "Ge":
            return True if a[0] >= b[1] else (False if a[1] < b[0] else None)
        if op == "Lt":
            return True if a[1] < b[0] else (False if a[0] >= b[1] else None)
        if op == "Le":
            return True if a[1] <= b[0] else (False if a[0] > b[1] else None)
        if op == "Eq":
            return True if (a[0] == a[1] == b[0] == b[1]) else (False if (a[1] < b[0] or b[1] < a[0]) else None)
        if op == "Ne":
            return False if (a[0] == a[1] == b[0] == b[1]) else (True if (a[1] < b[0] or b[1] < a[0]) else None)
        return None

    def with_rel(self, rels, c, truth):
        if not (isinstance(c, tuple) and c[0] == "bin"):
            return rels
        a, b = strip(c[2]), strip(c[3])
        op = c[1]
        new = set(rels)
        if op == "Gt":
            new.add(("gt", a, b) if truth else ("ge", b, a))
        elif op == "Ge":
            new.add(("ge", a, b) if truth else ("gt", b, a))
        elif op == "Lt":
            new.add(("gt", b, a) if truth else ("ge", a, b))
        elif op == "Le":
            new.add(("ge", b, a) if truth else ("gt", a, b))
        return frozenset(new)

    def mu(self, t, env, rels, fn):
        te = fn.terms
        key = (t[1], t[2])
        memo = getattr(self, "_mu", None)
        if memo is None:
            memo = self._mu = {}
        mk = (id(fn), key, tuple(sorted(env.items())))
        if mk in memo:
            return memo[mk]
        init = self.iv(te.mu_init.get(key, mir.TOP), env, rels, fn)
        cur = init
        memo[mk] = cur
        for it in range(8):
            nxt = cur
            for u in te.mu_update.get(key, []):
                # loop-body facts are not tracked: evaluate updates without relations
                saved = len(self.problems)
                v = self.iv(u, env, frozenset(), fn)
                if it < 7:
                    del self.problems[saved:]
                nxt = (min(nxt[0], v[0]), max(nxt[1], v[1]))
            if nxt == cur:
                break
            cur = nxt
            memo[mk] = cur
            if it == 6:
                cur = (0, U128)
                memo[mk] = cur
        # side conditions of the loop body at the fixpoint (the passes above discarded theirs)
        done = getattr(self, "_mu_checked", None)
        if done is None:
            done = self._mu_checked = set()
        if mk not in done:
            done.add(mk)
            saved = len(self.problems)
            for u in te.mu_update.get(key, []):
                self.iv(u, env, frozenset(), fn)
            # kept apart: an enclosing loop's fixpoint passes discard what they find
            self.sticky = getattr(self, "sticky", []) + self.problems[saved:]
        return memo[mk]


def ff_bodies(prog):
    out = {}
    out["new"] = prog.find1(name="new", self_adt=FF, unit="rsdd-lib", kind="AssocFn")
    out["negate"] = prog.find1(name="negate", self_adt=FF, unit="rsdd-lib")
    for tr, nm in (("std::ops::Add", "add"), ("std::ops::Mul", "mul"), ("std::ops::Sub", "sub")):
        out[nm] = prog.find1(name=nm, self_adt=FF, impl_trait=tr, unit="rsdd-lib")
    return out


def run(prog):
    out = []
    primes = {mir.last_seg(p): int(c["val"]) for p, c in prog.consts.items()
              if "constants::primes::" in p and c.get("val")}
    if len(primes) < 3:
        raise CheckerError("constants::primes not found")
    bodies = ff_bodies(prog)
    # FiniteField is generic in its modulus.  The additive code, (a + b) % P on residues, stays inside u128 exactly for
    # P <= 2^127; the other operations must support the moduli addition supports (sibling agreement), so the bodies are
    # also interpreted for the largest such modulus.
    todo = sorted(primes.items()) + [("ANY_P_UP_TO_2^127", (1 << 127) - 1)]
    for pname, P in todo:
        for nm, fn in bodies.items():
            it = Interp(prog, P, fn)
            env = {}
            it.iv(fn.terms.ret, env, frozenset(), fn)
            key = "%s:%s@%s" % (fn.npath, nm, pname)
            it.problems = it.problems + [p for p in getattr(it, "sticky", []) if p not in it.problems]
            definite = [p for p in it.problems if not p[0].startswith("?")]
            if it.problems and not definite:
                kind, t, r = it.problems[0]
                out.append(inst("NB", key, UNDECIDED, fn, None,
                                "the range of %s depends on a value the interval domain does not model (an array element, a "
                                "foreign call): not decided for P = %s" % (show(t)[:80], pname)))
            elif definite:
                kind, t, r = definite[0]
                what = {"mul": "product", "add": "sum", "sub": "difference", "shl": "left shift"}[kind]
                out.append(inst("NB", key, VIOLATION, fn, None,
                                "for P = %s (%d bits) the %s %s ranges over [%d, 2^%d]: outside u128 — overflow panic in "
                                "debug builds, wrong residue in release builds"
                                % (pname, P.bit_length(), what, show(t), max(r[0], 0), r[1].bit_length())
                                if kind != "sub" else
                                "for P = %s the subtraction %s can underflow (interval [%d, %d]) and is not guarded by a "
                                "comparison of its operands" % (pname, show(t), r[0], r[1])))
            else:
                out.append(inst("NB", key, OK, fn, None, "all u128 operations stay in range for P = %s" % pname))
    out += nb_inv(prog, bodies)
    out += nb_mod(prog, bodies)
    out += nb_poly(prog)
    out += nb_primes(prog, primes)
    return out


_SMALL = [2, 3, 5, 7, 11, 13, 17, 19, 23, 29, 31, 37, 41, 43, 47, 53, 59, 61, 67, 71, 73, 79, 83, 89, 97, 101, 103, 107, 109, 113,
          127, 131, 137, 139, 149, 151, 157, 163, 167, 173, 179, 181, 191, 193, 197, 199, 211, 223, 227, 229, 233, 239, 241, 251,
          257, 263, 269, 271, 277, 281, 283, 293, 307, 311]


def compositeness_witness(n):
    """a proof that n is composite — ('factor', d) or ('miller-rabin', base) — or None.  A witness is a certificate;
    None means n passed trial division to 311 and 64 rounds of Miller–Rabin (strong pseudoprime to all 64 bases: for
    n < 3.3e24 that is a proof of primality, above it the error is below 4^-64)."""
    if n < 2:
        return ("factor", n)
    for p in _SMALL:
        if n == p:
            return None
        if n % p == 0:
            return ("factor", p)
    d, r = n - 1, 0
    while d % 2 == 0:
        d //= 2
        r += 1
    for a in _SMALL:
        x = pow(a, d, n)
        if x in (1, n - 1):
            continue
        for _ in range(r - 1):
            x = x * x % n
            if x == n - 1:
                break
        else:
            return ("miller-rabin", a)
    return None


def nb_primes(prog, primes):
    """NB-prime: the moduli exported as `constants::primes::*` are prime.  FiniteField<P> is a field only then: with a
    composite P it has zero divisors, and everything in the semantic builders that compares a *product* of hashes with
    zero (a conjunction with hash 0 is the false constant) turns two satisfiable operands into False for inputs that are
    cheap to construct (one factor of P per operand)."""
    out = []
    for pname, P in sorted(primes.items()):
        w = compositeness_witness(P)
        c = [c_ for p_, c_ in prog.consts.items() if mir.last_seg(p_) == pname and "constants::primes::" in p_]
        loc = (c[0].get("file", "src/constants.rs") + ":%s" % c[0].get("line", 0)) if c else "src/constants.rs:0"
        if w is None:
            out.append(inst("NB", "constants::primes::%s:is-prime" % pname, OK, None, None,
                            "%d passes trial division and 64 Miller–Rabin rounds" % P, loc=loc))
        else:
            how = "%d divides it" % w[1] if w[0] == "factor" else "%d is a Miller–Rabin witness of compositeness" % w[1]
            out.append(inst("NB", "constants::primes::%s:is-prime" % pname, VIOLATION, None, None,
                            "%s = %d is not prime (%s): FiniteField<%s> has zero divisors, so a product of two non-zero semantic "
                            "hashes can be 0 and the semantic builders answer False for a satisfiable conjunction"
                            % (pname, P, how, pname), loc=loc))
    return out


def nb_inv(prog, bodies):
    """every FiniteField literal holds a value in [0, P-1], for every exported prime (interval analysis
    with branch refinement; `x % P`, a copy of a field value and a correct conditional subtraction all pass)"""
    out = []
    primes = {mir.last_seg(p): int(c["val"]) for p, c in prog.consts.items()
              if "constants::primes::" in p and c.get("val")}
    bad = []
    n = 0
    for fn in prog.lib_fns:
        if not any(s["k"] == "assign" and s["rv"]["k"] == "agg" and s["rv"].get("adt", "").endswith("FiniteField")
                   for b in fn.blocks for s in b["stmts"]):
            continue
        te = fn.terms
        for bb, t, line in te.aggs:
            if t[1] == "adt" and t[2] == FF:
                n += 1
                v = t[4][0]
                # conditions under which the literal is built or handed out: the branch facts of its block, and the
                # condition of `cond.then_some(literal)` / `cond.then(|| literal)` (the literal is built eagerly but only
                # leaves the function when the condition holds)
                guards = [(strip(c), val != "0") for c, val, _, _ in te.facts_at(bb) if val in ("0", "1", ("not", ("0",)))]
                for cs in te.calls:
                    if cs.callee.name in ("then_some", "then") and len(cs.args) == 2 and \
                            any(x is t or x == t for x in mir.subterms(cs.args[1])):
                        guards.append((strip(cs.args[0]), True))
                for pname, P in sorted(primes.items()):
                    it = Interp(prog, P, fn)
                    for c, truth in guards:
                        try:
                            it.refine(c, truth, {}, frozenset(), fn)
                        except Exception:
                            pass
                    env0 = {}
                    if fn.kind == "Closure":
                        # a closure handed to Option::map / and_then: its parameter is the payload of the receiver, evaluated
                        # in the enclosing function (`v.checked_rem(P).map(|v| FiniteField { v })`)
                        for par in prog.lib_fns:
                            if not fn.npath.startswith(par.npath + "::{closure") or par.kind == "Closure":
                                continue
                            for cs in par.terms.calls:
                                if cs.callee.name in ("map", "and_then", "map_or", "map_or_else", "filter_map") and len(cs.args) >= 2 and \
                                        any(isinstance(x, tuple) and x[:2] == ("agg", "closure") and x[2] == fn.npath
                                            for x in mir.subterms(cs.args[-1])):
                                    itp = Interp(prog, P, par)
                                    env0[2] = itp.iv(cs.args[0], {}, frozenset(), par)
                    lo, hi = it.iv(v, env0, frozenset(), fn)
                    if hi > P - 1:
                        bad.append("%s:%s builds FiniteField{v: %s} whose value can reach %s for P = %s: not a residue "
                                   "(equality, hashing and value() then disagree with arithmetic mod P)"
                                   % (fn.npath, line, show(v)[:60], "P" if hi == P else hi, pname))
                        break
    out.append(inst("NB", "%s:literal-reduced" % FF, VIOLATION if bad else OK, bodies["new"], None,
                    "; ".join(bad[:2]) if bad else "%d struct literal(s), value always within [0, P-1]" % n))
    return out


def nb_mod(prog, bodies):
    fn = bodies["sub"]
    t = strip(fn.terms.ret)
    out = []
    a, b = ("field", ("param", 1), "v", FF), ("field", ("param", 2), "v", FF)
    if mir.is_call(t, "new"):
        t = strip(t[2][0])
    if t[0] == "bin" and t[1] == "Rem":
        t = strip(t[2])
    arms = []

    def collect(x, rels):
        x = strip(x)
        ba = bool_arms(x)
        if ba:
            it = Interp(prog, 7, fn)
            collect(ba[2], it.with_rel(rels, strip(ba[0]), True))
            collect(ba[1], it.with_rel(rels, strip(ba[0]), False))
        else:
            arms.append((x, rels))
    collect(t, frozenset())
    errs = []
    for x, rels in arms:
        y = x
        if y[0] == "field" and y[2] == "0":
            y = y[1]
        mentions_P = any(s == ("cparam", "P") for s in mir.subterms(y))
        guarded_direct = (y[0] == "bin" and y[1].startswith("Sub") and strip(y[2]) == a and strip(y[3]) == b
                          and (("ge", a, b) in rels or ("gt", a, b) in rels))
        if not mentions_P and not guarded_direct:
            errs.append("arm `%s` is neither the guarded self.v - rhs.v nor does it borrow the modulus: "
                        "|a-b| is not (a-b) mod P" % show(x))
    out.append(inst("NB", "%s:sub:borrow" % fn.npath, VIOLATION if errs else OK, fn, None,
                    "; ".join(errs) if errs else "subtraction borrows the modulus when self.v < rhs.v"))
    return out


def nb_poly(prog):
    out = []
    P = "util::semirings::polynomial_semiring_implementation::Polynomial"
    n = 0
    for tr, nm in (("std::ops::Add", "add"), ("std::ops::Mul", "mul")):
        fn = prog.find1(name=nm, self_adt=P, impl_trait=tr, unit="rsdd-lib")
        te = fn.terms
        stores = [s for s in te.stores if s[1][0] == "index"]
        # writes that cannot leave the array by construction: through `get_mut(i)` (None when out of range), or through
        # an `iter_mut()` zipped with the operands (in a closure handed to for_each)
        safe = 0
        for (bb, pt, val, line) in te.stores:
            p_ = strip(pt)
            while isinstance(p_, tuple) and p_ and p_[0] in ("deref", "ref"):
                p_ = strip(p_[1])
            if isinstance(p_, tuple) and p_ and p_[0] == "field" and p_[2] == "0" and isinstance(p_[1], tuple) and p_[1][0] == "as" and \
                    p_[1][2] == "Some" and mir.is_call(strip(p_[1][1]), "get_mut"):
                safe += 1
                n += 1
                out.append(inst("NB", "%s:coeff-write#g%d" % (fn.npath, safe), OK, fn, line, "written through get_mut(): out-of-range indices are skipped"))
        for (bb, pt, val, line) in te.stores:
            # `for (slot, ..) in arr.iter_mut().zip(..) { *slot = .. }`: the slot comes out of an iter_mut()
            p_ = strip(pt)
            for x in mir.subterms(p_):
                if mir.is_call(x, "next") and x[2] and strip(x[2][0])[0] == "mutref":
                    for (h, l), init in te.mu_init.items():
                        if l == strip(x[2][0])[1] and any(mir.is_call(y, "iter_mut") for y in mir.subterms(init)) and p_[0] == "field":
                            safe += 1
                            n += 1
                            out.append(inst("NB", "%s:coeff-write#i%d" % (fn.npath, safe), OK, fn, line,
                                            "written through a slot of iter_mut(): the iterator cannot leave the array"))
        for cs in te.calls:
            if cs.callee.name == "for_each" and cs.args and any(mir.is_call(x, "iter_mut") for x in mir.subterms(cs.args[0])):
                safe += 1
                n += 1
                out.append(inst("NB", "%s:coeff-write#z%d" % (fn.npath, safe), OK, fn, cs.line, "written through iter_mut(): the iterator cannot leave the array"))
        for k, (bb, pt, val, line) in enumerate(stores):
            idx = strip(pt[2])
            ok = False
            why = ""
            for c, v, _, d in te.facts_at(bb):
                c = strip(c)
                if c[0] == "bin" and c[1] == "Lt" and v != "0" and strip(c[2]) == idx:
                    rhs = strip(c[3])
                    if (rhs[0] == "constitem" and rhs[1].endswith("MAX_COEFFS")) or (rhs[0] == "const" and rhs[2] == "32"):
                        ok = True
                        why = "guarded by idx < MAX_COEFFS"
            if not ok and idx[0] in ("field", "bin"):
                # idx = i + j with j drawn from 0..min(_, MAX_COEFFS - i)
                sm = strip(idx[1]) if idx[0] == "field" else idx
                if sm[0] == "bin" and sm[1].startswith("Add"):
                    parts = [strip(sm[2]), strip(sm[3])]
                    for a_, b_ in (parts, parts[::-1]):
                        for x in mir.subterms(b_):
                            if x[0] == "mutref":
                                for (h, l), init in te.mu_init.items():
                                    if l == x[1]:
                                        for y in mir.subterms(init):
                                            if mir.is_call(y, "min"):
                                                for z in y[2]:
                                                    z = strip(z)
                                                    if z[0] == "field" and z[2] == "0":
                                                        z = strip(z[1])
                                                    if z[0] == "bin" and z[1].startswith("Sub") and repr(strip(z[3])) == repr(a_) and \
                                                            ((strip(z[2])[0] == "const" and strip(z[2])[2] == "32") or
                                                             (strip(z[2])[0] == "constitem" and strip(z[2])[1].endswith("MAX_COEFFS"))):
                                                        ok = True
                                                        why = "j ranges over 0..min(_, MAX_COEFFS − i)"
            if not ok:
                # loop index drawn from 0..n with n = min(.., MAX_COEFFS)
                for x in mir.subterms(idx):
                    if x[0] == "mutref":
                        for (h, l), init in te.mu_init.items():
                            if l == x[1]:
                                for y in mir.subterms(init):
                                    if y[0] == "agg" and (y[2] or "").endswith("Range") and len(y[4]) == 2:
                                        for z in mir.subterms(y[4][1]):
                                            if mir.is_call(z, "min") and any(
                                                    (strip(a)[0] == "constitem" and strip(a)[1].endswith("MAX_COEFFS"))
                                                    or (strip(a)[0] == "const" and strip(a)[2] == "32") for a in z[2]):
                                                ok = True
                                                why = "index ranges over 0..min(_, MAX_COEFFS)"
            und = False
            if not ok and fn.name == "mul":
                # the bound may be hoisted out of the loop in another spelling: evaluate the loop bounds for concrete
                # lengths (what LAW mul-pairs-complete does) — every pair visited must satisfy i + j < MAX_COEFFS
                try:
                    from . import law
                    v_ = strip(val)
                    idxs_ = []
                    for x in mir.subterms(v_):
                        if x[0] == "index" and "coefficients" in show(x[1]) and "arg" in show(x[1]):
                            if strip(x[2]) not in idxs_:
                                idxs_.append(strip(x[2]))
                    if len(idxs_) == 2:
                        pe = law._mul_pairs(prog, fn, (bb, pt, val, line), idxs_)
                        if not pe or "skips" in pe[0]:
                            ok = True
                            why = "every pair the loops visit satisfies i + j < MAX_COEFFS (bounds evaluated for concrete lengths)"
                    else:
                        und = True
                except Exception:
                    und = True
            n += 1
            out.append(inst("NB", "%s:coeff-write#%d" % (fn.npath, k), OK if ok else (UNDECIDED if und else VIOLATION), fn, line,
                            why if ok else "%swrite to coefficient %s is not bounded by MAX_COEFFS" % ("?" if und else "", show(idx))))
    if n < 2:
        raise CheckerError("NB-poly: coefficient writes not found")
    return out
