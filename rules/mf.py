"""MF — the min-fill elimination order is a permutation by construction.

`Cnf::min_fill_order` repeatedly picks a node of the interaction graph, records its variable and eliminates it, until
the graph is empty.  Whatever node the heuristic picks (that is a matter of quality, not of correctness), the result
is a permutation of the variables exactly because

  MF1  every iteration of the `while node_count() > 0` loop records *one* variable and eliminates *one* node, and they
       belong together: the recorded variable is the weight the graph stores for the node that is eliminated (not the
       node's index: the graph library re-uses the index of a removed node for the last node);
  MF2  eliminating a node removes exactly that node on every path, and adds none;
  MF3  the interaction graph starts with one node per variable 0..num_vars whose weight is that variable, and clause
       literals address nodes by their label (valid in the pristine graph, where index = label);
  MF4  the recorded sequence is what the order is built from.

These are path and provenance rules over the MIR control-flow graph and def-use terms.
"""
from . import mir
from .base import inst, OK, VIOLATION, UNDECIDED, strip, verdict_of, errtext
from .facts import CheckerError
from .mir import show


def _in_inner_loop(cfg, h, b):
    return any(h2 != h and b in body2 and h2 in cfg.loop_headers[h] for h2, body2 in cfg.loop_headers.items())


def run(prog):
    out = []
    fns = [f for f in prog.lib_fns if f.name == "min_fill_order" and f.impl_self and f.impl_self.endswith("Cnf") and f.kind != "Closure"]
    if len(fns) != 1:
        raise CheckerError("MF: Cnf::min_fill_order not found")
    fn = fns[0]
    te, cfg = fn.terms, fn.cfg
    errs = []
    # the loop: header tests node_count(G) of a loop-carried graph
    loops = []
    selection_form = False
    for h, body in cfg.loop_headers.items():
        guards = [cs for cs in te.calls if cs.bb in body and cs.callee.name == "node_count"]
        if guards:
            loops.append((h, body, guards[0]))
    if not loops:
        # `while let Some((idx, _)) = g.node_indices()...min_by_key(..)`: the selection is None exactly when no node is left
        for h, body in cfg.loop_headers.items():
            sel = [cs for cs in te.calls if cs.bb in body and cs.callee.name in ("min_by", "min_by_key", "max_by", "max_by_key", "next", "min", "max")
                   and "node_indices" in show(cs.args[0])]
            sw = [b for b in body if b in te.switch_term and strip(te.switch_term[b][0])[0] == "discr" and
                  any(strip(te.switch_term[b][0])[1] == ("call", c.callee, tuple(c.args)) + ((c.bb,),) or show(strip(te.switch_term[b][0])[1]) == show(("call", c.callee, tuple(c.args))) for c in sel)]
            if sel and sw:
                ni = [cs for cs in te.calls if cs.bb in body and cs.callee.name == "node_indices"]
                if ni:
                    loops.append((h, body, ni[0]))
                    selection_form = True
    if len(loops) != 1:
        out.append(inst("MF", "%s:MF1:one-in-one-out" % fn.npath, UNDECIDED, fn, None,
                        "expected one loop guarded by node_count(), found %d" % len(loops)))
    else:
        h, body, guard = loops[0]
        G = strip(guard.args[0])
        latches = [u for (u, hh) in cfg.back_edges if hh == h]
        # the test that keeps the loop going
        sw = [(b, te.switch_term[b]) for b in sorted(body) if b in te.switch_term and "node_count" in show(te.switch_term[b][0])]
        if selection_form:
            pass
        elif not sw:
            errs.append("?the loop does not branch on node_count()")
        else:
            c = strip(sw[0][1][0])
            okg = c[0] == "bin" and ((c[1] in ("Gt", "Ne") and strip(c[3]) == ("const", "usize", "0")) or
                                     (c[1] in ("Lt", "Ne") and strip(c[2]) == ("const", "usize", "0")) or
                                     (c[1] == "Ge" and strip(c[3]) == ("const", "usize", "1")))
            if not okg:
                if c[0] == "bin" and c[1] in ("Gt", "Ge", "Lt", "Le", "Ne", "Eq"):
                    errs.append("the loop runs while %s, not while the graph is non-empty: variables are left out of the order "
                                "(or the loop picks from an empty graph)" % show(c)[:50])
                else:
                    errs.append("?loop guard %s" % show(c)[:50])
        pushes = [cs for cs in te.calls if cs.bb in body and cs.callee.name == "push" and "Vec" in cs.callee.key()]
        elims = [cs for cs in te.calls if cs.bb in body and cs.callee.name in ("eliminate_node", "remove_node")]
        if len(pushes) != 1:
            errs.append("%san iteration records %d variables" % ("?" if not pushes else "", len(pushes)))
        if len(elims) != 1:
            errs.append("%san iteration eliminates %d nodes" % ("?" if not elims else "", len(elims)))
        if len(pushes) == 1 and len(elims) == 1:
            p, e = pushes[0], elims[0]
            for what, cs in (("records a variable", p), ("eliminates a node", e)):
                if _in_inner_loop(cfg, h, cs.bb) or not all(cfg.dominates(cs.bb, u) for u in latches):
                    errs.append("not every iteration %s (the call is conditional or sits in an inner loop): the order repeats "
                                "or misses variables" % what)
            v = strip(p.args[1])
            node = strip(e.args[1])
            if mir.is_call(v, "index") and len(v[2]) == 2:
                if strip(v[2][1]) != node:
                    errs.append("the recorded variable is the weight of node %s but node %s is eliminated: a variable is recorded "
                                "twice and another never" % (show(v[2][1])[:40], show(node)[:40]))
                if strip(v[2][0]) != G and G[0] == "mu":
                    errs.append("?the weight is read from %s" % show(v[2][0])[:30])
            elif mir.is_call(v, "node_weight") or (mir.is_call(v, "unwrap") and mir.is_call(strip(v[2][0]), "node_weight")):
                w = v if mir.is_call(v, "node_weight") else strip(v[2][0])
                if strip(w[2][1]) != node:
                    errs.append("the recorded variable is the weight of node %s but node %s is eliminated" % (show(w[2][1])[:40], show(node)[:40]))
            elif any(mir.is_call(x, "index") and len(x[2]) == 1 for x in mir.subterms(v)) and \
                    any(mir.is_call(x, n_) for x in mir.subterms(v) for n_ in ("new", "new_usize")):
                errs.append("the recorded variable is built from the node's *index* (%s): after a removal the graph re-uses the "
                            "freed index for its last node, so indices no longer name variables — the order repeats some "
                            "variables and misses others" % show(v)[:60])
            else:
                errs.append("?the recorded variable is %s" % show(v)[:60])
            if not any("node_indices" in show(x) or "node_identifiers" in show(x) for x in [node]):
                errs.append("?the eliminated node %s is not drawn from node_indices()" % show(node)[:50])
        out.append(inst("MF", "%s:MF1:one-in-one-out" % fn.npath, verdict_of(errs), fn, guard.line, errtext(errs) if errs else
                        "while the graph is non-empty: record the weight of one node of the graph, eliminate that node"))
        # MF4
        errs = []
        r = strip(te.ret)
        vec = strip(pushes[0].args[0]) if len(pushes) == 1 else None
        if not (mir.is_call(r, "new") and "VarOrder" in r[1].key()):
            errs.append("?the result is %s" % show(r)[:50])
        elif vec is not None:
            a = strip(r[2][0])
            loc = vec[1] if vec[0] == "mutref" else None
            if not (a[0] == "mu" and (loc is None or a[2] == loc)):
                errs.append("the order is built from %s, not from the sequence the loop recorded" % show(a)[:50])
        out.append(inst("MF", "%s:MF4:result" % fn.npath, verdict_of(errs), fn, None, errtext(errs) if errs else
                        "VarOrder::new(recorded sequence)"))
    # MF2
    el = [f for f in prog.lib_fns if f.name == "eliminate_node" and f.kind != "Closure"]
    if len(el) == 1:
        g = el[0]
        gt, gc = g.terms, g.cfg
        rm = [cs for cs in gt.calls if cs.callee.name == "remove_node"]
        errs = []
        if any(cs.callee.name == "add_node" for cs in gt.calls):
            errs.append("eliminating a node adds a node: the elimination loop need not terminate with every variable recorded once")
        if len(rm) != 1:
            errs.append("%sexpected one remove_node call, found %d" % ("?" if not rm else "", len(rm)))
        else:
            cs = rm[0]
            if strip(cs.args[1]) != ("param", 2):
                errs.append("the node removed is %s, not the node asked for" % show(cs.args[1])[:40])
            if any(cs.bb in body for body in gc.loop_headers.values()) or not all(gc.dominates(cs.bb, rb) for rb in gc.returns):
                errs.append("the node is not removed exactly once on every path (the call is conditional or in a loop): the "
                            "caller's loop does not shrink the graph by one per recorded variable")
        out.append(inst("MF", "%s:MF2:removes-its-node" % g.npath, verdict_of(errs), g, None, errtext(errs) if errs else
                        "remove_node(g, v) once on every path; no node added"))
    else:
        out.append(inst("MF", "repr::cnf::eliminate_node:MF2:removes-its-node", UNDECIDED, None, None, "eliminate_node not found (inlined?)"))
    # MF3
    ig = [f for f in prog.lib_fns if f.name == "interaction_graph" and f.kind != "Closure"]
    if len(ig) == 1:
        g = ig[0]
        gt, gc = g.terms, g.cfg
        adds = [cs for cs in gt.calls if cs.callee.name == "add_node"]
        errs = []
        if len(adds) != 1:
            errs.append("?expected one add_node site, found %d" % len(adds))
        else:
            cs = adds[0]
            w = strip(cs.args[1])
            loops = [(h, body) for h, body in gc.loop_headers.items() if cs.bb in body]
            if not loops:
                errs.append("?add_node is not in a loop")
            else:
                h, body = min(loops, key=lambda x: len(x[1]))
                nxt = [c2 for c2 in gt.calls if c2.bb in body and c2.callee.name == "next"]
                rng = None
                for (hh, l), init in gt.mu_init.items():
                    if hh == h:
                        i0 = strip(init)
                        for x in mir.subterms(i0):
                            x = strip(x)
                            if x[0] == "agg" and (x[2] or "").endswith("Range") and len(x[4]) == 2:
                                rng = x
                if rng is None:
                    errs.append("?the nodes are not added in a loop over a range")
                else:
                    lo, hi = strip(rng[4][0]), show(strip(rng[4][1]))
                    if lo != ("const", "usize", "0") or "num_vars" not in hi:
                        errs.append("nodes are added for %s..%s, not for every variable 0..num_vars: the order misses variables"
                                    % (show(lo), hi[:30]))
                if not (mir.is_call(w, "new") or mir.is_call(w, "new_usize")) or "next(" not in show(w):
                    errs.append("?the node weight is %s" % show(w)[:50])
                elif any(strip(x)[0] == "bin" and strip(x)[1].startswith(("Add", "Sub", "Mul")) for x in mir.subterms(w)):
                    errs.append("the weight of the node added for variable v is %s, not v itself: node index and label disagree, and "
                                "clause literals address nodes by label" % show(w)[:50])
        out.append(inst("MF", "%s:MF3:one-node-per-variable" % g.npath, verdict_of(errs), g, None, errtext(errs) if errs else
                        "add_node(VarLabel(v)) for v in 0..num_vars"))
    else:
        out.append(inst("MF", "repr::cnf::Cnf::interaction_graph:MF3:one-node-per-variable", UNDECIDED, None, None, "interaction_graph not found"))
    return out
