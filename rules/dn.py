"""DN — conditioning a decision-DNNF looks at every node: the diagram is not ordered.

The top-down compiler decides variables in the builder's order, but the literals that unit propagation implies are
conjoined *above* the rest of the diagram whatever their place in the order (SH3, `conjoin_implied`): a node whose variable
comes late in the order may sit above a variable that comes early.  The order-based cut-off that is right for an ROBDD
("the variable comes before this node's variable, so it cannot occur below") is therefore wrong here.  Rule: in
`DecisionNNFBuilder::condition` / `cond_helper` a path may hand the pointer it was given back unchanged only because the
pointer is a constant or because both conditioned children came back unchanged; an alternative that returns it under a
comparison of variables by the order (`lt` / `lte` / a comparison of positions or labels) is a violation; any other reason
is undecided.
"""
from . import mir
from .base import inst, OK, VIOLATION, UNDECIDED, strip
from .facts import CheckerError
from .mir import show
from .fd import alts, key_of

DN = "builder::decision_nnf::builder::DecisionNNFBuilder"
ORDER_TESTS = ("lt", "lte", "gt", "gte", "above", "below", "get", "cmp", "partial_cmp")


def run(prog):
    out = []
    n = 0
    for name in ("condition", "cond_helper"):
        fns = [f for f in prog.lib_fns if f.name == name and "decision_nnf::builder" in f.npath and "{closure" not in f.npath]
        for fn in fns:
            fn = prog.default_args_worker(fn)      # `cond_helper` as the default path of `cond_helper_cached(.., &mut fresh memo)`
            te = fn.terms
            if te.ret is None:
                continue
            ptr = ("param", 2)
            errs, asis = [], 0
            for leaf, facts in alts(te, te.ret):
                l0 = mir.strip_refs(strip(leaf))
                if l0 != ptr:
                    continue
                asis += 1
                fk = [(key_of(c), v) for c, v in facts]
                const = any(k == "discr(arg2)" for k, v in fk) and not any(k == "discr(arg2)" and "Reg" in str(v) for k, v in fk)
                # the variant fact of a constant pointer, or an explicit constant test
                const = const or any(mir.is_call(c, n_) for c, v in facts for n_ in ("is_const", "is_true", "is_false"))
                unchanged = any(isinstance(c, tuple) and c and c[0] in ("bin", "gamma") and ("low" in key_of(c) or "high" in key_of(c)) for c, v in facts)
                by_order = [key_of(c)[:50] for c, v in facts if
                            (mir.is_call(strip(c)) and strip(c)[1].name in ORDER_TESTS and ("VarOrder" in strip(c)[1].key() or "order" in key_of(c))) or
                            (strip(c)[0] == "bin" and strip(c)[1] in ("Lt", "Le", "Gt", "Ge") and ("var" in key_of(c) or "arg3" in key_of(c)))]
                if by_order:
                    errs.append("the diagram is returned unchanged because of `%s`: a decision-DNNF is not ordered (literals implied by unit "
                                "propagation sit above variables that come earlier in the order), so the variable may still occur "
                                "below" % by_order[0])
                elif not const and not unchanged:
                    errs.append("?the pointer is returned as it is for a reason that is neither `constant` nor `children unchanged`")
            if asis:
                n += 1
                from .base import verdict_of, errtext
                out.append(inst("DN", "%s:returned-as-is" % fn.npath, verdict_of(errs), fn, None,
                                errtext(errs) if errs else "returned unchanged only when constant or when both children came back unchanged"))
    if n == 0:
        raise CheckerError("DN: no path of the decision-DNNF conditioning returns its argument (base case not found)")
    return out
