"""VX — index spaces of the vtree manager (in-order/DFS indices vs BFS indices vs labels).

VTreeIndex wraps an in-order (DFS) position.  The manager keeps `dfs_to_bfs` (indexed by DFS,
holds BFS), `bfs_to_dfs` (indexed by BFS, holds DFS), `vtree_index` (indexed by label, holds DFS),
`index_lookup` (indexed by DFS); the LCA structure works on BFS indices.  Every index expression is
typed and must fit its table; VTreeIndex(x) needs a DFS value; `is_prime_index` compares the two
in-order positions with `<` (left-to-right order = prime-before-sub).
"""
from . import mir
from .base import inst, OK, VIOLATION, UNDECIDED, strip
from .facts import CheckerError
from .mir import show

VM = "repr::vtree::VTreeManager"
TABLES = {"dfs_to_bfs": ("DFS", "BFS"), "bfs_to_dfs": ("BFS", "DFS"), "vtree_index": ("Label", "DFS"), "index_lookup": ("DFS", "VTree")}


def dim(fn, t, depth=0):
    t = strip(t)
    if depth > 10 or not isinstance(t, tuple) or not t:
        return None
    if t[0] == "field" and t[2] == "0" and t[3] == "repr::vtree::VTreeIndex":
        return "DFS"
    if t[0] == "deref" and len(t) > 1:
        return dim(fn, t[1], depth + 1)
    if t[0] == "field" and t[2] == "0" and isinstance(t[1], tuple) and t[1] and t[1][0] == "as" and t[1][2] in ("Some", "Continue"):
        # the payload of a checked lookup `tab.get(i)` (matched, or unwrapped with `?`)
        g = strip(t[1][1])
        if mir.is_call(g) and g[1].name == "branch" and g[2]:
            g = strip(g[2][0])
        if mir.is_call(g) and g[1].name in ("get", "get_mut") and len(g[2]) == 2 and ("slice" in g[1].key() or "Vec" in g[1].key()):
            tab = show(strip(g[2][0])).split(".")[-1]
            if tab in TABLES:
                return TABLES[tab][1]
        return None
    if t[0] == "call":
        nm = t[1].name
        if nm in ("index",) and len(t[2]) == 2:
            tab = show(strip(t[2][0])).split(".")[-1]
            if tab in TABLES:
                return TABLES[tab][1]
        if nm == "lca" and "LeastCommonAncestor" in t[1].key():
            return "BFS"
        if nm in ("value", "value_usize") and "VarLabel" in t[1].key():
            return "Label"
    if t[0] == "index":
        tab = show(strip(t[1])).split(".")[-1]
        if tab in TABLES:
            return TABLES[tab][1]
    return None


def run(prog):
    _extra = manager_new(prog)

    out = []
    n = 0
    seen = {}
    for fn in prog.lib_fns:
        if fn.impl_self != VM or fn.name.startswith("test") or not (any(b["term"]["k"] == "call" for b in fn.blocks) or True):
            continue
        te = fn.terms
        for cs in te.calls:
            if (cs.callee.name == "index" or (cs.callee.name in ("get", "get_mut") and
                                              ("slice" in cs.callee.key() or "Vec" in cs.callee.key()))) and len(cs.args) == 2:
                tab = show(strip(cs.args[0])).split(".")[-1]
                if tab not in TABLES:
                    continue
                d = dim(fn, cs.args[1])
                want = TABLES[tab][0]
                key = "%s:%s[..]" % (fn.npath, tab)
                seen[key] = seen.get(key, 0) + 1
                if seen[key] > 1:
                    key += "#%d" % seen[key]
                n += 1
                if d is None:
                    out.append(inst("VX", key, UNDECIDED, fn, cs.line, "index %s not classified" % show(cs.args[1])[:50]))
                else:
                    out.append(inst("VX", key, OK if d == want else VIOLATION, fn, cs.line,
                                    "%s indexed by a %s index" % (tab, d) if d == want else
                                    "%s is a table over %s indices but is indexed by a %s index (%s)" % (tab, want, d, show(cs.args[1])[:50])))
            if cs.callee.name == "lca" and "LeastCommonAncestor" in cs.callee.key():
                ds = [dim(fn, a) for a in cs.args[1:]]
                n += 1
                ok = ds == ["BFS", "BFS"]
                out.append(inst("VX", "%s:lca-args" % fn.npath, OK if ok else (UNDECIDED if None in ds else VIOLATION), fn, cs.line,
                                "the LCA structure is queried with BFS indices" if ok else "the LCA structure is queried with %s indices" % ds))
        for bb, t, line in te.aggs:
            if t[1] == "adt" and t[2] == "repr::vtree::VTreeIndex":
                d = dim(fn, t[4][0])
                if d is None:
                    continue
                key = "%s:VTreeIndex(..)" % fn.npath
                seen[key] = seen.get(key, 0) + 1
                if seen[key] > 1:
                    key += "#%d" % seen[key]
                n += 1
                out.append(inst("VX", key, OK if d == "DFS" else VIOLATION, fn, line,
                                "VTreeIndex built from an in-order index" if d == "DFS" else
                                "VTreeIndex built from a %s value (%s)" % (d, show(t[4][0])[:50])))
    fn = prog.find1(name="is_prime_index", self_adt=VM, unit="rsdd-lib")
    r = strip(fn.terms.ret)
    ok = r[0] == "bin" and r[1] == "Lt" and show(strip(r[2])) == "arg2.0" and show(strip(r[3])) == "arg3.0"
    out.append(inst("VX", "%s:order" % fn.npath, OK if ok else VIOLATION, fn, None,
                    "l is prime-side of r iff index(l) < index(r)" if ok else "is_prime_index is %s, expected l.0 < r.0" % show(r)))
    n += 1
    # is_prime(a, b) asks is_prime_index(position of a, position of b): the first position is computed from a alone
    # and the second from b alone, whatever kinds of pointer the two are
    ip = [f for f in prog.lib_fns if f.impl_self == VM and f.name == "is_prime"]
    if ip:
        fn = ip[0]
        errs = []
        sites = [cs for cs in fn.terms.calls if cs.callee.name == "is_prime_index" and len(cs.args) == 3]
        if not sites:
            errs.append("?is_prime does not go through is_prime_index")

        def leaves_of(t):
            """push projections through joins: field(φ(tuple{..}, ..), i) -> the i-th components"""
            t = strip(t)
            if isinstance(t, tuple) and t and t[0] in ("phi", "gamma"):
                out_ = []
                for _, v in t[2]:
                    out_ += leaves_of(v)
                return out_
            if isinstance(t, tuple) and t and t[0] == "field" and str(t[2]).isdigit():
                res = []
                for inner in leaves_of(t[1]):
                    inner = strip(inner)
                    if inner[0] == "agg" and inner[1] == "tuple" and int(t[2]) < len(inner[4]):
                        res += leaves_of(inner[4][int(t[2])])
                    else:
                        res.append(("field", inner) + tuple(t[2:]))
                return res
            return [t]
        for cs in sites:
            for pos, want, nm in ((1, 2, "first"), (2, 3, "second")):
                for lf in leaves_of(cs.args[pos]):
                    ps = {x[1] for x in mir.subterms(lf) if x[0] == "param" and x[1] != 1} | ({lf[1]} if lf[0] == "param" and lf[1] != 1 else set())
                    if ps and ps != {want}:
                        errs.append("on some combination of pointer kinds the %s position handed to is_prime_index is %s, computed "
                                    "from the %s operand: is_prime(a, b) then answers for the pair the other way round"
                                    % (nm, show(lf)[:50], "second" if want == 2 else "first"))
                    elif not ps:
                        errs.append("?the %s position is %s" % (nm, show(lf)[:40]))
        from .base import verdict_of, errtext
        out.append(inst("VX", "%s:operand-order" % fn.npath, verdict_of(sorted(set(errs))), fn, None,
                        errtext(sorted(set(errs))[:2]) if errs else "is_prime_index(position of a, position of b) for every kind of a and b"))
    if n < 7:
        raise CheckerError("VX: only %d sites recognised" % n)
    out += _extra
    return out



def manager_new(prog):
    """VTreeManager::new wires the index spaces: every field is built from the *same* tree by the function its name says
    (dfs_to_bfs ← dfs_to_bfs_mapping, bfs_to_dfs ← bfs_to_dfs_mapping, lca ← LeastCommonAncestor::new), and the one loop
    over the in-order enumeration fills index_lookup by pushing every node (position = in-order index) and sets
    vtree_index[label of a leaf] = in-order index of that leaf."""
    fn = prog.find1(name="new", self_adt="repr::vtree::VTreeManager", unit="rsdd-lib")
    te = fn.terms
    r = strip(te.ret)
    out = []
    errs = []
    if not (r[0] == "agg" and str(r[2]).endswith("VTreeManager")):
        raise CheckerError("VX: VTreeManager::new does not return a VTreeManager literal")
    names = r[5] if len(r) > 5 and r[5] else ()
    fields = {str(n): strip(v) for n, v in zip(names, r[4])}
    want = {"dfs_to_bfs": "dfs_to_bfs_mapping", "bfs_to_dfs": "bfs_to_dfs_mapping", "lca": "new"}
    for f, callee in want.items():
        v = fields.get(f)
        if v is None or not mir.is_call(v, callee) or strip(v[2][0]) != ("param", 1):
            errs.append("field %s is %s, expected %s(tree)" % (f, show(v)[:40] if v is not None else "missing", callee))
    if fields.get("tree") != ("param", 1):
        errs.append("field tree is not the constructor's tree")
    out.append(inst("VX", "%s:fields" % fn.npath, VIOLATION if errs else OK, fn, None,
                    "; ".join(errs) if errs else "dfs_to_bfs, bfs_to_dfs, lca, tree are built from the one tree by their namesakes"))
    errs = []
    en = [cs for cs in te.calls if cs.callee.name == "enumerate"]

    def inorder_source(t):
        """the in-order iterator itself, or a vector collected from it with element-preserving adaptors only"""
        t = strip(t)
        while isinstance(t, tuple) and t and t[0] == "call" and t[1].name in ("iter", "into_iter", "collect", "cloned", "copied", "deref",
                                                                              "as_slice", "to_vec", "clone") and t[2]:
            t = strip(t[2][0])
        return mir.is_call(t, "inorder_dfs_iter")
    if len(en) != 1 or not inorder_source(en[0].args[0]):
        errs.append("?the index loop does not enumerate the in-order iterator")
    stores = [st for st in te.stores if mir.is_call(strip(st[1]), "index_mut") or strip(st[1])[0] == "index"]
    ok_store = False
    for st in stores:
        tgt = strip(st[1])
        idx = strip(tgt[2][1]) if tgt[0] == "call" else strip(tgt[2])
        val = strip(st[2])
        if ("extract_leaf" in show(idx) or " as Leaf)" in show(idx)) and "value" in show(idx) and show(val).endswith(".0.0") and "next(" in show(val):
            ok_store = True
            # the table written must be the one that becomes vtree_index
            base = strip(tgt[2][0]) if tgt[0] == "call" else strip(tgt[1])
            vi = fields.get("vtree_index")
            if vi is not None and vi[0] == "mu" and not (isinstance(base, tuple) and base[-1] == vi[2]):
                errs.append("the label-indexed table written in the loop is not the one stored as vtree_index")
        elif "next(" in show(val) and show(val).endswith(".0.0") and not any("leftmost" in (d.get("name") or "") for d in fn.debug if False):
            # an enumeration index stored somewhere else than at [label of the leaf]
            base_ = strip(tgt[2][0]) if tgt[0] == "call" else strip(tgt[1])
            vi_ = fields.get("vtree_index")
            if vi_ is not None and vi_[0] == "mu" and isinstance(base_, tuple) and base_[-1] == vi_[2]:
                errs.append("the loop stores %s at %s, expected in-order index at [label of the leaf]" % (show(val)[:30], show(idx)[:40]))
    if not ok_store and not errs:
        errs.append("?vtree_index[label(leaf)] = in-order index not found")
    pushes = [cs for cs in te.calls if cs.callee.name == "push" and "next(" in show(cs.args[1])]
    il = fields.get("index_lookup")
    pushes = [cs for cs in pushes if il is None or il[0] != "mu" or (strip(cs.args[0])[0] == "mutref" and strip(cs.args[0])[1] == il[2])]
    if il is not None and il[0] == "call" and inorder_source(il) and mir.is_call(il, "collect"):
        pass      # index_lookup is the in-order iterator collected: every node, in order
    elif len(pushes) != 1 or not show(strip(pushes[0].args[1])).endswith(".0.1"):
        errs.append("?index_lookup is not filled with every node of the enumeration")
    elif any(c for c, v, _, _ in te.facts_at(pushes[0].bb) if "is_leaf" in show(c) or (strip(c)[0] == "discr" and "next(" in show(c) and ".0.1" in show(c))):
        errs.append("index_lookup receives only some nodes (push is conditional)")
    out.append(inst("VX", "%s:index-loop" % fn.npath, VIOLATION if errs else OK, fn, None,
                    "; ".join(errs) if errs else "index_lookup[i] = i-th in-order node; vtree_index[label(leaf)] = its in-order index"))
    return out
