"""EE — exhaustive enumeration: a loop over AssignmentIter that accumulates a count leaves the
loop only when the iterator is exhausted (its `None`)."""
from . import mir
from .base import inst, OK, VIOLATION, UNDECIDED
from .facts import CheckerError
from .mir import show


def run(prog):
    out = []
    n = 0
    for fn in prog.lib_fns:
        if "::tests::" in fn.npath or fn.name.startswith("test_"):
            continue
        te = None
        cfg = fn.cfg
        for h, body in cfg.loop_headers.items():
            te = te or fn.terms
            cs = te.calls_by_bb.get(h)
            if not cs or cs.callee.name != "next" or "AssignmentIter" not in (cs.callee.res or cs.callee.def_):
                continue
            n += 1
            # the block that matches on the iterator's result
            sw = [d for d, (c, vm) in te.switch_term.items() if c == ("discr", cs.term)]
            errs = []
            for b in sorted(body):
                for s in cfg.succ[b]:
                    if s in body:
                        continue
                    if fn.blocks[s]["term"]["k"] == "unreachable":
                        continue
                    if b in sw:
                        vm = te.switch_term[b][1] or {}
                        labs = [vm.get(v, v) for v, t in fn.blocks[b]["term"]["targets"] if t == s]
                        if labs == ["None"] or (not labs and "None" in vm.values()):
                            continue
                    line = fn.blocks[b]["term"].get("line")
                    cond = te.switch_term.get(b, (None,))[0]
                    errs.append("loop is left at line %s on `%s` before the iterator is exhausted: assignments are skipped"
                                % (line, show(cond) if cond else "?"))
            out.append(inst("EE", "%s:loop-exit" % fn.npath, VIOLATION if errs else OK, fn, cs.line,
                            "; ".join(errs) if errs else "the only loop exit is the iterator's None"))
            # the count is the enumerated sum on every path: no return bypasses the enumeration with a constant
            from .dt import leaves
            from .base import strip
            mus = {("mu", hh, l) for (hh, l) in te.mu_init if hh == h}
            errs2 = []
            for alt in leaves(te.ret):
                a = strip(alt)
                if not any(x in mus for x in mir.subterms(a)):
                    errs2.append("a path returns %s without enumerating the assignments (a brute-force count has no shortcut: "
                                 "an empty clause makes it zero and free variables contribute their weight sums)" % show(a)[:50])
            out.append(inst("EE", "%s:returns-enumerated-sum" % fn.npath, VIOLATION if errs2 else OK, fn, None,
                            "; ".join(errs2) if errs2 else "every return value is the accumulated sum"))
    # the enumeration runs over *all* variables of the formula: a label below num_vars that occurs in no clause still
    # contributes (low + high) to a weighted count and a factor 2 to a model count
    from . import nc as _nc
    from .base import strip as _strip
    for fn in prog.lib_fns:
        if "::tests::" in fn.npath or fn.name.startswith("test_") or fn.npath.startswith("repr::cnf::AssignmentIter"):
            continue
        if not any(b["term"]["k"] == "call" for b in fn.blocks):
            continue
        for cs in fn.terms.calls:
            if not (cs.callee.name == "new" and "AssignmentIter" in cs.callee.key() and cs.args):
                continue
            a = _strip(cs.args[0])
            sa = show(a)
            chain, t = [], a
            while isinstance(t, tuple) and t and t[0] == "call" and t[2]:
                chain.append(t[1].name)
                t = _strip(t[2][0])
            if (mir.is_call(a, "num_vars") and len(a[2]) == 1) or (a[0] == "field" and a[2] == "num_vars"):
                out.append(inst("EE", "%s:all-variables" % fn.npath, OK, fn, cs.line, "assignments of all %s variables are enumerated" % sa))
            elif chain and chain[0] in ("len", "count") and any(c in _nc.DROPPING for c in chain):
                out.append(inst("EE", "%s:all-variables" % fn.npath, VIOLATION, fn, cs.line,
                                "the enumeration runs over %s, a filtered subset of the variables: a variable below num_vars that "
                                "the filter leaves out (one that occurs in no clause, say) still doubles the model count and "
                                "contributes low + high to a weighted count" % sa[:80]))
            else:
                out.append(inst("EE", "%s:all-variables" % fn.npath, UNDECIDED, fn, cs.line, "number of enumerated variables is %s" % sa[:80]))
    if n < 1:
        # pipeline form: AssignmentIter::new(n).filter(|a| eval(a)).map(weight).fold(zero, +) / .sum()
        from . import nc
        from .base import strip
        for fn in prog.lib_fns:
            if "::tests::" in fn.npath or fn.name.startswith("test_") or fn.terms.ret is None:
                continue
            for x in mir.subterms(fn.terms.ret):
                if not (x[0] == "call" and x[1].name in ("fold", "sum", "count", "reduce", "product") and x[2]):
                    continue
                chain, t = [], strip(x[2][0])
                while isinstance(t, tuple) and t and t[0] == "call" and t[2] and not (t[1].name == "new" and "AssignmentIter" in t[1].key()):
                    chain.append(t[1].name)
                    t = strip(t[2][0])
                if not (isinstance(t, tuple) and t and t[0] == "call" and t[1].name == "new" and "AssignmentIter" in t[1].key()):
                    continue
                n += 1
                drop = [c for c in chain if c in nc.DROPPING and c != "filter"]
                errs = ["the enumeration of assignments passes through `%s`: assignments are skipped" % drop[0]] if drop else []
                out.append(inst("EE", "%s:loop-exit" % fn.npath, VIOLATION if errs else OK, fn, None,
                                "; ".join(errs) if errs else "the whole AssignmentIter is consumed (%s)" % ", ".join(reversed(chain))))
                is_sum = x[1].name == "sum" or (x[1].name == "fold" and len(x[2]) == 3)
                out.append(inst("EE", "%s:returns-enumerated-sum" % fn.npath, OK if is_sum and strip(fn.terms.ret) == x else UNDECIDED, fn, None,
                                "the return value is the fold over the enumeration" if is_sum and strip(fn.terms.ret) == x else
                                "the reduction of the enumeration is not the returned value"))
    if n < 1:
        raise CheckerError("EE: no loop over AssignmentIter found (expected Cnf::wmc)")
    return out
