"""EE — exhaustive enumeration: a loop over AssignmentIter that accumulates a count leaves the
loop only when the iterator is exhausted (its `None`)."""
from . import mir
from .base import inst, OK, VIOLATION, UNDECIDED
from .facts import CheckerError
from .mir import show


def run(prog):
    out = []
    n = 0
    for fn in prog.lib_fns:
        if "::tests::" in fn.npath or fn.name.startswith("test_"):
            continue
        te = None
        cfg = fn.cfg
        for h, body in cfg.loop_headers.items():
            te = te or fn.terms
            cs = te.calls_by_bb.get(h)
            if not cs or cs.callee.name != "next" or "AssignmentIter" not in (cs.callee.res or cs.callee.def_):
                continue
            n += 1
            # the block that matches on the iterator's result
            sw = [d for d, (c, vm) in te.switch_term.items() if c == ("discr", cs.term)]
            errs = []
            for b in sorted(body):
                for s in cfg.succ[b]:
                    if s in body:
                        continue
                    if fn.blocks[s]["term"]["k"] == "unreachable":
                        continue
                    if b in sw:
                        vm = te.switch_term[b][1] or {}
                        labs = [vm.get(v, v) for v, t in fn.blocks[b]["term"]["targets"] if t == s]
                        if labs == ["None"] or (not labs and "None" in vm.values()):
                            continue
                    line = fn.blocks[b]["term"].get("line")
                    cond = te.switch_term.get(b, (None,))[0]
                    errs.append("loop is left at line %s on `%s` before the iterator is exhausted: assignments are skipped"
                                % (line, show(cond) if cond else "?"))
            out.append(inst("EE", "%s:loop-exit" % fn.npath, VIOLATION if errs else OK, fn, cs.line,
                            "; ".join(errs) if errs else "the only loop exit is the iterator's None"))
            # the count is the enumerated sum on every path: no return bypasses the enumeration with a constant
            from .dt import leaves
            from .base import strip
            mus = {("mu", hh, l) for (hh, l) in te.mu_init if hh == h}
            errs2 = []
            for alt in leaves(te.ret):
                a = strip(alt)
                if not any(x in mus for x in mir.subterms(a)):
                    errs2.append("a path returns %s without enumerating the assignments (a brute-force count has no shortcut: "
                                 "an empty clause makes it zero and free variables contribute their weight sums)" % show(a)[:50])
            out.append(inst("EE", "%s:returns-enumerated-sum" % fn.npath, VIOLATION if errs2 else OK, fn, None,
                            "; ".join(errs2) if errs2 else "every return value is the accumulated sum"))
    # the enumeration runs over *all* variables of the formula: a label below num_vars that occurs in no clause still
    # contributes (low + high) to a weighted count and a factor 2 to a model count
    from . import nc as _nc
    from .base import strip as _strip
    for fn in prog.lib_fns:
        if "::tests::" in fn.npath or fn.name.startswith("test_") or fn.npath.startswith("repr::cnf::AssignmentIter"):
            continue
        if not any(b["term"]["k"] == "call" for b in fn.blocks):
            continue
        for cs in fn.terms.calls:
            if not (cs.callee.name == "new" and "AssignmentIter" in cs.callee.key() and cs.args):
                continue
            a = _strip(cs.args[0])
            sa = show(a)
            chain, t = [], a
            while isinstance(t, tuple) and t and t[0] == "call" and t[2]:
                chain.append(t[1].name)
                t = _strip(t[2][0])
            if (mir.is_call(a, "num_vars") and len(a[2]) == 1) or (a[0] == "field" and a[2] == "num_vars"):
                out.append(inst("EE", "%s:all-variables" % fn.npath, OK, fn, cs.line, "assignments of all %s variables are enumerated" % sa))
            elif chain and chain[0] in ("len", "count") and any(c in _nc.DROPPING for c in chain):
                out.append(inst("EE", "%s:all-variables" % fn.npath, VIOLATION, fn, cs.line,
                                "the enumeration runs over %s, a filtered subset of the variables: a variable below num_vars that "
                                "the filter leaves out (one that occurs in no clause, say) still doubles the model count and "
                                "contributes low + high to a weighted count" % sa[:80]))
            else:
                out.append(inst("EE", "%s:all-variables" % fn.npath, UNDECIDED, fn, cs.line, "number of enumerated variables is %s" % sa[:80]))
    if n < 1:
        # pipeline form: AssignmentIter::new(n).filter(|a| eval(a)).map(weight).fold(zero, +) / .sum()
        from . import nc
        from .base import strip
        for fn in prog.lib_fns:
            if "::tests::" in fn.npath or fn.name.startswith("test_") or fn.terms.ret is None:
                continue
            for x in mir.subterms(fn.terms.ret):
                if not (x[0] == "call" and x[1].name in ("fold", "sum", "count", "reduce", "product") and x[2]):
                    continue
                chain, t = [], strip(x[2][0])
                while isinstance(t, tuple) and t and t[0] == "call" and t[2] and not (t[1].name == "new" and "AssignmentIter" in t[1].key()):
                    chain.append(t[1].name)
                    t = strip(t[2][0])
                if not (isinstance(t, tuple) and t and t[0] == "call" and t[1].name == "new" and "AssignmentIter" in t[1].key()):
                    continue
                n += 1
                drop = [c for c in chain if c in nc.DROPPING and c != "filter"]
                errs = ["the enumeration of assignments passes through `%s`: assignments are skipped" % drop[0]] if drop else []
                out.append(inst("EE", "%s:loop-exit" % fn.npath, VIOLATION if errs else OK, fn, None,
                                "; ".join(errs) if errs else "the whole AssignmentIter is consumed (%s)" % ", ".join(reversed(chain))))
                is_sum = x[1].name == "sum" or (x[1].name == "fold" and len(x[2]) == 3)
                out.append(inst("EE", "%s:returns-enumerated-sum" % fn.npath, OK if is_sum and strip(fn.terms.ret) == x else UNDECIDED, fn, None,
                                "the return value is the fold over the enumeration" if is_sum and strip(fn.terms.ret) == x else
                                "the reduction of the enumeration is not the returned value"))
    if n < 1:
        raise CheckerError("EE: no loop over AssignmentIter found (expected Cnf::wmc)")
    out += counter(prog)
    return out


def counter(prog):
    """The enumeration itself: AssignmentIter::next is a binary counter.  First state all-false over num_vars
    positions; the step is a ripple-carry increment (digit' = digit xor carry, carry' = digit and carry, carry-in
    true), decided by truth table over (digit, carry) with the known-bits evaluator of LP; None exactly on carry-out."""
    from . import lp
    from .base import strip
    nx = [f for f in prog.lib_fns if f.name == "next" and f.impl_self and "AssignmentIter" in f.impl_self and f.kind != "Closure"]
    if len(nx) != 1:
        return [inst("EE", "repr::cnf::AssignmentIter::next:counter", UNDECIDED, None, None, "AssignmentIter::next not found")]
    fn = nx[0]
    te = fn.terms
    key = "%s:counter" % fn.npath
    errs = []
    kids = {k.npath: k for k in prog.children(fn)}

    def closure_of(t):
        t = strip(t)
        return kids.get(t[2]) if isinstance(t, tuple) and t and t[0] == "agg" and t[1] == "closure" else None
    # (a) first state
    firsts = [v for (_bb, pl, v, _l) in te.stores if "cur" in show(pl) and any(mir.is_call(x, "collect") or mir.is_call(x, "from_elem") for x in mir.subterms(v))]
    ok_first = False
    for v in firsts:
        for x in mir.subterms(v):
            if mir.is_call(x, "from_elem") and strip(x[2][0]) == ("const", "bool", "0") and "num_vars" in show(x[2][1]):
                ok_first = True
            if mir.is_call(x, "map") and len(x[2]) == 2:
                rng, clo = strip(x[2][0]), closure_of(x[2][1])
                if clo is not None and strip(clo.terms.ret) == ("const", "bool", "0") and "num_vars" in show(rng) and \
                        rng[0] == "agg" and strip(rng[4][0]) == ("const", "usize", "0"):
                    ok_first = True
    if not firsts:
        errs.append("?the first state (an all-false vector over num_vars positions) was not found")
    elif not ok_first:
        errs.append("the first assignment is %s, not the all-false vector over 0..num_vars: the enumeration does not start "
                    "at (or does not have the width of) the assignment space" % show(firsts[0])[:70])
    # (b) the step
    folds = [x for x in mir.subterms(te.ret) if mir.is_call(x, "fold") and len(x[2]) == 3 and closure_of(x[2][2]) is not None]
    folds += [x for (_bb, _pl, v, _l) in te.stores for x in mir.subterms(v) if mir.is_call(x, "fold") and len(x[2]) == 3 and closure_of(x[2][2]) is not None]
    if not folds:
        errs.append("?the increment is not a fold over the current assignment")
    else:
        f = folds[0]
        seed = strip(f[2][1])
        clo = closure_of(f[2][2])
        cin = strip(seed[4][1]) if seed[0] == "agg" and seed[1] == "tuple" and len(seed[4]) == 2 else None
        if cin is None:
            errs.append("?the fold's seed is not a (digits, carry) pair")
        elif cin != ("const", "bool", "1"):
            errs.append("the increment starts with carry-in %s: the counter does not advance by one" % show(cin))
        r = strip(clo.terms.ret)
        push = [c for c in clo.terms.calls if c.callee.name == "push" and len(c.args) == 2]
        if not (r[0] == "agg" and r[1] == "tuple" and len(r[4]) == 2 and len(push) == 1 and clo.argc == 3):
            errs.append("?the fold's step is not `push one digit, return (digits, carry)`")
        else:
            ev = lp.Ev(prog)
            A, C = ("atom", ("bit", "digit", 0)), ("atom", ("bit", "carry", 0))
            env = {2: ("tuple", [("struct", {}), ("bool", C)]), 3: ("bool", A)}
            try:
                digit = ev.ev(push[0].args[1], clo, env)
                carry = ev.ev(r[4][1], clo, env)
                same_d, _ = lp.f_same(digit[1], lp.f_not(("iff", A, C)))
                same_c, _ = lp.f_same(carry[1], ("and", A, C))
                if not same_d:
                    errs.append("the new digit is %s, not digit xor carry: the sequence is not the binary count, so assignments "
                                "are repeated or skipped" % show(push[0].args[1])[:50])
                if not same_c:
                    errs.append("the carry out of a digit is %s, not digit and carry: the sequence is not the binary count, so "
                                "assignments are repeated or skipped" % show(r[4][1])[:60])
            except lp.NotEval as e:
                errs.append("?the step is not interpretable as Boolean functions of (digit, carry): %s" % e)
        # (c) exhaustion: None exactly when the carry leaves the last digit
        rr = strip(te.ret)
        found = False
        for g in mir.subterms(rr):
            g = strip(g)
            if g[0] == "gamma" and strip(strip(g[1])) and "fold" in show(g[1]) and show(g[1]).endswith(".1"):
                found = True
                for lab, v in g[2]:
                    is_none = show(strip(v)).startswith("None")
                    carry_true = lab != "0"
                    if is_none != carry_true:
                        errs.append("the iterator ends (%s) when the carry-out is %s: it stops before all assignments are "
                                    "produced or never stops" % (show(strip(v))[:20], "set" if carry_true else "clear"))
        if not found:
            errs.append("?the end of the enumeration is not a test of the fold's carry-out")
    bad = [e for e in errs if not e.startswith("?")]
    return [inst("EE", key, VIOLATION if bad else (UNDECIDED if errs else OK), fn, None,
                 "; ".join(errs) if errs else "all-false start over 0..num_vars; step = ripple-carry increment (digit xor carry, digit and "
                 "carry, carry-in 1) by truth table; None exactly on carry-out")]
