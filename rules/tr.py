"""TR — no lossy narrowing of values that carry identity.

A variable label (`VarLabel::value*`), a residue of a finite field (`FiniteField::<P>::value()`) and a hash (`finish()`
of a hasher, a stored `hash` / `semantic_hash`) identify something: two different values mean two different variables,
functions or keys.  An integer cast to a *narrower* type (`as u16`, `as u32`, `as u64` from `u128`) maps different values
to one; whatever is keyed, stored or indexed by the result then confuses them — labels >= 2^16 alias small ones, two
hashes agreeing in their low 32 bits share a cache line, a memoised residue of a field above 2^64 comes back truncated.

Rule: every `IntToInt` cast of the build whose target type is narrower than its source type and whose operand derives
from such a value is reported, unless the operand's range provably fits:

  * a residue of `FiniteField<P>` with P a *concrete* constant fits a type of b bits iff P - 1 < 2^b
    (`robdd_model_count`: `FiniteField<U64_LARGEST>::value() as u64`); with P generic the function is instantiated for
    every exported prime, the largest of which is about 2^96;
  * a value reduced by `% c`, `& mask` or `min(_, c)` with a constant fits if the constant does.

Today the whole build contains exactly one narrowing integer cast (the one in `robdd_model_count`, which fits), so the
expected number of violations is zero and that cast is the positive control.  Narrowing casts of other values are listed
as undecided instances (they do not identify anything the properties speak about).
"""
from . import mir
from .base import inst, OK, VIOLATION, UNDECIDED, strip
from .mir import show

W = {"u8": 8, "u16": 16, "u32": 32, "u64": 64, "usize": 64, "u128": 128,
     "i8": 8, "i16": 16, "i32": 32, "i64": 64, "isize": 64, "i128": 128}


def _consts(prog):
    out = {}
    for p, c in prog.consts.items():
        v = c.get("value") if isinstance(c, dict) else None
        if v is None and isinstance(c, dict):
            v = c.get("val")
        try:
            out[p.rsplit("::", 1)[-1]] = int(v)
        except Exception:
            pass
    return out


def kind_of(t):
    """('label' | 'field' | 'hash', witness term) if t derives from an identity-carrying value"""
    for x in [strip(t)] + list(mir.subterms(t)):
        if not isinstance(x, tuple) or not x:
            continue
        if x[0] == "call":
            k = x[1].key() or ""
            if x[1].name in ("value", "value_usize") and "VarLabel" in k:
                return "label", x
            if x[1].name == "value" and "FiniteField" in k:
                return "field", x
            if x[1].name == "finish" and ("Hasher" in k or "hash" in k.lower()):
                return "hash", x
        if x[0] == "hashof":
            return "hash", x
        if x[0] == "field" and x[2] in ("semantic_hash", "hash") and len(x) > 3:
            return "hash", x
    return None, None


def bounded_by(t, consts, depth=0):
    """an upper bound (exclusive) of t if it is visibly reduced by a constant, else None"""
    t = strip(t)
    if depth > 6 or not isinstance(t, tuple) or not t:
        return None
    if t[0] == "const":
        try:
            return int(t[2]) + 1
        except Exception:
            return None
    if t[0] == "cast":
        return bounded_by(t[2], consts, depth + 1)
    if t[0] == "field" and t[2] == "0" and isinstance(t[1], tuple) and t[1][0] == "bin":
        return bounded_by(t[1], consts, depth + 1)
    if t[0] == "bin" and t[1] in ("Rem", "BitAnd"):
        b = bounded_by(t[3], consts, depth + 1)
        if b is not None:
            return b if t[1] == "BitAnd" else b - 1
        return None
    if t[0] == "call" and t[1].name == "min" and len(t[2]) == 2:
        bs = [bounded_by(a, consts, depth + 1) for a in t[2]]
        bs = [b for b in bs if b is not None]
        return min(bs) if bs else None
    return None


def run(prog):
    out, seen = [], {}
    consts = _consts(prog)
    primes = {k: v for k, v in consts.items() if k.startswith("U") and v > 1000}
    for fn in prog.lib_fns + prog.bin_fns:
        if "::test" in fn.npath or fn.name.startswith("test") or "tests::" in fn.npath:
            continue
        te = fn.terms
        casts = []
        for cs in te.calls:
            for a in cs.args:
                casts += [x for x in [strip(a)] + list(mir.subterms(a)) if isinstance(x, tuple) and x and x[0] == "cast"]
        for _, t, _ in te.aggs:
            casts += [x for x in mir.subterms(t) if isinstance(x, tuple) and x and x[0] == "cast"]
        for st in te.stores:
            casts += [x for x in [strip(st[2])] + list(mir.subterms(st[2])) if isinstance(x, tuple) and x and x[0] == "cast"]
        if te.ret is not None:
            casts += [x for x in [strip(te.ret)] + list(mir.subterms(te.ret)) if isinstance(x, tuple) and x and x[0] == "cast"]
        for c, _ in te.switch_term.values():
            casts += [x for x in [strip(c)] + list(mir.subterms(c)) if isinstance(x, tuple) and x and x[0] == "cast"]
        # a bit mask indexed by a label: `1 << label` in a fixed-width word wraps (wrapping_shl) or panics (<<) at the
        # width, so labels beyond it alias smaller ones
        for cs in te.calls:
            if cs.callee.name in ("wrapping_shl", "wrapping_shr", "rotate_left", "unbounded_shl") and len(cs.args) == 2:
                kind, wit = kind_of(cs.args[1])
                if kind == "label":
                    key = "%s:TR:shift-by-label" % fn.npath
                    seen[key] = seen.get(key, 0) + 1
                    if seen[key] > 1:
                        key += "#%d" % seen[key]
                    out.append(inst("TR", key, VIOLATION, fn, cs.line,
                                    "a fixed-width word is shifted by a variable label (%s): the shift amount wraps at the word's "
                                    "width, so the bit of label n + width is the bit of label n" % show(wit)[:40]))
        done = set()
        for c in casts:
            if not str(c[1]).startswith("IntToInt") or repr(c) in done:
                continue
            done.add(repr(c))
            dst = c[3]
            if dst not in W:
                continue
            kind, wit = kind_of(c[2])
            if kind is None:
                continue
            # source width: of the witness value
            srcw = 128 if kind == "field" else (64 if kind == "label" else (128 if "semantic" in show(wit) else 64))
            if kind == "hash" and wit[0] == "field":
                srcw = 128 if wit[2] == "semantic_hash" else 64
            if W[dst] >= srcw:
                continue
            key = "%s:TR:%s-as-%s" % (fn.npath, kind, dst)
            seen[key] = seen.get(key, 0) + 1
            if seen[key] > 1:
                key += "#%d" % seen[key]
            b = bounded_by(c[2], consts)
            fits = b is not None and b <= (1 << W[dst])
            why = None
            if not fits and kind == "field":
                # the modulus of the field the value lives in
                P = None
                for nm, v in primes.items():
                    if nm in show(wit) or nm in (wit[1].key() or ""):
                        P = v
                ty = ""
                try:
                    a0 = strip(wit[2][0])
                    ty = show(a0)
                except Exception:
                    pass
                # concrete instantiation: the callee key of a monomorphic call carries the constant's value or name
                k = (wit[1].key() or "") + " " + str(getattr(wit[1], "targs", "") or "") + " " + str(getattr(wit[1], "args_s", "") or "")
                for nm, v in primes.items():
                    if nm in k or str(v) in k:
                        P = v
                import re as _re
                m_ = _re.search(r"\[(\d+)_u128\]", str(getattr(wit[1], "args_s", "") or ""))
                if m_:
                    P = int(m_.group(1))
                if P is not None:
                    fits = P - 1 < (1 << W[dst])
                    why = "P = %d" % P
                else:
                    why = "the modulus is generic: the exported primes go up to about 2^96"
            if fits:
                out.append(inst("TR", key, OK, fn, None, "%s narrowed to %s, but its range fits (%s)" % (kind, dst, why or "bounded by a constant")))
            else:
                out.append(inst("TR", key, VIOLATION, fn, None,
                                "a %s (%s) is cast to %s, which drops its upper bits%s: different %ss become one, and whatever is "
                                "stored, keyed or indexed by the result confuses them"
                                % ({"label": "variable label", "field": "finite-field residue", "hash": "hash"}[kind], show(wit)[:50], dst,
                                   (" (" + why + ")") if why else "", {"label": "label", "field": "residue", "hash": "hashe"}[kind])))
    return out
