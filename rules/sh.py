"""SH — shape of the expansion / encoding sites (which child goes where).

CP decides the *sign* of every value; these rules decide the *position*:
SH1  ite_helper builds  node(top, low = ite(f|top=0, g|top=0, h|top=0), high = ite(f|1, g|1, h|1))
     with top = first essential variable of (f, g, h).
SH2  conditioning on value true selects the high child, false the low child
     (condition_essential, cond_with_alloc, DecisionNNFBuilder::cond_helper); an SDD literal
     conditioned on its own variable is True iff its polarity equals the value.
SH3  a positive literal is node(label, low = false, high = true) and a negative literal its
     complement; an implied literal conjoined to d is node(label, false, d) if positive and
     node(label, d, false) if negative.
SH4  in topdown_h the high child of the decision node comes from decide(var = true), the low
     child from decide(var = false).
SH5  the folds pair the negative literal with the low child and the positive literal with the high
     child (BDD), primes with subs of the same element (SDD), and hand (var, low value, high value)
     to the callback in that order (bdd_fold).
CC   CNF compilation: a clause is a fold of `or` over var(label(lit), polarity(lit)); clauses are
     joined with `and`.
"""
from . import mir, canon
from .base import inst, OK, VIOLATION, UNDECIDED, strip, bool_arms, P, C, K, ANY, T, match
from .base import verdict_of, errtext
from .facts import CheckerError
from .mir import show
from .fs import update_op, const_kind

R = "builder::bdd::robdd::RobddBuilder"
DN = "builder::decision_nnf::builder::DecisionNNFBuilder"


def sh1(prog):
    fn = prog.find1(name="ite_helper", self_adt=R, unit="rsdd-lib")
    te = fn.terms
    news = [cs for cs in te.calls if cs.callee.name == "new" and "BddNode" in cs.callee.key()]
    if len(news) != 1:
        raise CheckerError("SH1: expected one node construction in ite_helper")
    cs = news[0]
    top = C("VarOrder::first_essential", ANY(), P(2), P(3), P(4))
    cof = lambda i, b: C("condition_essential", P(1), P(i), top, K(b))
    want = C("BddNode::new", top, C("ite", P(1), cof(2, 0), cof(3, 0), cof(4, 0)), C("ite", P(1), cof(2, 1), cof(3, 1), cof(4, 1)))
    err = match(want, cs.term)
    return [inst("SH", "%s:SH1:shannon" % fn.npath, VIOLATION if err else OK, fn, cs.line,
                 ("the decision node is not node(top, ite of the false-cofactors, ite of the true-cofactors): %s" % err) if err
                 else "node(top, ite(f|0,g|0,h|0), ite(f|1,g|1,h|1)), top = first essential variable")]


def _selects(t, valparam, ptr):
    """t = if value {high_raw(ptr)} else {low_raw(ptr)} (any accessor flavour): returns error or None"""
    for x in mir.subterms(t):
        ba = bool_arms(x)
        if ba and strip(ba[0]) == valparam:
            f, tr = strip(ba[1]), strip(ba[2])
            if mir.is_call(f) and mir.is_call(tr) and f[1].name.startswith(("low", "high")) and tr[1].name.startswith(("low", "high")):
                if not (f[1].name.startswith("low") and tr[1].name.startswith("high")):
                    return "value=true selects `%s`, value=false selects `%s`" % (tr[1].name, f[1].name)
                return None
    return "selection by the value not recognised"


def sh2(prog):
    out = []
    specs = [("condition_essential", dict(self_adt=R), ("param", 4), ("param", 2)),
             ("cond_with_alloc", dict(self_adt=R), ("param", 4), ("param", 2)),
             ("cond_helper", dict(in_trait=DN), ("param", 4), ("param", 2))]
    for name, kw, valp, ptr in specs:
        fn = prog.find1(name=name, unit="rsdd-lib", **kw)
        te = fn.terms
        err = "selection by the value not recognised"
        for b, t in te.ret_by_block.items():
            e = _selects(t, valp, ptr)
            if e is None:
                err = None
                break
            if e != "selection by the value not recognised":
                err = e
        if err == "selection by the value not recognised":
            # evaluate instead of matching: for each polarity of the pointer, the paths on which `value` was tested
            # and which return a child of the pointer's own node (canon.paths_under)
            seen = {}
            for variant in ("Reg", "Compl"):
                rs0 = canon.paths_under(fn, ptr, variant, with_conds=True) or []
                rs = []
                for r, conds in rs0:
                    # the selection may sit in a private helper (`top_cofactor(bdd, value)`): its body, split on the value
                    try:
                        r_in = canon.inline_local(prog, r, lambda h: h.impl_self == fn.impl_self and "{closure" not in h.npath and h is not fn)
                        r_in = canon.assume_variant(te, r_in, ptr, variant)
                    except Exception:
                        r_in = r

                    def split(t_, cs_):
                        t0 = strip(t_)
                        if isinstance(t0, tuple) and t0 and t0[0] == "gamma" and strip(t0[1]) == valp:
                            for lab, v_ in t0[2]:
                                split(v_, cs_ + [(t0[1], lab, None)])
                            return
                        inner = [x for x in mir.subterms(t0) if x is not t0 and x[0] == "gamma" and strip(x[1]) == valp]
                        if inner:
                            g0 = inner[0]
                            for lab, v_ in g0[2]:
                                split(canon._replace(t0, lambda y: y == g0, v_), cs_ + [(g0[1], lab, None)])
                            return
                        rs.append((t0, cs_))
                    split(r_in, list(conds))
                for r, conds in rs:
                    v = None
                    for c, lab, _ in conds:
                        if strip(c) == valp:
                            v = 0 if lab == "0" else 1
                    if v is None:
                        continue
                    r0 = strip(r)
                    while mir.is_call(r0, "neg") and r0[2]:
                        r0 = strip(r0[2][0])
                    kind = None
                    if r0[0] == "call" and r0[1].name in ("low", "high", "low_raw", "high_raw") and r0[2] and strip(r0[2][0]) == ptr:
                        kind = r0[1].name[:3].replace("hig", "high")
                    elif r0[0] == "field" and r0[2] in ("low", "high") and ptr in mir.subterms(r0[1]):
                        kind = r0[2]
                    if kind:
                        seen.setdefault(v, set()).add("high" if kind.startswith("hi") else "low")
            if seen.get(1) and seen.get(0):
                if seen[1] == {"high"} and seen[0] == {"low"}:
                    err = None
                else:
                    err = "value=true selects %s, value=false selects %s" % (sorted(seen[1]), sorted(seen[0]))
        out.append(inst("SH", "%s:SH2:cofactor" % fn.npath, (VIOLATION if err != "selection by the value not recognised" else UNDECIDED) if err else OK,
                        fn, None, err or "value=true ↦ high child, value=false ↦ low child"))
    # recursion of cond_with_alloc / cond_helper keeps positions: new(var, rec(low), rec(high))
    for name, kw in (("cond_with_alloc", dict(self_adt=R)), ("cond_helper", dict(in_trait=DN))):
        fn = prog.find1(name=name, unit="rsdd-lib", **kw)
        te = fn.terms
        for cs in te.calls:
            if cs.callee.name == "new" and "BddNode" in cs.callee.key():
                lo, hi = strip(cs.args[1]), strip(cs.args[2])
                ok = (mir.is_call(lo, fn.name) and mir.is_call(hi, fn.name) and mir.is_call(strip(lo[2][1])) and mir.is_call(strip(hi[2][1]))
                      and strip(lo[2][1])[1].name.startswith("low") and strip(hi[2][1])[1].name.startswith("high"))
                out.append(inst("SH", "%s:SH2:positions" % fn.npath, OK if ok else VIOLATION, fn, cs.line,
                                "rebuilt node keeps (low, high) positions" if ok else
                                "rebuilt node is new(var, %s, %s): the low slot must hold the conditioned low child and the high "
                                "slot the conditioned high child" % (show(lo)[:60], show(hi)[:60])))
    # SDD literal
    fns = [f for f in prog.find(name="condition", impl_trait="builder::BottomUpBuilder", unit="rsdd-lib") if "SddPtr" in f.npath]
    if len(fns) != 1:
        raise CheckerError("SH2: SDD condition not found")
    fn = fns[0]
    te = fn.terms
    err = "literal case not recognised"
    ev = _sdd_literal_by_paths(fn)
    if ev is not None:
        err = ev or None
    for t in [v for b, t in te.ret_by_block.items() for v in mir.subterms(t)] if ev is None else []:
        ba = bool_arms(t)
        if ba and strip(ba[0])[0] == "bin" and strip(ba[0])[1] == "Eq":
            c = strip(ba[0])
            sides = {show(strip(c[2])), show(strip(c[3]))}
            if sides == {"(arg2 as Var).1", "arg4"}:
                f, tr = strip(ba[1]), strip(ba[2])
                if f[0] == "agg" and tr[0] == "agg":
                    err = None if (tr[3] == "PtrTrue" and f[3] == "PtrFalse") else \
                        "Var(l, p) | l = v gives %s when p == v and %s otherwise" % (tr[3], f[3])
    if err == "literal case not recognised":
        # the literal case may live in a helper called with (label, polarity, lbl, value)
        for cs in te.calls:
            if not cs.callee.local or cs.callee.name in ("condition", "canonicalize", "unique_or"):
                continue
            shown = [show(strip(a)) for a in cs.args]
            if "(arg2 as Var).1" not in shown or "arg4" not in shown:
                continue
            pi, vi = shown.index("(arg2 as Var).1") + 1, shown.index("arg4") + 1
            hs = [g for g in prog.lib_fns if g.name == cs.callee.name and "{closure" not in g.npath and g.npath == (cs.callee.res or cs.callee.def_)]
            hs = hs or [g for g in prog.lib_fns if g.name == cs.callee.name and "{closure" not in g.npath]
            if len(hs) != 1:
                continue
            for t in [v for b, t in hs[0].terms.ret_by_block.items() for v in mir.subterms(t)]:
                ba = bool_arms(t)
                if ba and strip(ba[0])[0] == "bin" and strip(ba[0])[1] == "Eq":
                    c = strip(ba[0])
                    if {strip(c[2]), strip(c[3])} == {("param", pi), ("param", vi)}:
                        f, tr = strip(ba[1]), strip(ba[2])
                        if f[0] == "agg" and tr[0] == "agg":
                            err = None if (tr[3] == "PtrTrue" and f[3] == "PtrFalse") else \
                                "Var(l, p) | l = v gives %s when p == v and %s otherwise" % (tr[3], f[3])
    out.append(inst("SH", "%s:SH2:literal" % fn.npath, VIOLATION if err and "gives" in err else (UNDECIDED if err else OK), fn, None,
                    err or "Var(l,p) | l=v is True iff p == v"))
    # SDD binary decision handled directly: on a path that returns a child of the pointer itself through the
    # complement-aware accessors, value = true must return the high child and value = false the low child, for the
    # regular and for the complemented variant alike (the accessors already apply the complement).  Today the binary
    # case goes through the generic element loop, so there is no such path: the instance appears with the fast path.
    ptr, valp = ("param", 2), ("param", 4)
    errs, n = [], 0
    for variant in ("BDD", "ComplBDD"):
        for r, conds in (canon.paths_under(fn, ptr, variant, with_conds=True) or []):
            r0 = strip(r)
            # the returned child as (which child, complemented relative to the stored child): the pointer-level
            # accessors already apply the node's complement; the accessors of the node behind the pointer do not
            flips, raw = 0, None
            while mir.is_call(r0) and r0[1].name == "neg" and r0[2]:
                flips += 1
                r0 = strip(r0[2][0])
            if mir.is_call(r0) and r0[1].name in ("high", "low") and r0[2] and strip(r0[2][0]) == ptr:
                raw = False
            elif mir.is_call(r0) and r0[1].name in ("high", "low") and r0[2] and "BinarySDD" in r0[1].key() and \
                    show(strip(r0[2][0])) in ("(arg2 as BDD).0", "(arg2 as ComplBDD).0"):
                raw = True
            if raw is None or (flips and not raw):
                continue
            v = None
            for c, lab, _ in conds:
                c0 = strip(c)
                truth = None if lab not in ("0", "1", ("not", ("0",)), ("not", ("1",))) else (lab in ("1", ("not", ("0",))))
                if truth is None:
                    continue
                if c0 == valp:
                    v = truth
                elif c0[0] == "bin" and c0[1] in ("Eq", "Ne") and valp in (strip(c0[2]), strip(c0[3])):
                    k = strip(c0[3]) if strip(c0[2]) == valp else strip(c0[2])
                    if k[0] == "const" and k[2] in ("0", "1"):
                        eq = truth == (c0[1] == "Eq")
                        v = (k[2] == "1") if eq else (k[2] != "1")
            if v is None:
                continue
            n += 1
            want = "high" if v else "low"
            if raw and (flips % 2 == 1) != (variant == "ComplBDD"):
                errs.append("for a %s pointer the conditioned result is the node's stored %s child %s: the stored children of a "
                            "complemented node denote the complement of the node's cofactors" % (
                                "complemented binary" if variant == "ComplBDD" else "regular binary", r0[1].name,
                                "negated" if flips % 2 else "as it is"))
            if r0[1].name != want:
                errs.append("for a %s pointer, value = %s returns the %s child: the accessors already apply the complement, so "
                            "the choice must not depend on the pointer's sign" % (
                                "complemented binary" if variant == "ComplBDD" else "regular binary", str(bool(v)).lower(), r0[1].name))
    if n:
        out.append(inst("SH", "%s:SH2:binary-case" % fn.npath, VIOLATION if errs else OK, fn, None,
                        "; ".join(dict.fromkeys(errs)) if errs else "value=true ↦ high(f), value=false ↦ low(f) for both signs"))
    return out


def sh3(prog):
    out = []
    for tr, label in (("builder::BottomUpBuilder", "bottom-up"), ("builder::TopDownBuilder", "top-down")):
        fns = [f for f in prog.find(name="var", impl_trait=tr, unit="rsdd-lib") if "BddPtr" in f.npath]
        if len(fns) != 1:
            raise CheckerError("SH3: BDD var for %s not found" % tr)
        fn = fns[0]
        ba = bool_arms(fn.terms.ret)
        err = None
        node = C("get_or_insert", P(1), C("BddNode::new", P(2), C("false_ptr"), C("true_ptr")))
        if not ba or strip(ba[0]) != ("param", 3):
            err = "literal is not selected by its polarity: %s" % show(fn.terms.ret)[:100]
        else:
            err = match(node, ba[2]) or match(C("neg", node), ba[1])
        out.append(inst("SH", "%s:SH3:literal" % fn.npath, VIOLATION if err else OK, fn, None,
                        err or "positive literal = node(l, ⊥, ⊤); negative literal = its complement"))
    def by_polarity(t, b):
        """t with every choice on a literal's polarity() resolved for polarity b"""
        def go(u):
            if not isinstance(u, tuple) or not u:
                return u
            if u[0] == "gamma" and mir.is_call(strip(u[1]), "polarity"):
                for lab, v in u[2]:
                    if isinstance(lab, str) and (lab != "0") == b:
                        return go(v)
                for lab, v in u[2]:
                    if isinstance(lab, tuple) and lab[0] == "not" and (("0" in lab[1]) == b):
                        return go(v)
            if u[0] == "call":
                return (u[0], u[1], tuple(go(a) for a in u[2])) + tuple(u[3:])
            return tuple(go(a) if isinstance(a, tuple) else a for a in u)
        return canon.project(go(t))

    for name in ("conjoin_implied", "compile_cnf_topdown"):
        fn = prog.find1(name=name, in_trait=DN, unit="rsdd-lib")
        bodies = [fn] + [g for g in prog.lib_fns if g.npath.startswith(fn.npath + "::{closure")]
        errs = []
        seen = set()
        delegated = name != "conjoin_implied" and any(cs.callee.name == "conjoin_implied" for g in bodies for cs in g.terms.calls)
        for g in bodies:
            te = g.terms
            for cs in te.calls:
                if not (cs.callee.name == "new" and "BddNode" in cs.callee.key()):
                    continue
                pols = []
                for c, val, _, d in reversed(te.facts_at(cs.bb)):
                    if mir.is_call(strip(c), "polarity"):
                        pols = [val != "0"]
                        break
                if not pols and any(x[0] == "gamma" and mir.is_call(strip(x[1]), "polarity") for a in cs.args for x in mir.subterms(a)):
                    pols = [False, True]      # one construction whose children are chosen by the polarity
                if not pols:
                    if mir.is_call(strip(cs.args[0]), "label"):
                        errs.append("line %d: the node for an implied literal is built the same way for both polarities "
                                    "(node(l, %s, %s)): one of the two then asserts the wrong value of the variable"
                                    % (cs.line, show(cs.args[1])[:25], show(cs.args[2])[:25]))
                    else:
                        errs.append("?line %d: node not under a polarity test" % cs.line)
                    continue
                for pol in pols:
                    seen.add(pol)
                    lo, hi = strip(by_polarity(cs.args[1], pol)), strip(by_polarity(cs.args[2], pol))
                    lo_false, hi_false = const_kind(lo) == "false", const_kind(hi) == "false"
                    if pol and not (lo_false and not hi_false):
                        errs.append("a positive implied literal must be node(l, ⊥, rest); found node(l, %s, %s)" % (show(lo)[:30], show(hi)[:30]))
                    if not pol and not (hi_false and not lo_false):
                        errs.append("a negative implied literal must be node(l, rest, ⊥); found node(l, %s, %s)" % (show(lo)[:30], show(hi)[:30]))
        if seen != {True, False} and not (delegated and not seen):
            errs.append("?both polarities expected")
        out.append(inst("SH", "%s:SH3:implied-literal" % fn.npath, VIOLATION if errs else OK, fn, None,
                        "; ".join(errs) if errs else "implied literal l ∧ rest: positive ↦ node(l, ⊥, rest), negative ↦ node(l, rest, ⊥)"))
    return out


def sh4(prog):
    fn = prog.find1(name="topdown_h", in_trait=DN, unit="rsdd-lib")
    te = fn.terms
    news = [cs for cs in te.calls if cs.callee.name == "new" and "BddNode" in cs.callee.key()]
    if len(news) != 1:
        raise CheckerError("SH4: expected one decision node in topdown_h")
    cs = news[0]

    def decided_polarity(t):
        pols = set()
        for x in mir.subterms(t):
            # the decision literal Literal::new(v, <const>) — handed to decide directly or to a branch helper
            if mir.is_call(x, "new") and "Literal" in x[1].key() and len(x[2]) == 2:
                p = strip(x[2][1])
                if p[0] == "const":
                    pols.add(p[2])
        return pols
    lo, hi = decided_polarity(cs.args[1]), decided_polarity(cs.args[2])
    errs = []
    if not lo or not hi:
        errs.append("?the children's decision literals are not visible in topdown_h")
    else:
        if lo != {"0"}:
            errs.append("the low child derives from decide(var = %s)" % sorted(lo))
        if hi != {"1"}:
            errs.append("the high child derives from decide(var = %s)" % sorted(hi))
    v = strip(cs.args[0])
    if not mir.is_call(v, "var_at_level"):
        errs.append("decision variable is not order.var_at_level(level)")
    return [inst("SH", "%s:SH4:decision-children" % fn.npath,
                 OK if not errs else (UNDECIDED if all(e.startswith("?") for e in errs) else VIOLATION), fn, cs.line,
                 "; ".join(e.lstrip("?") for e in errs) if errs else "node(var, low = sub-diagram after var=false, high = after var=true)")]


def _under(prog, root):
    """the function `root` and everything nested in it (nested fns and closures, at any depth)"""
    rs = [f for f in prog.lib_fns if f.npath == root]
    return rs + [f for f in prog.lib_fns if f.npath.startswith(root + "::")]


def sh5(prog):
    out = []
    # ---- BDD fold: the decision node is Or(And(¬x, value of low), And(x, value of high)).  The node is built in a closure,
    # in a nested fn or in the traversal itself: every body under `fold` is searched.
    root = "<repr::bdd::BddPtr as repr::ddnnf::DDNNFPtr>::fold"
    fam = _under(prog, root)
    if not fam:
        raise CheckerError("SH5: BddPtr::fold not found")
    rec_names = {f.name for f in fam if f.kind != "Closure" and f.npath != root}
    sites = [(g, t) for g in fam for bb, t, line in g.terms.aggs if t[1] == "adt" and (t[2] or "").endswith("DDNNF") and t[3] == "And"]
    fn = sites[0][0] if sites else fam[0]
    errs = []
    if len(sites) != 2:
        errs.append("%sexpected two And nodes, found %d" % ("?" if len(sites) < 2 else "", len(sites)))
    for g, t in sites:
        lit, child = strip(t[4][0]), strip(t[4][1])
        lpol = None
        for x in mir.subterms(lit):
            if x[0] == "agg" and x[3] == "Lit":
                lpol = strip(x[4][1])[2]
        which = None
        for x in mir.subterms(child):
            if x[0] == "call" and x[1].name in rec_names and x[2]:
                a = x[2][0]
                # (l, h) tuple projection .0 / .1 of the gated pair, or low/high (raw or effective) directly
                if a[0] == "field" and a[2] in ("0", "1"):
                    which = "low" if a[2] == "0" else "high"
                    for y in mir.subterms(a[1]):
                        if y[0] == "agg" and y[1] == "tuple" and len(y[4]) == 2:
                            n0 = [z[1].name for z in mir.subterms(y[4][0]) if mir.is_call(z) and z[1].name.startswith(("low", "high"))]
                            n1 = [z[1].name for z in mir.subterms(y[4][1]) if mir.is_call(z) and z[1].name.startswith(("low", "high"))]
                            if n0 and n1 and not (n0[0].startswith("low") and n1[0].startswith("high")):
                                errs.append("the (l, h) pair is built as (%s, %s)" % (n0[0], n1[0]))
                else:
                    nm = [z[1].name for z in mir.subterms(a) if mir.is_call(z) and z[1].name.startswith(("low", "high"))]
                    which = "low" if nm and nm[0].startswith("low") else ("high" if nm else None)
        if lpol is None or which is None:
            errs.append("?And node shape not recognised: %s" % show(t)[:80])
        elif (lpol == "1") != (which == "high"):
            errs.append("the %s literal is paired with the %s child" % ("positive" if lpol == "1" else "negative", which))
    out.append(inst("SH", "%s:SH5:literal-child-pairing" % root, VIOLATION if errs else OK, fn, None,
                    "; ".join(errs) if errs else "Or(And(¬x, low), And(x, high))"))
    # ---- bdd_fold_h: the callback receives (node.var, value of low, value of high), wherever it is applied
    root = "repr::bdd::BddPtr::bdd_fold_h"
    fam = _under(prog, root)
    if not fam:
        raise CheckerError("SH5: bdd_fold_h not found")
    errs = []
    ok = False
    fn = fam[0]
    for g in fam:
        for cs in g.terms.calls:
            if cs.callee.name not in ("call", "call_mut", "call_once") or cs.callee.closure:
                continue
            tup = strip(cs.args[1]) if len(cs.args) == 2 else None
            if tup and tup[0] == "agg" and tup[1] == "tuple" and len(tup[4]) == 3:
                l, h = strip(tup[4][1]), strip(tup[4][2])
                ln = [z[1].name for z in mir.subterms(l) if mir.is_call(z) and z[1].name in ("low", "high", "low_raw", "high_raw")]
                hn = [z[1].name for z in mir.subterms(h) if mir.is_call(z) and z[1].name in ("low", "high", "low_raw", "high_raw")]
                if ln and hn:
                    ok = True
                    fn = g
                    if not (ln[0].startswith("low") and hn[0].startswith("high")):
                        errs.append("callback receives (var, value of %s, value of %s)" % (ln[0], hn[0]))
    if not ok:
        errs.append("?callback application not recognised")
    out.append(inst("SH", "%s:SH5:callback-order" % root, VIOLATION if errs else OK, fn, None,
                    "; ".join(errs) if errs else "f(var, value of low, value of high)"))
    # ---- SDD fold: And(rec(prime(e)), rec(sub(e))) of one element
    root = "<repr::sdd::SddPtr as repr::ddnnf::DDNNFPtr>::fold"
    fam = _under(prog, root)
    if not fam:
        raise CheckerError("SH5: SddPtr::fold not found")
    errs = []
    sites = [(g, t) for g in fam for bb, t, line in g.terms.aggs if t[1] == "adt" and (t[2] or "").endswith("DDNNF") and t[3] == "And"]
    fn = sites[0][0] if sites else fam[0]
    if len(sites) != 1:
        errs.append("?expected one And node, found %d" % len(sites))
    for g, t in sites:
        names = []
        elems = set()
        for o in t[4]:
            nm = [z for z in mir.subterms(o) if mir.is_call(z) and z[1].name in ("prime", "sub")]
            names.append(nm[0][1].name if nm else None)
            if nm:
                elems.add(repr(strip(nm[0][2][0])))
        if sorted(x or "" for x in names) != ["prime", "sub"] or len(elems) != 1:
            errs.append("And node combines %s of %d element(s); expected the prime and the sub of one element" % (names, len(elems)))
    out.append(inst("SH", "%s:SH5:prime-sub-pairing" % root,
                    OK if not errs else (UNDECIDED if all(e.startswith("?") for e in errs) else VIOLATION), fn, None,
                    "; ".join(e.lstrip("?") for e in errs) if errs else "Or over elements of And(prime, sub)"))
    return out


def cc(prog):
    out = []
    for ptr in ("BddPtr", "SddPtr"):
        fns = [f for f in prog.find(name="compile_cnf", impl_trait="builder::BottomUpBuilder", unit="rsdd-lib") if ptr in f.npath]
        if len(fns) != 1:
            raise CheckerError("CC: compile_cnf for %s not found" % ptr)
        fn = fns[0]
        te = fn.terms
        errs = []
        found = False
        for (h, l), ups in te.mu_update.items():
            for u in ups:
                op = update_op(u, ("mu", h, l))
                if op not in ("or", "and", "xor", "iff"):
                    continue
                if op is None:
                    continue   # the outer (per-clause) loop only carries the variable
                found = True
                if op != "or":
                    errs.append("clause accumulator is combined with `%s`" % op)
                u = strip(u)
                other = [a for a in u[2][1:] if strip(a) != ("mu", h, l)] if mir.is_call(u) else []
                lit_ok = False
                if op is None:
                    continue
                for a in other:
                    a = strip(a)
                    args = a[2][-2:] if mir.is_call(a, "var") else (a[4] if a[0] == "agg" and a[3] == "Var" else None)
                    if args and mir.is_call(strip(args[0]), "label") and mir.is_call(strip(args[1]), "polarity") and \
                            strip(strip(args[0])[2][0]) == strip(strip(args[1])[2][0]):
                        lit_ok = True
                if not lit_ok:
                    errs.append("the disjunct is not var(label(lit), polarity(lit)) of the clause's own literal")
        if not found:
            # iterator form: clause.iter().fold(seed, |d, l| self.or(d, lit(l))) possibly inside a closure of compile_cnf
            fam = [fn] + [g for g in prog.lib_fns if g.npath.startswith(fn.npath + "::{closure")]
            for g in fam:
                for cs in g.terms.calls:
                    if cs.callee.name != "fold" or len(cs.args) != 3:
                        continue
                    clo = cs.args[2]
                    if not (isinstance(clo, tuple) and clo[0] == "agg" and clo[1] == "closure"):
                        continue
                    kk = [k for k in prog.lib_fns if k.npath == clo[2]]
                    if not kk:
                        continue
                    r = strip(kk[0].terms.ret)
                    if not (mir.is_call(r) and r[1].name in ("or", "and", "xor", "iff")):
                        continue
                    found = True
                    if r[1].name != "or":
                        errs.append("clause accumulator is combined with `%s`" % r[1].name)
                    lit_ok = False
                    for a in r[2]:
                        a = strip(a)
                        args = a[2][-2:] if mir.is_call(a, "var") else (a[4] if a[0] == "agg" and a[3] == "Var" else None)
                        if args and mir.is_call(strip(args[0]), "label") and mir.is_call(strip(args[1]), "polarity") and \
                                strip(strip(args[0])[2][0]) == strip(strip(args[1])[2][0]):
                            lit_ok = True
                    if not lit_ok:
                        errs.append("the disjunct is not var(label(lit), polarity(lit)) of the clause's own literal")
        if not found:
            errs.append("?clause accumulator not found")
        verdict = OK if not errs else (UNDECIDED if all(e.startswith("?") for e in errs) else VIOLATION)
        out.append(inst("SH", "%s:CC:clause" % fn.npath, verdict, fn, None,
                        "; ".join(e.lstrip("?") for e in errs) if errs else "clause = fold of or over var(label(l), polarity(l))"))
    for name, tr in (("collapse_clauses", "builder::bdd::builder::BddBuilder"), ("compile_cnf_helper", "builder::sdd::builder::SddBuilder")):
        fn = prog.find1(name=name, in_trait=tr, unit="rsdd-lib")
        te = fn.terms
        # the join may sit in a closure (`back.map_or(front, |b| self.and(front, b))`)
        bodies_ = [fn] + [g for g in prog.lib_fns if g.npath.startswith(fn.npath + "::{closure")]
        joins = [cs for g in bodies_ for cs in g.terms.calls
                 if cs.callee.name in ("and", "or", "xor", "iff") and (cs.callee.trait or "").startswith("builder")]
        errs = []
        if len(joins) != 1 or joins[0].callee.name != "and":
            errs.append("%shalves are joined with %s" % ("?" if not joins else "", [c.callee.name for c in joins]))
        else:
            a = [strip(x) for x in joins[0].args[1:]]
            # the operands are the two Some(..) payloads: projections, a closure's argument, or a captured payload
            is_half = lambda x: (x[0] == "field" and "Some" in show(x)) or x[0] in ("param", "upvar")
            if not all(is_half(x) for x in a) or a[0] == a[1]:
                errs.append("and() does not join the results of the two halves: %s" % [show(x)[:40] for x in a])
        out.append(inst("SH", "%s:CC:conjunction" % fn.npath, VIOLATION if errs else OK, fn, None,
                        "; ".join(errs) if errs else "clauses are joined pairwise with and(left half, right half)"))
    fn = prog.find1(name="compile_cnf_with_assignments", in_trait="builder::bdd::builder::BddBuilder", unit="rsdd-lib")
    te = fn.terms
    errs = []
    # the clause may be built in a closure of the function (`let compile_clause = |clause| ..`)
    allcalls = [cs for g in [fn] + [g for g in prog.lib_fns if g.npath.startswith(fn.npath + "::{closure")] for cs in g.terms.calls]
    ops = [cs.callee.name for cs in allcalls if cs.callee.name in ("and", "or", "xor", "iff") and (cs.callee.trait or "").startswith("builder")]
    if sorted(ops) != ["and", "or"]:
        errs.append("%sexpected one `or` (clause) and one `and` (heap merge), found %s" % ("?" if set(ops) <= {"and", "or"} else "", ops))
    for cs in allcalls:
        if cs.callee.name == "and" and (cs.callee.trait or "").startswith("builder"):
            if not all("pop(" in show(a) for a in cs.args[1:]):
                errs.append("and() does not merge the two popped heap entries")
        if cs.callee.name == "or" and (cs.callee.trait or "").startswith("builder"):
            vs = [strip(a) for a in cs.args[1:] if mir.is_call(strip(a), "var")]
            if not vs or not (mir.is_call(strip(vs[0][2][-2]), "label") and mir.is_call(strip(vs[0][2][-1]), "polarity")):
                errs.append("the disjunct is not var(label(lit), polarity(lit))")
    out.append(inst("SH", "%s:CC:heap" % fn.npath, VIOLATION if errs else OK, fn, None,
                    "; ".join(errs) if errs else "clause = or of unassigned literals; heap entries merged with and"))
    return out


def sh6(prog):
    """(SH6) conditioning on a partial model is conditioning on each of its literals in turn: the fold over
    `assignment_iter()` threads the diagram through `condition(acc, label(l), polarity(l))` for one and the same literal l,
    starts from the given diagram, visits every literal and returns the accumulator."""
    from . import canon, nc
    out = []
    fs_ = [f for f in prog.lib_fns if f.name == "condition_model" and f.kind != "Closure"]
    for fn in fs_:
        bodies = canon.local_bodies(prog, fn, ok=lambda h: h.impl_self == fn.impl_self and h.name not in ("cond_with_alloc", "condition"))
        sites = [(g, cs) for g in bodies for cs in g.terms.calls if cs.callee.name in ("condition", "cond_with_alloc") and len(cs.args) >= 4]
        errs = []
        key = "%s:SH6:each-literal" % fn.npath
        if len(sites) != 1:
            out.append(inst("SH", key, UNDECIDED, fn, None, "expected one conditioning step under condition_model, found %d" % len(sites)))
            continue
        g, cs = sites[0]
        te = g.terms
        acc, lab, pol = strip(cs.args[1]), strip(cs.args[2]), strip(cs.args[3])
        # the literal
        if not (mir.is_call(lab, "label") and len(lab[2]) == 1):
            errs.append("?the conditioned variable is %s, not the label of a literal of the model" % show(lab)[:50])
        elif mir.is_call(pol, "polarity") and len(pol[2]) == 1:
            if strip(pol[2][0]) != strip(lab[2][0]):
                errs.append("the variable comes from %s but the value from %s: a literal's variable is set to another literal's "
                            "polarity" % (show(lab[2][0])[:40], show(pol[2][0])[:40]))
        elif pol[0] == "un" and pol[1] == "Not" and mir.is_call(strip(pol[2]), "polarity"):
            errs.append("the variable is conditioned on the negation of the literal's polarity: the result is f restricted to "
                        "the complement of the model")
        elif pol[0] == "const":
            errs.append("every variable of the model is conditioned on the constant %s, whatever the literal's polarity" % show(pol))
        else:
            errs.append("?the conditioning value is %s" % show(pol)[:50])
        # the accumulator
        if acc[0] == "mu":
            init = strip(te.mu_init.get((acc[1], acc[2]), ("?",)))
            ups = [strip(u) for u in te.mu_update.get((acc[1], acc[2]), [])]
            res = ("call", cs.callee, cs.args)
            if init[0] != "param":
                errs.append("?the fold starts from %s" % show(init)[:40])
            if not ups or any(not (mir.is_call(u, cs.callee.name) and strip(u[2][1]) == acc) for u in ups):
                # some iterations leave the diagram as it is: a literal may be passed over only when its variable cannot
                # occur — the diagram is constant, or the variable comes *strictly* before the root in the order
                from .fd import alts as _alts, key_of as _key
                skip_errs, n_skip, other = [], 0, 0
                edges = [ub for (ub, hb) in g.cfg.back_edges if hb == acc[1] and ub in te.state_out]
                raw_ups = te.mu_update.get((acc[1], acc[2]), [])
                for k_, u in enumerate(raw_ups):
                    # the facts that hold where this back edge leaves the loop body (`continue` under a guard)
                    base = tuple((c, v) for c, v, _, _ in te.facts_at(edges[k_])) if k_ < len(edges) else ()
                    for leaf, facts in _alts(te, u, base):
                        l0 = strip(leaf)
                        if mir.is_call(l0, cs.callee.name) and strip(l0[2][1]) == acc:
                            continue
                        if l0 != acc:
                            other += 1
                            continue
                        n_skip += 1
                        ok_ = None
                        for c, v in facts:
                            c0 = strip(c)
                            truth = None if v not in ("0", "1", ("not", ("0",)), ("not", ("1",))) else (v in ("1", ("not", ("0",))))
                            if c0[0] == "discr" and "var_safe" in _key(c0) and v in ("0", ("not", ("1",))):
                                ok_ = True            # a constant diagram
                            if mir.is_call(c0) and c0[1].name in ("is_const", "is_true", "is_false") and truth:
                                ok_ = True
                            if mir.is_call(c0) and c0[1].name in ("lt", "lte") and len(c0[2]) >= 3 and truth is not None:
                                a_, b_ = _key(c0[2][-2]), _key(c0[2][-1])
                                lab_first = "label(" in a_ and "label(" not in b_
                                top_first = "label(" in b_ and "label(" not in a_
                                strict = c0[1].name == "lt"
                                if lab_first:         # lt/lte(label, top)
                                    good = truth and strict
                                    bad_eq = truth and not strict
                                elif top_first:       # lt/lte(top, label) false  ⇒  label <(=) top
                                    good = (not truth) and not strict
                                    bad_eq = (not truth) and strict
                                else:
                                    continue
                                if good:
                                    ok_ = True if ok_ is None else ok_
                                elif bad_eq:
                                    ok_ = False
                                    skip_errs.append("a literal is passed over when its variable does not come after the root's (`%s` is %s): "
                                                     "that includes the literal on the root variable itself, which is then not conditioned "
                                                     "on" % (_key(c0)[:50], str(truth).lower()))
                        if ok_ is None:
                            # the reason may be a private predicate (`cannot_occur(bdd, label)`): each way it can hold must be an
                            # admissible reason — the diagram is constant, or the label is strictly before the root
                            for c, v in facts:
                                c0 = strip(c)
                                truth = v in ("1", ("not", ("0",)))
                                if not (mir.is_call(c0) and (c0[1].local or getattr(c0[1], "res_local", False)) and truth):
                                    continue
                                hs_ = [h_ for h_ in prog.resolve(c0[1]) if "{closure" not in h_.npath]
                                if len(hs_) != 1 or hs_[0].terms.ret is None:
                                    continue
                                verdicts = []
                                for hl, hf in _alts(hs_[0].terms, hs_[0].terms.ret):
                                    hl0 = strip(hl)
                                    if hl0[0] == "const" and hl0[2] == "0":
                                        continue                      # an alternative on which the predicate is false
                                    if hl0[0] == "const" and hl0[2] == "1":
                                        # admissible when it is taken for a constant pointer: a variant test that excludes the nodes
                                        cst = any(strip(c2)[0] == "discr" and not any(n_ in str(v2) for n_ in ("Reg", "Compl")) and
                                                  (isinstance(v2, tuple) or str(v2) not in ("0", "1")) or
                                                  (mir.is_call(strip(c2)) and strip(c2)[1].name in ("is_const", "is_true", "is_false"))
                                                  for c2, v2 in hf)
                                        # `PtrTrue | PtrFalse => true`: the variant fact names the two constant variants
                                        vm_ = hs_[0].terms._discr_variants
                                        for c2, v2 in hf:
                                            if strip(c2)[0] == "discr":
                                                names_ = vm_.get(c2) or vm_.get(strip(c2)) or {}
                                                labs_ = list(v2[1]) if isinstance(v2, tuple) and v2 and v2[0] == "in" else [v2]
                                                if names_ and all(names_.get(str(l_), "") in ("PtrTrue", "PtrFalse") for l_ in labs_):
                                                    cst = True
                                        verdicts.append(True if cst else None)
                                    elif mir.is_call(hl0) and hl0[1].name == "lt" and len(hl0[2]) >= 3:
                                        a_, b_ = _key(hl0[2][-2]), _key(hl0[2][-1])
                                        # the label parameter first, the pointer's variable second: strictly before the root
                                        verdicts.append(True if (".var" in b_ or "var(" in b_) and ".var" not in a_ else None)
                                    elif mir.is_call(hl0) and hl0[1].name == "lte":
                                        verdicts.append(False)
                                    else:
                                        verdicts.append(None)
                                if verdicts and all(x is True for x in verdicts):
                                    ok_ = True
                                elif any(x is False for x in verdicts):
                                    ok_ = False
                                    skip_errs.append("a literal is passed over under `%s`, which also holds when its variable is the root's" % _key(c0)[:40])
                        if ok_ is None:
                            skip_errs.append("?a literal is passed over for a reason that is not read here")
                if other or not n_skip:
                    errs.append("?the loop-carried diagram is not updated by the conditioning step alone")
                errs += skip_errs
            if strip(te.ret) != acc and not any(strip(x) == acc for x in mir.subterms(te.ret)):
                errs.append("the function does not return the diagram it has conditioned (%s)" % show(te.ret)[:40])
        elif acc[0] == "param" and g.kind == "Closure":
            # fold(init, |acc, lit| condition(acc, ..)): the closure's first explicit parameter
            if acc[1] != 2:
                errs.append("?the folded closure conditions its parameter %d" % acc[1])
        elif acc[0] == "param":
            if cs.bb in g.cfg.loop_blocks if hasattr(g.cfg, "loop_blocks") else any(cs.bb in body for body in g.cfg.loop_headers.values()):
                errs.append("every literal is conditioned on the *original* diagram %s, not on the result so far: only the last "
                            "literal of the model takes effect" % show(acc))
            else:
                errs.append("?the conditioning step is not inside a loop over the model")
        else:
            errs.append("?the diagram handed to the conditioning step is %s" % show(acc)[:50])
        # every literal
        names = [c.callee.name for b in bodies for c in b.terms.calls]
        if "assignment_iter" not in names:
            errs.append("?the literals do not come from assignment_iter()")
        drop = [n_ for n_ in names if n_ in nc.DROPPING]
        if drop:
            errs.append("the model's literals pass through `%s` before they are conditioned on: some are skipped" % drop[0])
        out.append(inst("SH", key, verdict_of(errs), fn, cs.line, errtext(errs) if errs else
                        "fold over assignment_iter(): acc = condition(acc, label(l), polarity(l)), from the given diagram, all literals"))
    if not fs_:
        out.append(inst("SH", "condition_model:SH6:each-literal", UNDECIDED, None, None, "condition_model not found"))
    return out


def run(prog):
    return sh1(prog) + sh2(prog) + sh3(prog) + sh4(prog) + sh5(prog) + cc(prog) + sh6(prog)


def _sdd_literal_by_paths(fn):
    """The literal case of the SDD `condition(f, lbl, value)` *evaluated*: the CFG is walked under the assumption that f
    is a `Var(l, p)`; every open test on the way is a comparison of l with lbl, of p with value, or of p / value alone.
    Each path must return f when l != lbl, True when l == lbl and p == value, False when l == lbl and p != value.
    Returns "" (all paths agree), an error text (a path disagrees), or None (a path or test the evaluator cannot read)."""
    f = ("param", 2)
    paths = canon.paths_under(fn, f, "Var", with_conds=True)
    if not paths:
        return None
    L, PV, LBL, VAL = "(arg2 as Var).0", "(arg2 as Var).1", "arg3", "arg4"

    def peel(t):
        t = strip(t)
        while isinstance(t, tuple) and t and t[0] in ("ref", "deref"):
            t = strip(t[1])
        return t

    def truth(lab):
        if lab == "0":
            return False
        if isinstance(lab, str):
            return True
        if isinstance(lab, tuple) and lab[0] == "not":
            if "0" in lab[1]:
                return True
            if "1" in lab[1]:
                return False
        return None

    errs, seen = [], set()
    for r, conds in paths:
        know = {}
        for c, lab, _ in conds:
            tv = truth(lab)
            c = peel(c)
            while isinstance(c, tuple) and c and c[0] == "un" and c[1] == "Not":
                c = peel(c[2]); tv = None if tv is None else not tv
            if tv is None:
                return None
            sides = None
            if c[0] == "bin" and c[1] in ("Eq", "Ne"):
                sides, ne = {show(peel(c[2])), show(peel(c[3]))}, c[1] == "Ne"
            elif c[0] == "call" and c[1].name in ("eq", "ne") and len(c[2]) == 2:
                sides, ne = {show(peel(c[2][0])), show(peel(c[2][1]))}, c[1].name == "ne"
            if sides is not None:
                v = tv != ne
                if sides == {L, LBL}:
                    know["leq"] = v
                elif sides == {PV, VAL}:
                    know["pveq"] = v
                else:
                    return None
            elif show(c) == PV:
                know["p"] = tv
            elif show(c) == VAL:
                know["v"] = tv
            else:
                return None
        if "pveq" not in know and "p" in know and "v" in know:
            know["pveq"] = know["p"] == know["v"]
        r = peel(r)
        if r == f:
            got = "f"
        elif isinstance(r, tuple) and r and r[0] == "agg" and r[3] in ("PtrTrue", "PtrFalse"):
            got = r[3]
        elif isinstance(r, tuple) and r and r[0] == "agg" and r[3] == "Var" and [show(peel(o)) for o in r[4]] == [L, PV]:
            got = "f"
        else:
            return None
        if know.get("leq") is False:
            want = "f"
        elif know.get("leq") is True and "pveq" in know:
            want = "PtrTrue" if know["pveq"] else "PtrFalse"
        elif "leq" not in know:
            errs.append("Var(l, p) | lbl=value gives %s on a path that never compares l with lbl" % got)
            continue
        else:
            errs.append("Var(l, p) | lbl=value gives %s whenever l == lbl, whether or not p == value" % got)
            continue
        seen.add((know.get("leq"), know.get("pveq") if know.get("leq") else None))
        if got != want:
            errs.append("Var(l, p) | lbl=value gives %s when l %s lbl%s (expected %s)" % (
                got, "==" if know["leq"] else "!=", (" and p %s value" % ("==" if know["pveq"] else "!=")) if know["leq"] else "", want))
    if errs:
        return "; ".join(sorted(set(errs))[:2])
    if seen >= {(False, None), (True, True), (True, False)}:
        return ""
    return None
