"""Shared rule infrastructure: instances, term normalisation and pattern matching."""
from . import mir
from .mir import show, last_seg

OK, VIOLATION, UNDECIDED = "ok", "violation", "undecided"


class Inst(dict):
    pass


def inst(rule, key, verdict, fn=None, line=None, detail="", loc=None):
    # convention: a message that starts with '?' says "the construct this rule talks about was not found in a shape it
    # knows".  An instance whose messages are all of that kind is undecided, whatever verdict the rule computed.
    if verdict == VIOLATION and detail:
        parts = [x for x in detail.split("; ") if x]
        if parts and all(x.startswith("?") for x in parts):
            verdict = UNDECIDED
    if detail and "?" in detail:
        detail = "; ".join(x.lstrip("?") for x in detail.split("; "))
    d = Inst(rule=rule, key="%s:%s" % (rule, key), verdict=verdict, detail=detail)
    if fn is not None:
        d["fn"] = fn.npath
        d["loc"] = fn.loc(line)
        d["unit"] = fn.unit
    elif loc:
        d["loc"] = loc
    return d


def fn_key(fn):
    """stable, line-free identifier of a function for instance keys"""
    return fn.npath


# --------------------------------------------------------------------------
# callee matching:  "Trait::name" / "Type::name" / "name"
def callee_is(callee, spec):
    """spec: 'name' | 'Qual::name' where Qual is a suffix of the trait / self type path
    (generic args ignored).  Matches the declared callee or the resolved instance."""
    if "::" not in spec:
        return callee.name == spec
    qual, name = spec.rsplit("::", 1)
    if callee.name != name:
        return False
    for p in (callee.def_, callee.res, callee.trait):
        if not p:
            continue
        q = _strip_generics(p)
        if q.endswith(qual + "::" + name) or q.endswith(qual) or ("::" + qual + "::") in q or \
                (" as " in q and (q.split(" as ")[1].split(">")[0].endswith(qual)
                                  or q.split(" as ")[0].lstrip("<").endswith(qual))):
            return True
    return False


def _strip_generics(p):
    out = []
    depth = 0
    i = 0
    # keep the "<X as Y>" qualified-self form but drop generic argument lists "::<...>" and "X<...>"
    while i < len(p):
        c = p[i]
        if c == '<':
            if i == 0 or p[i - 1] in " (<,":  # qualified self
                out.append(c)
                depth_q = 1
                i += 1
                continue
            # generic args: skip to matching '>'
            d = 1
            i += 1
            while i < len(p) and d:
                if p[i] == '<':
                    d += 1
                elif p[i] == '>':
                    d -= 1
                i += 1
            continue
        out.append(c)
        i += 1
    s = "".join(out)
    return s.replace("::::", "::")


# --------------------------------------------------------------------------
# term normalisation for wrapper / dispatch rules
MARSHAL = {"into_raw", "from_raw", "cast", "robdd_builder_from_ptr", "as_ptr", "as_mut_ptr"}


def strip(t, extra=()):
    """remove marshalling: Box::new/into_raw/from_raw, pointer casts, `as` casts"""
    while isinstance(t, tuple) and t:
        if t[0] == "call":
            c = t[1]
            nm = c.name
            if (nm in MARSHAL or nm in extra) and len(t[2]) >= 1:
                t = t[2][0]
                continue
            if nm == "new" and (c.def_.startswith("std::boxed::Box") or c.def_.startswith("alloc::boxed::Box")) \
                    and len(t[2]) == 1:
                t = t[2][0]
                continue
        if t[0] == "cast":
            t = t[2]
            continue
        if t[0] == "call" and t[1].name in ("unwrap", "expect") and t[2] and isinstance(t[2][0], tuple) and t[2][0] and \
                t[2][0][0] == "call" and t[2][0][1].name in ("try_from", "try_into") and len(t[2][0][2]) == 1:
            # a checked numeric conversion that refuses instead of truncating (`u64::try_from(x).expect(..)` for `x as u64`)
            t = t[2][0][2][0]
            continue
        break
    return t


class P:
    """pattern: wrapper parameter by 1-based position"""
    def __init__(self, i):
        self.i = i

    def __repr__(self):
        return "arg%d" % self.i


class C:
    """pattern: call to callee spec with argument patterns; comm=True accepts either order of
    the last two arguments (commutative native operation)"""
    def __init__(self, spec, *args, comm=False):
        self.spec, self.args, self.comm = spec, args, comm

    def __repr__(self):
        return "%s(%s)" % (self.spec, ", ".join(map(repr, self.args)))


class F:
    """pattern: field projection `.name` of a sub-pattern"""
    def __init__(self, sub, name):
        self.sub, self.name = sub, name

    def __repr__(self):
        return "%r.%s" % (self.sub, self.name)


class K:
    """pattern: constant with the given printed value (bool: '0'/'1')"""
    def __init__(self, val):
        self.val = str(val)

    def __repr__(self):
        return "const %s" % self.val


class ANY:
    def __repr__(self):
        return "_"


class Contains:
    """pattern: any term that mentions parameter i and nothing from other parameters
    (used for text marshalling such as CStr -> String)"""
    def __init__(self, i):
        self.i = i

    def __repr__(self):
        return "~arg%d" % self.i


class Agg:
    """pattern: aggregate (struct/tuple literal) with field patterns"""
    def __init__(self, name, *ops):
        self.name, self.ops = name, ops

    def __repr__(self):
        return "%s{%s}" % (self.name, ", ".join(map(repr, self.ops)))


def params_in(t):
    s = set()
    mir.walk(t, lambda x: s.add(x[1]) if x[0] == "param" else None)
    return s


def match(pat, t, extra_strip=()):
    """returns None on success or a string describing the first mismatch"""
    t = strip(t, extra_strip)
    if isinstance(pat, ANY):
        return None
    if isinstance(pat, P):
        if t == ("param", pat.i):
            return None
        return "expected %r, found %s" % (pat, show(t))
    if isinstance(pat, K):
        if isinstance(t, tuple) and t[0] == "const" and str(t[2]) == pat.val:
            return None
        return "expected %r, found %s" % (pat, show(t))
    if isinstance(pat, Contains):
        ps = params_in(t)
        if ps == {pat.i}:
            return None
        return "expected a value derived from arg%d only, found %s (params %s)" % (pat.i, show(t), sorted(ps))
    if isinstance(pat, F):
        if isinstance(t, tuple) and t[0] == "field" and t[2] == pat.name:
            return match(pat.sub, t[1], extra_strip)
        return "expected field .%s, found %s" % (pat.name, show(t))
    if isinstance(pat, Agg):
        if isinstance(t, tuple) and t[0] == "agg" and (pat.name is None or (t[2] or "").endswith(pat.name)
                                                       or t[1] == pat.name):
            if len(t[4]) != len(pat.ops):
                return "aggregate arity %d != %d" % (len(t[4]), len(pat.ops))
            for sp, st in zip(pat.ops, t[4]):
                r = match(sp, st, extra_strip)
                if r:
                    return r
            return None
        return "expected aggregate %s, found %s" % (pat.name, show(t))
    if isinstance(pat, C):
        if not (isinstance(t, tuple) and t[0] == "call"):
            return "expected call %s, found %s" % (pat.spec, show(t))
        if not callee_is(t[1], pat.spec):
            return "expected call to %s, found call to %s" % (pat.spec, t[1].key())
        args = t[2]
        if len(args) != len(pat.args):
            return "call %s: %d args, expected %d" % (pat.spec, len(args), len(pat.args))
        orders = [list(pat.args)]
        if pat.comm and len(pat.args) >= 2:
            sw = list(pat.args)
            sw[-1], sw[-2] = sw[-2], sw[-1]
            orders.append(sw)
        first = None
        for o in orders:
            err = None
            for sp, st in zip(o, args):
                err = match(sp, st, extra_strip)
                if err:
                    break
            if err is None:
                return None
            first = first or err
        return "in %s: %s" % (pat.spec, first)
    raise TypeError(pat)


class VF:
    """pattern: field `name` of variant `variant` of parameter i (Box derefs/casts transparent)"""
    def __init__(self, i, variant, name):
        self.i, self.variant, self.name = i, variant, str(name)

    def __repr__(self):
        return "(arg%d as %s).%s" % (self.i, self.variant, self.name)


class AggV:
    """pattern: enum variant constructor `Variant(ops..)` (Box::new around operands is stripped)"""
    def __init__(self, variant, *ops):
        self.variant, self.ops = variant, ops

    def __repr__(self):
        return "%s{%s}" % (self.variant, ", ".join(map(repr, self.ops)))


class T:
    """pattern: exactly this term"""
    def __init__(self, t):
        self.t = t

    def __repr__(self):
        return show(self.t)


_match0 = match


def expand(t):
    """one step of on-demand normalisation of a term that failed to match a template: a directly called closure is
    replaced by its body, a call to a private helper with a plain body (no loop, no unknown, not recursive) by that
    body, `array.map(f)` over an array literal by the array of applications, and projections of tuple/array literals
    are taken.  Returns None when nothing applies."""
    from . import canon
    prog = mir.CURRENT
    if prog is None:
        return None
    t = strip(t)
    if not isinstance(t, tuple) or not t:
        return None
    if t[0] == "field" and isinstance(t[1], tuple):
        inner = strip(t[1])
        if isinstance(inner, tuple) and inner and inner[0] == "agg" and inner[1] in ("tuple", "array") and str(t[2]).isdigit() \
                and int(t[2]) < len(inner[4]):
            return inner[4][int(t[2])]
        e = expand(inner)
        if e is not None:
            return ("field", e) + tuple(t[2:])
        return None
    if t[0] == "index" and isinstance(t[1], tuple):
        inner, k = strip(t[1]), strip(t[2])
        if isinstance(inner, tuple) and inner and inner[0] == "agg" and inner[1] == "array" and isinstance(k, tuple) and k[0] == "const" \
                and str(k[2]).isdigit() and int(k[2]) < len(inner[4]):
            return inner[4][int(k[2])]
        e = expand(inner)
        if e is not None:
            return ("index", e) + tuple(t[2:])
        return None
    if t[0] != "call":
        return None
    c, a = t[1], t[2]
    if c.name in ("call", "call_mut", "call_once") and len(a) == 2:
        clo, tup = canon._peel(a[0]), strip(a[1])
        if isinstance(clo, tuple) and clo and clo[0] == "agg" and clo[1] == "closure" and isinstance(tup, tuple) and tup and \
                tup[0] == "agg" and tup[1] == "tuple" and len(tup[4]) <= 2:
            return canon.apply_closure(prog, clo, *tup[4])
        return None
    if c.name == "map" and len(a) == 2 and "array" in (c.def_ or ""):
        arr, clo = strip(a[0]), canon._peel(a[1])
        if isinstance(arr, tuple) and arr and arr[0] == "agg" and arr[1] == "array" and isinstance(clo, tuple) and clo and clo[0] == "agg" \
                and clo[1] == "closure":
            els = [canon.apply_closure(prog, clo, x) for x in arr[4]]
            if all(e is not None for e in els):
                return arr[:4] + (tuple(els),) + tuple(arr[5:])
        return None
    if c.name in ("unwrap", "expect", "unwrap_unchecked") and a and ("ption" in (c.def_ or "")) and mir.is_call(strip(a[0])):
        # `checked_variant(args).expect(..)`: the one payload the checked variant of a crate function returns
        inner = strip(a[0])
        ic = inner[1]
        if ic.local or getattr(ic, "res_local", False):
            hs = [h for h in prog.resolve(ic) if "{closure" not in h.npath]
            if len(hs) == 1 and hs[0].terms.ret is not None:
                outs = canon.option_outcomes(prog, hs[0].terms, hs[0].terms.ret)
                if outs is not None and len(outs) == 1 and not canon.has_unknown(outs[0]):
                    return canon.subst(outs[0], {i + 1: x for i, x in enumerate(inner[2])})
        return None
    if c.local or getattr(c, "res_local", False):
        hs = [h for h in prog.resolve(c) if "{closure" not in h.npath]
        if len(hs) == 1 and hs[0].terms.ret is not None:
            r = hs[0].terms.ret
            if not canon.has_unknown(r) and not canon._calls(r, hs[0]):
                return canon.subst(r, {i + 1: x for i, x in enumerate(a)})
    return None


_EXPANDING = [0]


def match(pat, t, extra_strip=()):  # noqa: F811  (extends the matcher above)
    r = _match1(pat, t, extra_strip)
    if r is None or isinstance(pat, (ANY, Contains)) or _EXPANDING[0] >= 4:
        return r
    _EXPANDING[0] += 1
    try:
        e = expand(strip(t, extra_strip))
        if e is not None and _match1(pat, e, extra_strip) is None:
            return None
        if e is not None:
            r2 = match(pat, e, extra_strip)
            if r2 is None:
                return None
    finally:
        _EXPANDING[0] -= 1
    return r


class Mentions:
    """pattern: any term that contains, somewhere inside (arguments, captures of a closure literal), a sub-term matching
    each of the given patterns — "a function of these values", whatever the lookup is spelled like"""
    def __init__(self, *subs):
        self.subs = subs

    def __repr__(self):
        return "f(%s)" % ", ".join(repr(s_) for s_ in self.subs)


class Alt:
    """pattern: either of the given patterns (an entry point or the worker it forwards to, with the entry's constants)"""
    def __init__(self, *alts):
        self.alts = alts

    def __repr__(self):
        return " | ".join(repr(a) for a in self.alts)


def _match1(pat, t, extra_strip=()):
    if isinstance(pat, Alt):
        rs = [match(a, t, extra_strip) for a in pat.alts]
        return None if any(r is None for r in rs) else rs[0]
    if isinstance(pat, Mentions):
        from . import mir as _mir
        subs = [t] + list(_mir.subterms(t))
        for sp in pat.subs:
            if not any(_match1(sp, u, extra_strip) is None for u in subs
                       if isinstance(sp, (VF, T)) or True):
                return "expected a value computed from %r, found %s" % (sp, show(t))
        return None
    if isinstance(pat, VF):
        t = strip(t, extra_strip)
        want = ("as", ("param", pat.i), pat.variant)
        if isinstance(t, tuple) and t[0] == "field" and t[2] == pat.name and strip(t[1]) == want:
            return None
        return "expected %r, found %s" % (pat, show(t))
    if isinstance(pat, AggV):
        t = strip(t, extra_strip)
        if isinstance(t, tuple) and t[0] == "agg" and t[3] == pat.variant:
            if len(t[4]) != len(pat.ops):
                return "variant %s arity %d != %d" % (pat.variant, len(t[4]), len(pat.ops))
            for sp, st in zip(pat.ops, t[4]):
                r = match(sp, st, extra_strip)
                if r:
                    return r
            return None
        return "expected constructor %s, found %s" % (pat.variant, show(t))
    if isinstance(pat, T):
        return None if strip(t, extra_strip) == pat.t else "expected %s, found %s" % (show(pat.t), show(t))
    if isinstance(pat, (C, F, Agg)):
        # re-dispatch sub-patterns through this extended matcher
        return _match_ext(pat, t, extra_strip)
    return _match0(pat, t, extra_strip)


def _match_ext(pat, t, extra_strip):
    t = strip(t, extra_strip)
    if isinstance(pat, F):
        if isinstance(t, tuple) and t[0] == "field" and t[2] == pat.name:
            return match(pat.sub, t[1], extra_strip)
        return "expected field .%s, found %s" % (pat.name, show(t))
    if isinstance(pat, Agg):
        if isinstance(t, tuple) and t[0] == "agg" and (pat.name is None or (t[2] or "").endswith(pat.name)
                                                       or t[1] == pat.name):
            if len(t[4]) != len(pat.ops):
                return "aggregate arity %d != %d" % (len(t[4]), len(pat.ops))
            for sp, st in zip(pat.ops, t[4]):
                r = match(sp, st, extra_strip)
                if r:
                    return r
            return None
        return "expected aggregate %s, found %s" % (pat.name, show(t))
    if not (isinstance(t, tuple) and t[0] == "call"):
        return "expected call %s, found %s" % (pat.spec, show(t))
    if not callee_is(t[1], pat.spec):
        return "expected call to %s, found call to %s" % (pat.spec, t[1].key())
    args = t[2]
    if len(args) != len(pat.args):
        return "call %s: %d args, expected %d" % (pat.spec, len(args), len(pat.args))
    orders = [list(pat.args)]
    if pat.comm and len(pat.args) >= 2:
        sw = list(pat.args)
        sw[-1], sw[-2] = sw[-2], sw[-1]
        orders.append(sw)
    first = None
    for o in orders:
        err = None
        for sp, st in zip(o, args):
            err = match(sp, st, extra_strip)
            if err:
                break
        if err is None:
            return None
        first = first or err
    return "in %s: %s" % (pat.spec, first)


def gamma_arms(te, t):
    """for t = gamma(discr(x); arms): {variant name or label: term}; else None"""
    if not (isinstance(t, tuple) and t and t[0] == "gamma"):
        return None
    c = t[1]
    vm = te._discr_variants.get(c) if isinstance(c, tuple) and c[0] == "discr" else None
    out = {}
    for lab, v in t[2]:
        if vm and isinstance(lab, str) and lab in vm:
            out[vm[lab]] = v
        elif vm and isinstance(lab, tuple) and lab[0] == "not":
            rest = [n for val, n in vm.items() if val not in lab[1]]
            # a catch-all arm that matches on the same scrutinee again (one case peeled off by an `if let`,
            # the others in a following `match`): merge its arms
            inner = gamma_arms(te, strip(v)) if isinstance(strip(v), tuple) and strip(v) and strip(v)[0] == "gamma" and strip(v)[1] == c else None
            if inner:
                for k2, v2 in inner.items():
                    if k2 in rest or (isinstance(k2, tuple) and k2[0] == "rest"):
                        out.setdefault(k2, v2)
            else:
                out[("rest", tuple(sorted(rest)))] = v
        else:
            out[lab] = v
    return out


def bool_arms(t):
    """for t = gamma(cond; 0->a, not0->b) returns (cond, false_term, true_term) else None"""
    if not (isinstance(t, tuple) and t and t[0] == "gamma"):
        return None
    d = dict(t[2])
    f = d.get("0")
    tr = d.get(("not", ("0",)), d.get("1"))
    if f is None or tr is None or len(d) != 2:
        return None
    return t[1], f, tr



def verdict_of(errs):
    """messages starting with '?' say "shape not recognised": alone they make an instance undecided, never a violation"""
    if not errs:
        return OK
    return UNDECIDED if all(e.startswith("?") for e in errs) else VIOLATION


def errtext(errs):
    return "; ".join(e.lstrip("?") for e in errs)


def some_payload(prog, t):
    """X when t is the payload of Some(X) taken in a way that cannot yield anything else: `(X as Some).0`
    (a match whose None arm diverges), X.unwrap(), X.expect(..), or X.unwrap_or_else(f) with f diverging"""
    t = strip(t)
    if not (isinstance(t, tuple) and t):
        return None
    if t[0] == "field" and isinstance(t[1], tuple) and t[1][0] == "as" and t[1][2] == "Some" and t[2] == "0":
        return strip(t[1][1])
    if t[0] == "call" and t[1].name in ("unwrap", "expect") and "Option" in t[1].key():
        return strip(t[2][0])
    if t[0] == "call" and t[1].name == "unwrap_or_else" and "Option" in t[1].key() and len(t[2]) == 2:
        clo = strip(t[2][1])
        if isinstance(clo, tuple) and clo[0] == "agg" and clo[1] == "closure":
            fs = [g for g in prog.lib_fns if g.npath == clo[2]]
            if len(fs) == 1 and not any(b["term"]["k"] == "return" for b in fs[0].blocks):
                return strip(t[2][0])
    return None


_NEG = {"Lt": "Ge", "Le": "Gt", "Gt": "Le", "Ge": "Lt", "Eq": "Ne", "Ne": "Eq"}
_MIRROR = {"Lt": "Gt", "Le": "Ge", "Gt": "Lt", "Ge": "Le", "Eq": "Eq", "Ne": "Ne"}


def relation(c, val, lhs):
    """the comparison a branch fact (c, val) states about `lhs`, as (op, other) with lhs on the left:
    handles a false outcome (negated operator), mirrored operands and !(..)"""
    c = strip(c)
    truthy = val != "0"
    while isinstance(c, tuple) and c and c[0] == "un" and c[1] == "Not":
        c = strip(c[2])
        truthy = not truthy
    if not (isinstance(c, tuple) and c and c[0] == "bin" and c[1] in _NEG):
        return None
    op, a, b = c[1], strip(c[2]), strip(c[3])
    if not truthy:
        op = _NEG[op]
    if a == lhs:
        return op, b
    if b == lhs:
        return _MIRROR[op], a
    return None
