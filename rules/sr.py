"""SR — a serialised node is referred to by the position of its own row.

The BDD and SDD serialisers append one row per decision node to `nodes` and refer to nodes by row number, both in the
pointer they return and in the visited table that shared sub-diagrams are looked up in.  For every row push the rule
checks, on the CFG and the index term:

  * the row number is `nodes.len() - 1` with the `len()` evaluated *after* the push of that very row
    (the push dominates the `len`), and no recursive serialisation — which appends the rows of the children —
    lies between the push and the `len`;
  * that same index is what the visited table stores for the node and what the returned pointer carries.
"""
from . import mir
from .base import inst, OK, VIOLATION, UNDECIDED, strip
from .facts import CheckerError
from .mir import show


def run(prog):
    out = []
    n = 0
    for mod in ("ser_bdd::BDDSerializer", "ser_sdd::SDDSerializer"):
        fns = [g for g in prog.lib_fns if g.name == "serialize_helper" and mod in g.npath and "{closure" not in g.npath]
        if len(fns) != 1:
            raise CheckerError("SR: %s::serialize_helper not found" % mod)
        fn = fns[0]
        # the row may be appended by a private helper of the serialiser (`alloc(.., table, nodes)`): look there
        owner = fn
        from . import canon
        for g_ in canon.local_bodies(prog, fn, ok=lambda h: h.impl_self == fn.impl_self):
            if g_.kind != "Closure" and any(cs.callee.name == "push" and strip(cs.args[0])[0] == "param" and
                                            "Vec" in cs.callee.key() for cs in g_.terms.calls):
                if not any(cs.callee.name == "push" and "Vec" in cs.callee.key() and
                           (strip(cs.args[0])[0] == "param" or (strip(cs.args[0])[0] == "field" and strip(strip(cs.args[0])[1])[0] == "param"))
                           for cs in fn.terms.calls):
                    fn = g_
                break
        te, cfg = fn.terms, fn.cfg
        # the row list: a `&mut Vec<row>` parameter, or the `nodes` field of a `&mut self` serialiser
        def rowlist(t):
            t = strip(t)
            return t[0] == "param" or (t[0] == "field" and strip(t[1])[0] == "param")
        NP = next((strip(cs.args[0]) for cs in te.calls if cs.callee.name == "push" and rowlist(cs.args[0]) and "Vec" in cs.callee.key()), ("param", 3))
        NPS = show(NP)
        kids = {g.npath for g in prog.lib_fns if g.npath.startswith(fn.npath + "::{closure")}
        pushes = [cs for cs in te.calls if cs.callee.name == "push" and strip(cs.args[0]) == NP]
        lens = [cs for cs in te.calls if cs.callee.name == "len" and strip(cs.args[0]) == NP]
        recs = [cs for cs in te.calls if cs.callee.name == "serialize_helper" or
                (cs.callee.name in ("map", "for_each", "collect") and any(isinstance(a, tuple) and a and a[0] == "agg" and a[1] == "closure"
                                                                           and a[2] in kids for a in cs.args))]
        inserts = [cs for cs in te.calls if cs.callee.name == "insert" and "HashMap" in cs.callee.key()]
        if not pushes:
            raise CheckerError("SR: no row push in %s" % fn.npath)
        for k, p in enumerate(pushes):
            n += 1
            key = "%s:row-index#%d" % (fn.npath, k + 1)
            errs = []
            after = [l for l in lens if cfg.dominates(p.bb, l.bb) and p.bb != l.bb]
            # the len that belongs to this push: the closest one it dominates, not dominated by another push
            after = [l for l in after if not any(q is not p and cfg.dominates(p.bb, q.bb) and cfg.dominates(q.bb, l.bb) for q in pushes)]
            ins = [i for i in inserts if cfg.dominates(p.bb, i.bb)]
            ins = [i for i in ins if not any(q is not p and cfg.dominates(p.bb, q.bb) and cfg.dominates(q.bb, i.bb) for q in pushes)]
            # equivalent form: the number is nodes.len() read immediately *before* the push (no child in between)
            before = [l for l in lens if cfg.dominates(l.bb, p.bb) and l.bb != p.bb and
                      not any(cfg.dominates(l.bb, r.bb) and cfg.dominates(r.bb, p.bb) for r in recs) and
                      not any(q is not p and cfg.dominates(l.bb, q.bb) and cfg.dominates(q.bb, p.bb) for q in pushes)]
            pre_form = False
            if not after and before and ins and show(strip(ins[0].args[2])) == "len(%s)" % NPS:
                pre_form = True
            if pre_form:
                pass
            elif not after:
                errs.append("the row's number is not taken from nodes.len() after the row has been appended")
            else:
                l = after[0]
                between = [r for r in recs if cfg.dominates(p.bb, r.bb) and cfg.dominates(r.bb, l.bb)]
                if between:
                    errs.append("children are serialised (line %d) between appending the row and reading its number" % between[0].line)
            if not ins:
                errs.append("the node is not entered into the visited table after its row was appended")
            else:
                idx = strip(ins[0].args[2])
                if idx[0] == "agg" and idx[3] == "Ptr" and "index" in (idx[5] or ()):
                    # the table may store the finished pointer (index plus a flag): the row number inside it is what counts
                    # here; whether the flag may be re-used is CP's question, not this rule's
                    idx = strip(idx[4][idx[5].index("index")])
                s_ = show(idx)
                if not pre_form and not (s_.startswith("(len(%s) Sub" % NPS) and s_.rstrip(").0").endswith("1")):
                    errs.append("the visited table stores %s for the node, not nodes.len() - 1 taken after the push: shared "
                                "references then point at another row" % s_[:50])
                ptrs = [a[1] for a in te.aggs if a[0] == ins[0].bb and isinstance(a[1], tuple) and a[1][0] == "agg" and a[1][3] == "Ptr"]
                ptrs += [a[1] for a in te.aggs if isinstance(a[1], tuple) and a[1][0] == "agg" and a[1][3] == "Ptr" and
                         cfg.dominates(p.bb, a[0]) and a[0] != ins[0].bb and
                         not any(q is not p and cfg.dominates(p.bb, q.bb) and cfg.dominates(q.bb, a[0]) for q in pushes)]
                if not ptrs:
                    errs.append("?no pointer is built for the new row")
                for t in ptrs:
                    if strip(t[4][0]) != idx:
                        errs.append("the returned pointer carries index %s but the visited table stores %s"
                                    % (show(strip(t[4][0]))[:40], s_[:40]))
            out.append(inst("SR", key, VIOLATION if errs else OK, fn, p.line,
                            "; ".join(errs) if errs else "row number = nodes.len() - 1 after the push; table and pointer agree"))
    if n < 2:
        raise CheckerError("SR: only %d row pushes found (expected one per serialiser at least)" % n)
    out += roots(prog)
    return out


def roots(prog):
    """SR-root: the pointer a serialiser's public entry hands to its recursive helper is the caller's pointer itself.
    The helper decides for every kind of pointer how it is written (constants and literals as leaves carrying their own
    polarity, nodes as (row, complement flag)); an entry point that first rewrites the pointer (`to_reg`, a sign strip)
    and re-attaches "the" polarity afterwards is only right for the kinds whose image has a complement flag.  For a
    rewriting function the rule evaluates it per variant of the pointer type: a leaf variant (a constant, a literal)
    must be mapped to itself."""
    from . import canon
    out = []
    for f in prog.lib_fns:
        if "serialize::" not in f.npath or f.kind == "Closure" or "::test" in f.npath or f.name in ("serialize_helper",):
            continue
        for g in canon.local_bodies(prog, f, ok=lambda h: False):
            for cs in g.terms.calls:
                if cs.callee.name != "serialize_helper" or not cs.args or "serialize_helper" in g.npath:
                    continue
                # the pointer argument: the parameter of the helper whose type is the diagram pointer
                pi = 0
                hh = [h_ for h_ in prog.resolve(cs.callee) if h_.kind != "Closure"]
                if len(hh) == 1:
                    for i_ in range(len(cs.args)):
                        ty_ = hh[0].locals[i_ + 1]["s"] if i_ + 1 < len(hh[0].locals) else ""
                        if ("BddPtr" in ty_ or "SddPtr" in ty_) and "HashMap" not in ty_ and "Vec" not in ty_:
                            pi = i_
                            break
                a = strip(cs.args[pi])
                key = "%s:root-as-given" % f.npath
                base = a
                while base[0] in ("deref", "copy") or (mir.is_call(base) and base[1].name in ("clone", "copied", "cloned", "deref") and base[2]):
                    base = strip(base[1] if base[0] in ("deref", "copy") else base[2][0])
                if base[0] == "param" or (base[0] == "field" and "next(" in show(base)) or base[0] == "upvar":
                    out.append(inst("SR", key, OK, f, cs.line, "the helper is given the caller's pointer"))
                    continue
                if not (mir.is_call(a) and len(a[2]) == 1 and (a[1].local or getattr(a[1], "res_local", False))):
                    out.append(inst("SR", key, UNDECIDED, f, cs.line, "the helper is given %s" % show(a)[:50]))
                    continue
                hs = [h for h in prog.resolve(a[1]) if h.kind != "Closure"]
                adt = None
                for n_, d in prog.adts.items():
                    if n_.endswith("SddPtr") and "SddPtr" in show(a) + (hs[0].locals[1]["s"] if hs else ""):
                        adt = d
                    if n_.endswith("::BddPtr") and hs and "BddPtr" in hs[0].locals[1]["s"]:
                        adt = d
                if len(hs) != 1 or adt is None:
                    out.append(inst("SR", key, UNDECIDED, f, cs.line, "the helper is given %s" % show(a)[:50]))
                    continue
                h = hs[0]
                errs = []
                for var in adt["variants"]:
                    vn = var["name"]
                    if var["fields"] and any("&" in (fl.get("ty") or "") for fl in var["fields"]):
                        continue            # node variants: they carry a complement flag
                    rs = canon.paths_under(h, ("param", 1), vn)
                    if rs is None:
                        errs.append("?%s not evaluated for %s" % (h.name, vn))
                        continue
                    for r in rs:
                        r = strip(r)
                        same = r == ("param", 1) or (r[0] in ("deref", "copy") and strip(r[1]) == ("param", 1))
                        if r[0] == "agg" and r[3] == vn:
                            # rebuilt: every payload must be the original's
                            same = all(strip(o)[0] in ("field", "deref", "copy") and "param" in repr(strip(o)) for o in r[4])
                        if not same:
                            errs.append("`%s` maps the %s pointer to %s before it is serialised, and the polarity re-attached afterwards "
                                        "is dropped for leaves: a %s root is written as its opposite" % (h.name, vn, show(r)[:30], vn))
                out.append(inst("SR", key, VIOLATION if [e for e in errs if not e.startswith("?")] else (UNDECIDED if errs else OK), f, cs.line,
                                "; ".join(e.lstrip("?") for e in errs[:2]) if errs else "the rewriting `%s` is the identity on constants and literals" % h.name))
    return out
