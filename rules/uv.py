"""UV — the variable collector of s-expressions visits every sub-formula.

`LogicalSExpr::unique_variables` is what `variable_mapping` numbers the variables with, and `variable_mapping` is what
the parser (`LogicalExpr::from_sexpr`), the weights file and a configured order are all keyed by (MP one-ordering).  A
variable that occurs only in a sub-formula the collector skips gets no label: the parser then fails or, with a
defaulting lookup, aliases it to another variable.  Rule: in every return alternative of the collector the variant
of `self` is known (or excluded) from the branch facts, and
  * a variant with recursive fields returns a value that contains the recursive call on *each* of those fields,
    combined only by set union (`union`, `extend`, `insert`, chain/collect) — never by an intersecting/subtracting
    operation;
  * the `Var` variant returns a value containing its name;
  * a catch-all alternative may not cover a variant that has sub-formulas or a name.
"""
from . import mir
from .base import inst, OK, VIOLATION, UNDECIDED, strip
from .facts import CheckerError
from .mir import show
from .fd import alts, key_of, full_key

ADT = "serialize::ser_logical_expr::LogicalSExpr"
BAD_OPS = ("intersection", "difference", "symmetric_difference", "retain", "filter", "take", "skip", "step_by", "take_while",
           "skip_while", "is_disjoint")


def run(prog):
    fn = prog.find1(name="unique_variables", self_adt=ADT, unit="rsdd-lib")
    a = prog.adts.get(ADT)
    if not a:
        raise CheckerError("UV: enum %s not in the fact file" % ADT)
    variants = a["variants"]
    te = fn.terms
    key = "%s:visits-every-subformula" % fn.npath
    errs = []
    covered = set()
    n = 0
    for leaf, facts in alts(te, te.ret):
        n += 1
        s = full_key(te, leaf)
        cands = set(range(len(variants)))
        for c, v in facts:
            if isinstance(c, tuple) and c and c[0] == "discr" and key_of(c[1]) == "arg1":
                if isinstance(v, tuple) and v and v[0] == "not":
                    cands -= {int(x) for x in v[1] if str(x).isdigit()}
                elif isinstance(v, tuple) and v and v[0] == "in":
                    cands &= {int(x) for x in v[1] if str(x).isdigit()}
                elif str(v).isdigit():
                    cands &= {int(v)}
        if not cands:
            continue
        ops = [x[1].name for x in mir.subterms(leaf) if mir.is_call(x)] + [x[2].name for x in mir.subterms(leaf) if x[0] == "mut"]
        for vi in sorted(cands):
            V = variants[vi]
            covered.add(vi)
            rec_fields = [f["name"] for f in V["fields"] if ADT in f["ty"]]
            name_fields = [f["name"] for f in V["fields"] if "String" in f["ty"]]
            for f in rec_fields:
                if ("unique_variables(((arg1 as %s).%s" % (V["name"], f)) not in s and ("unique_variables((arg1 as %s).%s" % (V["name"], f)) not in s:
                    errs.append("%s: the variables of sub-formula .%s are not collected%s" % (
                        V["name"], f, " (variant handled by a catch-all alternative)" if len(cands) > 1 else ""))
            for f in name_fields:
                if ("(arg1 as %s).%s" % (V["name"], f)) not in s:
                    errs.append("%s: the variable's own name is not in the result" % V["name"])
            if rec_fields:
                bad = [o for o in ops if o in BAD_OPS]
                if bad:
                    errs.append("%s: the children's variable sets are combined with `%s`, which drops variables" % (V["name"], bad[0]))
    if errs:
        # the collector may work by effect: a private recursive worker that adds to an accumulator handed down by
        # `&mut` (`fn collect(&self, acc: &mut Set)`); then the obligations are about the worker's calls per variant
        eff = effect_mode(prog, fn, variants)
        if eff is not None:
            errs, n, covered = eff
    missing = [v["name"] for i, v in enumerate(variants) if i not in covered]
    if missing:
        errs.append("?no return alternative recognised for variant(s) %s" % ", ".join(missing))
    return [inst("UV", key, VIOLATION if errs else OK, fn, None,
                 "; ".join(dict.fromkeys(errs)) if errs else
                 "%d return alternatives cover the %d variants; every sub-formula is visited and the sets are united" % (n, len(variants)))]


def _variants_at(te, bb, nvar):
    cands = set(range(nvar))
    for c, v, _, _ in te.facts_at(bb):
        if isinstance(c, tuple) and c and c[0] == "discr" and key_of(c[1]) == "arg1":
            if isinstance(v, tuple) and v and v[0] == "not":
                cands -= {int(x) for x in v[1] if str(x).isdigit()}
            elif isinstance(v, tuple) and v and v[0] == "in":
                cands &= {int(x) for x in v[1] if str(x).isdigit()}
            elif str(v).isdigit():
                cands &= {int(v)}
    return cands


def effect_mode(prog, fn, variants):
    """(errs, number of worker call sites, covered variants) when `fn` delegates to a self-recursive worker over the
    enum that fills an accumulator; None when there is no such worker"""
    workers = []
    for cs in fn.terms.calls:
        if cs.callee.local:
            for g in prog.resolve(cs.callee):
                if g.impl_self == ADT and any(c2.callee.name == g.name and g in prog.resolve(c2.callee) for c2 in g.terms.calls):
                    workers.append(g)
    if len(workers) != 1:
        return None
    g = workers[0]
    te = g.terms
    errs, covered, n = [], set(), 0
    rec = [cs for cs in te.calls if cs.callee.name == g.name and g in prog.resolve(cs.callee)]
    # the recursion may sit in a closure handed to an iterator adaptor (`[a, b].into_iter().for_each(|e| e.collect(acc))`):
    # the adaptor's call site stands for it, with the iterated collection as what is visited
    from . import canon

    class _Via:
        def __init__(self, cs):
            self.bb, self.args, self.line = cs.bb, (cs.args[0],), cs.line
    for cs in te.calls:
        if cs.callee.name in ("for_each", "map", "fold", "try_for_each", "all", "any") and len(cs.args) >= 2:
            h = canon.closure_fn(prog, cs.args[-1])[0]
            if h is not None and any(c2.callee.name == g.name and g in prog.resolve(c2.callee) for c2 in h.terms.calls):
                rec.append(_Via(cs))
    adds = [cs for cs in te.calls if cs.callee.name in ("insert", "push", "extend", "replace", "get_or_insert")]
    bad_ops = [cs.callee.name for cs in te.calls if cs.callee.name in BAD_OPS or cs.callee.name in ("remove", "clear", "drain", "take")]
    for vi, V in enumerate(variants):
        rec_fields = [f["name"] for f in V["fields"] if ADT in f["ty"]]
        name_fields = [f["name"] for f in V["fields"] if "String" in f["ty"]]
        here = [cs for cs in rec if vi in _variants_at(te, cs.bb, len(variants))]
        # children gathered in an array / vec literal and visited in a loop (`for child in [a, b, c] { child.collect(acc) }`)
        arrays = [key_of(t) for bb_, t, _l in te.aggs if t[1] in ("array", "tuple") and vi in _variants_at(te, bb_, len(variants))]
        looped = [cs for cs in here if "(arg1 as" not in key_of(cs.args[0])]
        for f in rec_fields:
            want = "(arg1 as %s).%s" % (V["name"], f)
            hit = [cs for cs in here if want in key_of(cs.args[0])]
            if not hit and looped and any(want in a for a in arrays):
                hit = looped
            n += len(hit)
            if not hit and looped:
                errs.append("?%s: the worker `%s` is called on a value whose origin is not resolved (%s)" % (
                    V["name"], g.name, key_of(looped[0].args[0])[:40]))
            elif not hit:
                errs.append("%s: the worker `%s` is not called on sub-formula .%s" % (V["name"], g.name, f))
            else:
                covered.add(vi)
        for f in name_fields:
            want = "(arg1 as %s).%s" % (V["name"], f)
            hit = [cs for cs in adds if vi in _variants_at(te, cs.bb, len(variants)) and any(want in key_of(a) for a in cs.args[1:])]
            if not hit:
                errs.append("%s: the variable's own name is not added to the accumulator" % V["name"])
            else:
                covered.add(vi)
        if not rec_fields and not name_fields:
            covered.add(vi)
    if bad_ops:
        errs.append("the worker `%s` also removes from the accumulator (`%s`)" % (g.name, bad_ops[0]))
    return errs, max(n, 1), covered
