"""UL — an undo log records only what happened.

A type that keeps a set and undoes removals from it with a log (`trail`): when a method removes an element from the
set field X and pushes the same element onto a log field T, and a sibling method takes entries from T and inserts
them into X, the push must depend on the removal having removed something (`if set.remove(x) { log.push(x) }`, or a
`contains` test before it).  A log entry for a removal that removed nothing makes the undo *insert an element that
was not there before the operation it undoes*: an element that was never in the set (a clause the constructor left
out), or one an outer frame had already removed (undoing the inner frame resurrects it while the outer decision is
still in force).  The rule fires only on that exact contradiction — removal result unused, unconditional log entry,
a sibling that replays the log into the set; any other bookkeeping scheme (stamps, copies, counters) has no instance.
"""
from . import mir
from .base import inst, OK, VIOLATION, strip
from .mir import show, strip_refs

SETS = ("HashSet", "BTreeSet", "BitSet")
TAKERS = ("pop", "drain", "split_off", "into_iter", "take", "truncate", "iter", "last")


def self_fields(t):
    """names of fields of the first parameter mentioned in t"""
    got = set()

    def visit(x):
        if x[0] == "field" and isinstance(x[1], tuple) and strip_refs(x[1]) == ("param", 1):
            got.add(x[2])
    if isinstance(t, tuple):
        mir.walk(t, visit)
    return got


def elem(t):
    t = strip_refs(t)
    while isinstance(t, tuple) and t and t[0] in ("deref", "copy", "ref"):
        t = strip_refs(t[1])
    if isinstance(t, tuple) and t and t[0] == "call" and t[1].name in ("clone", "deref") and t[2]:
        return elem(t[2][0])
    return t


def is_set_call(cs, name):
    return cs.callee.name == name and any(s in cs.callee.key() for s in SETS) and cs.args


def run(prog):
    out = []
    by_self = {}
    for fn in prog.lib_fns:
        if fn.impl_self and "{closure" not in fn.npath and "::tests::" not in fn.npath:
            by_self.setdefault(fn.impl_self, []).append(fn)
    for adt, fns in sorted(by_self.items()):
        # methods that replay a log field into a set field: (set field, log field)
        replays = set()
        for g in fns:
            bodies = [g] + [c for c in prog.lib_fns if c.npath.startswith(g.npath + "::{closure")]
            ins_fields, taken = set(), set()
            for b in bodies:
                for cs in b.terms.calls:
                    if is_set_call(cs, "insert") or is_set_call(cs, "extend"):
                        ins_fields |= self_fields(cs.args[0])
                    if cs.callee.name in TAKERS and "Vec" in cs.callee.key() and cs.args:
                        taken |= self_fields(cs.args[0])
            for x in ins_fields:
                for t in taken:
                    if x != t:
                        replays.add((x, t, g.name))
        if not replays:
            continue
        for f in fns:
            te = f.terms
            rem = [cs for cs in te.calls if is_set_call(cs, "remove")]
            if not rem:
                continue
            pushes = [cs for cs in te.calls if cs.callee.name == "push" and "Vec" in cs.callee.key() and len(cs.args) >= 2]
            for r in rem:
                xs = self_fields(r.args[0])
                for p in pushes:
                    ts = self_fields(p.args[0])
                    hit = [(x, t, gname) for (x, t, gname) in replays if x in xs and t in ts and gname != f.name]
                    if not hit or elem(r.args[1]) != elem(p.args[1]):
                        continue
                    x, t, gname = hit[0]
                    # is the push conditional on the removal's result, or on a membership test of the same set?
                    guarded = False
                    for c, lab, _, _ in te.facts_at(p.bb):
                        for sub in [c] + list(mir.subterms(c)):
                            if mir.is_call(sub) and sub[1].name in ("remove", "contains") and any(s in sub[1].key() for s in SETS) \
                                    and sub[2] and x in self_fields(sub[2][0]):
                                guarded = True
                    key = "%s:%s<-%s" % (f.npath, x, t)
                    if guarded:
                        out.append(inst("UL", key, OK, f, p.line,
                                        "`%s` gets an entry only when the element was in `%s`" % (t, x)))
                    else:
                        out.append(inst("UL", key, VIOLATION, f, p.line,
                                        "%s removes %s from self.%s without looking at the result and logs it on self.%s all the same; "
                                        "%s replays that log into self.%s: undoing re-inserts elements that were not in the set when they "
                                        "were 'removed' (never there, or already removed by an enclosing frame that is still open)"
                                        % (f.name, show(elem(r.args[1]))[:40], x, t, gname, x)))
    return out
