"""WI — watcher-list traversal makes exactly one kind of progress per iteration.

UnitPropagate::decide walks the watch list of the falsified literal with an index.  On an
iteration that removes the current entry (`swap_remove(idx)`: the last entry is swapped into the
slot) the index must stay; on an iteration that keeps the entry (clause satisfied, or unit
propagated) the index advances by exactly one.  Advancing after a removal skips the swapped-in
clause — it is then never examined for this decision, so a unit or a conflict is missed.
"""
from . import mir
from .base import inst, OK, VIOLATION, UNDECIDED, strip
from .facts import CheckerError
from .mir import show


def run(prog):
    fn = prog.find1(name="decide", self_adt="repr::unit_prop::UnitPropagate", unit="rsdd-lib")
    te = fn.terms
    cfg = fn.cfg
    # the cursor is the loop-carried local handed to swap_remove (whatever it is called)
    idx_local = None
    for cs in te.calls:
        if cs.callee.name == "swap_remove" and len(cs.args) == 2:
            for x in mir.subterms(cs.args[1]):
                if x[0] == "mu":
                    idx_local = x[2]
                    break
    if idx_local is None:
        raise CheckerError("WI: no loop-carried cursor is passed to swap_remove in UnitPropagate::decide")
    headers = [h for (h, l) in te.mu_init if l == idx_local]
    if not headers:
        raise CheckerError("WI: watcher_idx is not loop-carried")
    # outermost loop carrying the index
    h = min(headers, key=lambda x: cfg.rpo_index[x])
    body = cfg.loop_headers[h]
    rm_bbs = {cs.bb for cs in te.calls if cs.callee.name == "swap_remove"}
    inc_bbs = set()
    for b in body:
        for st in fn.blocks[b]["stmts"]:
            if st["k"] == "assign" and st["lhs"]["l"] == idx_local and not st["lhs"]["proj"]:
                inc_bbs.add(b)
    if not rm_bbs or not inc_bbs:
        raise CheckerError("WI: expected swap_remove and index increments in the loop (found %d/%d)" % (len(rm_bbs), len(inc_bbs)))
    inner_back = {(u, hh) for (u, hh) in cfg.back_edges if hh != h}
    results = set()
    examples = {}

    def step_consts(b, consts):
        """constant booleans assigned in block b (a tiny constant propagation along the path, so that
        flag variables such as `is_sat` correlate the branches they guard)"""
        c = dict(consts)
        for st in fn.blocks[b]["stmts"]:
            if st["k"] != "assign" or st["lhs"]["proj"]:
                continue
            l = st["lhs"]["l"]
            rv = st["rv"]
            if rv["k"] == "use":
                op = rv["op"]
                if op["k"] == "const" and op.get("ty") == "bool" and "val" in op:
                    c[l] = op["val"] == "1"
                    continue
                if op["k"] in ("copy", "move") and not op["place"]["proj"] and op["place"]["l"] in c:
                    c[l] = c[op["place"]["l"]]
                    continue
            c.pop(l, None)
        t = fn.blocks[b]["term"]
        if t["k"] == "call" and not t["dest"]["proj"]:
            c.pop(t["dest"]["l"], None)
        return c

    def succs(b, consts):
        t = fn.blocks[b]["term"]
        if t["k"] == "switch" and t["op"]["k"] in ("copy", "move") and not t["op"]["place"]["proj"] \
                and t["op"]["place"]["l"] in consts:
            v = consts[t["op"]["place"]["l"]]
            for val, tgt in t["targets"]:
                if (val == "1") == v and val in ("0", "1"):
                    return [tgt]
            return [t["otherwise"]]
        return cfg.succ[b]

    def dfs(b, rm, inc, seen, trail, consts):
        if len(results) > 64:
            return
        consts = step_consts(b, consts)
        for s in succs(b, consts):
            if (b, s) in inner_back or s not in body:
                continue
            if s == h:
                results.add((rm, min(inc, 2)))
                examples.setdefault((rm, min(inc, 2)), trail + [b])
                continue
            if s in seen:
                continue
            dfs(s, rm or (s in rm_bbs), inc + (1 if s in inc_bbs else 0), seen | {s}, trail + [b], consts)
    dfs(h, False, 0, {h}, [], {})
    out = []
    bad = []
    for (rm, inc) in sorted(results):
        if rm and inc > 0:
            ln = [fn.blocks[b]["term"].get("line") for b in examples[(rm, inc)] if b in inc_bbs or b in rm_bbs]
            bad.append("an iteration both removes the current watcher (swap_remove) and advances the index (lines %s): the clause "
                       "swapped into the slot is skipped for this decision" % ln)
        if inc > 1:
            bad.append("an iteration advances the index twice")
    out.append(inst("WI", "%s:index-progress" % fn.npath, VIOLATION if bad else OK, fn, None,
                    "; ".join(bad) if bad else "per iteration: remove-and-stay or keep-and-advance (%s)" % sorted(results)))
    return out
