"""RN — reduce and normalise before interning.

RN1  in logical BDD operations every BddNode::new(v,l,h) that is interned is dominated by the
     false edge of a test `l == h` (equal cofactors return the child instead).
RN2  RobddBuilder::get_or_insert: the Reg result is reached only when the high child is neither
     complemented nor false; otherwise both children are negated and the result is wrapped Compl.
RN3  SDD: unique_bdd interns only after the equal-children test and high-edge normalisation;
     unique_or sorts before every SddOr::new and negates all subs when normalising the sign;
     CompressionSddBuilder::canonicalize = base cases, compress (if enabled), base cases, unique_or.
"""
from . import mir, canon
from .base import inst, OK, VIOLATION, UNDECIDED, strip
from .facts import CheckerError
from .mir import show


def has_fact(te, bb, pred, truth):
    """is `pred` known to be `truth` at bb?  A test written the other way round counts: `a != b` true is `a == b`
    false, `!p` true is `p` false"""
    for c, val, _, d in te.facts_at(bb):
        c = strip(c)
        holds = val != "0"
        while isinstance(c, tuple) and c and c[0] == "un" and c[1] == "Not":
            c, holds = strip(c[2]), not holds
        if pred(c) and holds == truth:
            return True
        # the same comparison with the opposite operator
        flipped = None
        if isinstance(c, tuple) and c and c[0] == "bin" and c[1] in ("Ne", "Eq"):
            flipped = ("bin", "Eq" if c[1] == "Ne" else "Ne") + tuple(c[2:])
        elif isinstance(c, tuple) and c and c[0] == "call" and c[1].name in ("ne", "eq") and hasattr(c[1], "renamed"):
            flipped = ("call", c[1].renamed("eq" if c[1].name == "ne" else "ne")) + tuple(c[2:])
        if flipped is not None and pred(flipped) and (not holds) == truth:
            return True
    return False


BDD_VARIANTS = {"Compl", "Reg", "PtrTrue", "PtrFalse"}


def possible_variants(te, bb, x):
    """variants a BddPtr-valued term x can have at block bb, from the dominating branch facts
    (is_neg / is_false / is_true tests and matches on x's discriminant)"""
    poss = set(BDD_VARIANTS)
    for c, val, vm, _ in te.facts_at(bb):
        c = strip(c)
        if c[0] == "call" and c[1].name in ("is_neg", "is_false", "is_true", "is_const") and c[2] and strip(c[2][-1]) == x:
            sel = {"is_neg": {"Compl"}, "is_false": {"PtrFalse"}, "is_true": {"PtrTrue"}, "is_const": {"PtrTrue", "PtrFalse"}}[c[1].name]
            poss &= sel if val != "0" else (BDD_VARIANTS - sel)
        if c[0] == "discr" and strip(c[1]) == x and vm:
            def names(labels):
                return {vm.get(str(l), str(l)) for l in labels}
            if isinstance(val, tuple) and val[0] == "in":
                poss &= names(val[1])
            elif isinstance(val, tuple) and val[0] == "not":
                poss -= names(val[1])
            else:
                poss &= names([val])
    return poss


def eq_of(a, b):
    def p(c):
        if c[0] == "bin" and c[1] == "Eq":
            return {repr(strip(c[2])), repr(strip(c[3]))} == {repr(strip(a)), repr(strip(b))}
        if c[0] == "call" and c[1].name in ("eq", "sdd_eq") and len(c[2]) >= 2:
            return {repr(strip(c[2][-2])), repr(strip(c[2][-1]))} == {repr(strip(a)), repr(strip(b))}
        return False
    p.operands = (a, b)
    return p


def rn1(prog):
    out = []
    R = "builder::bdd::robdd::RobddBuilder"
    for name in ("ite_helper", "cond_with_alloc"):
        fn = prog.find1(name=name, self_adt=R, unit="rsdd-lib")
        te = fn.terms
        news = [cs for cs in te.calls if cs.callee.name == "new" and "BddNode" in cs.callee.key()]
        if not news:
            raise CheckerError("RN1: %s builds no node" % name)
        for i, cs in enumerate(news):
            l, h = cs.args[1], cs.args[2]
            ok = has_fact(te, cs.bb, eq_of(l, h), False)
            out.append(inst("RN", "%s:RN1:new#%d" % (fn.npath, i), OK if ok else VIOLATION, fn, cs.line,
                            "node built only on the false edge of low == high" if ok else
                            "BddNode::new(%s, %s) is not dominated by a test that its children differ: a node with "
                            "identical children can be interned (the diagram is no longer reduced, equal functions get "
                            "different pointers)" % (show(l)[:60], show(h)[:60])))
    return out


def _proj(t):
    """tuple{a, b}.0 -> a, recursively"""
    if not isinstance(t, tuple) or not t:
        return t
    if t[0] == "call":
        return (t[0], t[1], tuple(_proj(a) for a in t[2])) + tuple(t[3:])
    t = tuple(_proj(a) if isinstance(a, tuple) else a for a in t)
    if t[0] == "field" and isinstance(t[1], tuple) and t[1] and t[1][0] == "agg" and t[1][1] in ("tuple", "array") and \
            str(t[2]).isdigit() and int(t[2]) < len(t[1][4]):
        return t[1][4][int(t[2])]
    return t


def rn2(prog):
    """RobddBuilder::get_or_insert evaluated for each variant of the node's high child (canon.paths_under: branch
    conditions on that variant are folded, joins resolved by the path): a complemented or false high child gives
    Compl(intern(var, ¬low, ¬high)), anything else Reg(intern(var, low, high)) — whatever the control flow looks like."""
    out = []
    fn = prog.find1(name="get_or_insert", self_adt="builder::bdd::robdd::RobddBuilder", unit="rsdd-lib")
    node = ("param", 2)
    fld = lambda n: ("field", node, n, "repr::bdd::BddNode")
    res = {}
    for v in ("PtrTrue", "PtrFalse", "Reg", "Compl"):
        r = canon.paths_under(fn, fld("high"), v)
        res[v] = None if r is None else [strip(_proj(x)) for x in r]

    def shape(t):
        """('Reg'|'Compl', plain|negated|other) of a returned pointer"""
        if not (isinstance(t, tuple) and t and t[0] == "agg" and t[3] in ("Reg", "Compl")):
            return None
        src = strip(t[4][0])
        if not (mir.is_call(src, "get_or_insert") and mir.is_call(strip(src[2][-1]), "new")):
            return (t[3], "other")
        a = [strip(x) for x in strip(src[2][-1])[2]]
        if a == [fld("var"), fld("low"), fld("high")]:
            return (t[3], "plain")
        if len(a) == 3 and a[0] == fld("var") and mir.is_call(a[1], "neg") and strip(a[1][2][0]) == fld("low") and \
                mir.is_call(a[2], "neg") and strip(a[2][2][0]) == fld("high"):
            return (t[3], "negated")
        return (t[3], "other")

    for want, variants, key in (("Reg", ("PtrTrue", "Reg"), "RN2:Reg"), ("Compl", ("PtrFalse", "Compl"), "RN2:Compl")):
        errs, und = [], []
        for v in variants:
            if not res[v]:
                und.append("no return value evaluated for a %s high child" % v)
                continue
            for t in res[v]:
                sh = shape(t)
                if sh is None:
                    und.append("for a %s high child the function returns %s" % (v, show(t)[:60]))
                elif want == "Reg" and sh[0] == "Compl":
                    errs.append("a node with a %s high child is interned complemented" % v)
                elif want == "Compl" and sh[0] == "Reg":
                    errs.append("Reg(..) is reachable with a %s high child" % {"Compl": "complemented", "PtrFalse": "false"}[v])
                elif want == "Reg" and sh[1] != "plain":
                    errs.append("Reg wraps %s, not the node (var, low, high) as given" % show(strip(t[4][0]))[:100])
                elif want == "Compl" and sh[1] != "negated":
                    errs.append("Compl must wrap the node (var, ¬low, ¬high); found %s" % show(strip(t[4][0]))[:120])
        verdict = VIOLATION if errs else (UNDECIDED if und else OK)
        out.append(inst("RN", "%s:%s" % (fn.npath, key), verdict, fn, None,
                        "; ".join(sorted(set(errs))[:3]) if errs else ("; ".join(und[:2]) if und else
                        ("Reg(node as given) exactly for a regular, non-false high edge" if want == "Reg" else
                         "Compl(node(var, ¬low, ¬high)) exactly for a complemented or false high edge"))))
    return out


def rn3(prog):
    out = []
    SB = "builder::sdd::builder::SddBuilder"
    fn = prog.find1(name="unique_bdd", in_trait=SB, unit="rsdd-lib")
    te = fn.terms
    b = ("param", 2)
    hi, lo = ("call", "high"), ("call", "low")
    gets = [cs for cs in te.calls if cs.callee.name == "get_or_insert_bdd"]
    if len(gets) < 1:
        raise CheckerError("RN3: unique_bdd never interns")
    for i, cs in enumerate(gets):
        errs = []
        is_hi = lambda x: mir.is_call(x, "high") and strip(x[2][0]) == b
        is_lo = lambda x: mir.is_call(x, "low") and strip(x[2][0]) == b
        if not has_fact(te, cs.bb, lambda c: c[0] == "call" and c[1].name in ("eq", "sdd_eq") and
                        ((is_hi(strip(c[2][-2])) and is_lo(strip(c[2][-1]))) or (is_lo(strip(c[2][-2])) and is_hi(strip(c[2][-1])))), False):
            errs.append("interned without the equal-children test")
        arg = strip(cs.args[1])
        if arg == b:
            for nm in ("is_neg", "is_false", "is_neg_var"):
                if not has_fact(te, cs.bb, lambda c, nm=nm: mir.is_call(c, nm) and is_hi(strip(c[2][-1])), False):
                    errs.append("un-normalised node interned although high may satisfy %s" % nm)
            kind = "as-given"
        else:
            ok = mir.is_call(arg, "new") and len(arg[2]) == 4 and mir.is_call(strip(arg[2][1]), "neg") and \
                is_lo(strip(strip(arg[2][1])[2][0])) and mir.is_call(strip(arg[2][2]), "neg") and is_hi(strip(strip(arg[2][2])[2][0]))
            if not ok:
                errs.append("normalised node is not (label, ¬low, ¬high, index): %s" % show(arg)[:100])
            # result must be negated back
            negs = [c2 for c2 in te.calls if c2.callee.name == "neg" and strip(c2.args[0]) == cs.term]
            if not negs:
                errs.append("result of interning the negated node is not negated back")
            kind = "negated"
        out.append(inst("RN", "%s:RN3:intern-%s" % (fn.npath, kind), VIOLATION if errs else OK, fn, cs.line,
                        "; ".join(errs) if errs else "interned after equal-children test, %s" % kind))
    fn = prog.find1(name="unique_or", in_trait=SB, unit="rsdd-lib")
    te = fn.terms
    news = [cs for cs in te.calls if cs.callee.name == "new" and "SddOr" in cs.callee.key()]
    if not news:
        raise CheckerError("RN3: unique_or builds no SddOr")
    for i, cs in enumerate(news):
        sorted_ = any(x[0] == "mut" and x[2].name in ("sort_by_key", "sort", "sort_by", "sort_unstable_by_key")
                      for x in mir.subterms(cs.args[0]))
        out.append(inst("RN", "%s:RN3:sorted#%d" % (fn.npath, i), OK if sorted_ else VIOLATION, fn, cs.line,
                        "element list is sorted before SddOr::new" if sorted_ else
                        "SddOr::new(%s) is built from an unsorted element list: equal decompositions get different "
                        "nodes" % show(cs.args[0])[:80]))
    # sign normalisation: the interning whose result is negated uses elements rebuilt with negated subs
    gets = [cs for cs in te.calls if cs.callee.name == "get_or_insert_sdd"]
    for i, cs in enumerate(gets):
        negated_back = any(c2.callee.name == "neg" and strip(c2.args[0]) == cs.term for c2 in te.calls)
        rebuilt = any(x[0] == "mut" and x[2].name == "iter_mut" for x in mir.subterms(cs.args[1]))
        errs = []
        if negated_back != rebuilt:
            errs.append("sign normalisation is one-sided: subs negated=%s, result negated=%s" % (rebuilt, negated_back))
        if not negated_back:
            for nm in ("is_neg", "is_false", "is_neg_var"):
                if not has_fact(te, cs.bb, lambda c, nm=nm: mir.is_call(c, nm), False):
                    errs.append("un-normalised decomposition interned although the first sub may satisfy %s" % nm)
        out.append(inst("RN", "%s:RN3:sign#%s" % (fn.npath, "negated" if negated_back else "as-given"),
                        VIOLATION if errs else OK, fn, cs.line,
                        "; ".join(errs) if errs else "first-sub sign normalisation is symmetric"))
    if rebuilt_check(prog, fn):
        out.append(rebuilt_check(prog, fn))
    # canonicalize order
    fn = prog.find1(name="canonicalize", self_adt="builder::sdd::compression::CompressionSddBuilder", unit="rsdd-lib")
    te = fn.terms
    cfg = fn.cfg
    base = [cs for cs in te.calls if cs.callee.name == "canonicalize_base_case"]
    comp = [cs for cs in te.calls if cs.callee.name == "compress"]
    uo = [cs for cs in te.calls if cs.callee.name == "unique_or"]
    errs = []
    # path rule: along every path to a return the calls come in the order  B [C B] [U]  (B = trimming base cases,
    # C = compress, U = unique_or): never intern or compress untrimmed, never intern a compressed list untrimmed
    tok = {}
    for cs in base:
        tok[cs.bb] = "B"
    for cs in comp:
        tok[cs.bb] = "C"
    for cs in uo:
        tok[cs.bb] = "U"
    seqs = set()

    def walk(b, seq, seen):
        if len(seqs) > 200 or len(seen) > 400:
            return
        seq = seq + tok.get(b, "")
        t = fn.blocks[b]["term"]
        if t["k"] == "return":
            seqs.add(seq)
            return
        for s_ in cfg.succ[b]:
            if s_ in seen or fn.blocks[s_]["term"]["k"] == "unreachable" or fn.blocks[s_].get("cleanup"):
                continue
            walk(s_, seq, seen | {s_})
    if not base or not comp or not uo:
        errs.append("?expected the trimming base cases, compress and unique_or in canonicalize; found %d/%d/%d calls" % (len(base), len(comp), len(uo)))
    elif fn.cfg.loop_headers:
        errs.append("?canonicalize contains a loop")
    else:
        walk(0, "", {0})
        import re as _re
        for q in sorted(seqs):
            if _re.fullmatch(r"B(CB)?U?", q):
                continue
            if q.startswith("C") or q.startswith("U"):
                errs.append("a path %s the list before the trimming base cases (call order %s)" % ("compresses" if q[0] == "C" else "interns", q))
            elif "CU" in q:
                errs.append("after compression the trimming base cases can be skipped before interning (call order %s)" % q)
            else:
                errs.append("a path calls the canonicalisation steps in the order %s" % q)
        if not any("C" in q for q in seqs):
            errs.append("no path compresses")
        for cs in comp:
            if not has_fact(te, cs.bb, lambda c: c[0] == "field" and c[2] == "should_compress", True):
                errs.append("compress is not conditional on the compression switch")
    out.append(inst("RN", "%s:RN3:order" % fn.npath, VIOLATION if errs else OK, fn, None,
                    "; ".join(errs) if errs else "trim, compress (if enabled), trim, unique_or"))
    # who may hand an element list to unique_or (sort + sign + intern, *no* trimming or compression):
    # only `canonicalize` implementations, plus the explicitly reasoned exceptions
    n_callers = 0
    for f in prog.lib_fns:
        sites = [cs for cs in f.terms.calls if cs.callee.name == "unique_or"] if any(
            b["term"]["k"] == "call" for b in f.blocks) else []
        if not sites:
            continue
        n_callers += 1
        if f.name == "canonicalize":
            ok, why = True, "canonicalize is the trimming/compressing front end of unique_or"
        elif f.name in UNIQUE_OR_EXCEPTIONS:
            ok, why = True, UNIQUE_OR_EXCEPTIONS[f.name]
        else:
            part = _binary_partition(prog, f, sites[0])
            if part is not None:
                # a two-element node {(p, x), (¬p, y)} written out in place: the primes partition by construction; it is
                # compressed and trimmed iff x ≠ y, which the operands decide
                v, why = part
                out.append(inst("RN", "%s:RN3:unique_or-caller" % f.npath, v, f, sites[0].line, why))
                continue
            ok, why = False, ("%s (line %d) hands an element list straight to unique_or, which sorts and interns but neither "
                              "trims nor compresses: equal subs / a single ⊤ prime would be stored as a distinct node; "
                              "go through canonicalize" % (f.name, sites[0].line))
        out.append(inst("RN", "%s:RN3:unique_or-caller" % f.npath, OK if ok else VIOLATION, f, sites[0].line, why))
    if n_callers < 3:
        raise CheckerError("RN3: only %d callers of unique_or found (expected canonicalize ×2, and_indep)" % n_callers)
    # primes are non-false: an element whose prime is *computed* (a conjunction of two primes, a conditioned prime) can
    # be ⊥ and is only pushed when that very value has been tested; nothing downstream (compress, the trimming base
    # cases, unique_or) removes an element with a false prime
    n_p = 0
    for f in prog.lib_fns:
        if not f.npath.startswith("builder::sdd") or "::test" in f.npath or not any(b["term"]["k"] == "call" for b in f.blocks):
            continue
        te = f.terms
        k = 0
        for cs in te.calls:
            if cs.callee.name != "push" or len(cs.args) != 2:
                continue
            v = strip(cs.args[1])
            if not (mir.is_call(v, "new") and "SddAnd" in v[1].key() and len(v[2]) == 2):
                continue
            p = strip(v[2][0])
            if not (p[0] == "call" and p[1].name in ("and", "or", "condition", "ite", "negate", "exists", "compose", "xor", "iff")):
                continue      # the prime of an existing node, a literal: non-false already
            k += 1
            n_p += 1
            tested = [strip(c[2][-1]) for c, val, _, _ in te.facts_at(cs.bb)
                      if mir.is_call(strip(c), "is_false") and val == "0" for c in [strip(c)]]
            # the converse: an element is left out only because its *prime* is empty.  Dropping it on a test of its sub
            # (a false sub "contributes nothing") leaves the remaining primes short of a partition: trimming, compression
            # and negation all read "the primes are exhaustive" off the node
            sub = strip(v[2][1])
            if sub in tested and sub != p:
                out.append(inst("RN", "%s:RN3:exhaustive-primes#%d" % (f.npath, k), VIOLATION, f, cs.line,
                                "the element (%s, %s) is pushed only when its sub is not ⊥: the primes of the node built here no "
                                "longer cover everything, and its negation (which complements the subs and relies on exhaustive "
                                "primes) denotes the wrong function" % (show(p)[:30], show(sub)[:30])))
            else:
                out.append(inst("RN", "%s:RN3:exhaustive-primes#%d" % (f.npath, k), OK, f, cs.line,
                                "no element is left out on a test of its sub"))
            key = "%s:RN3:nonfalse-prime#%d" % (f.npath, k)
            if p in tested:
                out.append(inst("RN", key, OK, f, cs.line, "the computed prime %s is pushed only after is_false(it) failed" % show(p)[:50]))
            else:
                inner = [q for q in tested if any(x == q for x in mir.subterms(p))]
                other = [c for c, val, _, _ in te.facts_at(cs.bb) if any(x == p for x in mir.subterms(c))]
                if other and not inner:
                    out.append(inst("RN", key, UNDECIDED, f, cs.line, "the computed prime is tested by %s, which the rule does not read" % show(other[0])[:60]))
                    continue
                out.append(inst("RN", key, VIOLATION, f, cs.line,
                                ("the element's prime is %s, but the emptiness test in front of the push is on %s — the value "
                                 "before the operation, which is never false: an element whose prime became ⊥ is kept, and the "
                                 "node that is interned has a false prime (two pointers for one function)"
                                 % (show(p)[:60], show(inner[0])[:50])) if inner else
                                ("the element's prime %s is computed and pushed without having been tested against ⊥: an empty "
                                 "prime stays in the node" % show(p)[:60])))
    # the same obligation for elements built by an iterator chain: `iter.map(|a| SddAnd::new(op(prime(a)), ..)).collect()`
    # keeps every element, also those whose computed prime is ⊥, unless a later `filter` of the chain tests the prime
    for f in prog.lib_fns:
        if not f.npath.startswith("builder::sdd") or "::test" in f.npath or "{closure" in f.npath:
            continue
        te = f.terms
        k = 0
        for cs in te.calls:
            if cs.callee.name not in ("map", "flat_map") or len(cs.args) != 2:
                continue
            clo = strip(cs.args[1])
            if not (isinstance(clo, tuple) and clo and clo[0] == "agg" and clo[1] == "closure"):
                continue
            kids = [g for g in prog.children(f) if g.npath == clo[2]]
            if len(kids) != 1 or kids[0].terms.ret is None:
                continue
            g = kids[0]
            built = [strip(t) for t in g.terms.ret_by_block.values()]
            built = [v for v in built if mir.is_call(v, "new") and "SddAnd" in v[1].key() and len(v[2]) == 2]
            for v in built:
                pr = strip(v[2][0])
                if not (pr[0] == "call" and pr[1].name in ("and", "or", "condition", "ite", "negate", "exists", "compose", "xor", "iff")):
                    continue
                k += 1
                n_p += 1
                key = "%s:RN3:nonfalse-prime#map%d" % (f.npath, k)
                # a filter further down the same chain whose predicate asks is_false
                filt = sub_filter = False
                for cs2 in te.calls:
                    if cs2.callee.name in ("filter", "filter_map", "take_while", "skip_while") and len(cs2.args) == 2 and \
                            any(mir.is_call(x, cs.callee.name) and len(x) > 3 and x[3] and x[3][0] == cs.bb for x in [strip(cs2.args[0])] + list(mir.subterms(cs2.args[0]))):
                        c2 = strip(cs2.args[1])
                        ks = [h for h in prog.children(f) if isinstance(c2, tuple) and c2 and c2[0] == "agg" and c2[1] == "closure" and h.npath == c2[2]]
                        if ks and any(c.callee.name == "is_false" for c in ks[0].terms.calls):
                            tested_sub = [c for c in ks[0].terms.calls if c.callee.name == "is_false" and
                                          any(mir.is_call(x, "sub") for x in mir.subterms(("t",) + tuple(c.args)))]
                            tested_prime = [c for c in ks[0].terms.calls if c.callee.name == "is_false" and
                                            any(mir.is_call(x, "prime") for x in mir.subterms(("t",) + tuple(c.args)))]
                            if tested_prime:
                                filt = True
                            if tested_sub:
                                sub_filter = True
                out.append(inst("RN", "%s:RN3:exhaustive-primes#map%d" % (f.npath, k), VIOLATION if sub_filter else OK, f, cs.line,
                                "elements are filtered out of the chain on a test of their sub: the primes of the node built here no "
                                "longer cover everything" if sub_filter else "no element is left out on a test of its sub"))
                if filt:
                    out.append(inst("RN", key, OK, f, cs.line, "elements with a false prime are filtered out of the chain before it is collected"))
                else:
                    out.append(inst("RN", key, VIOLATION, f, cs.line,
                                    "every item of the chain becomes an element (%s, ..) and is collected: an element whose computed "
                                    "prime became ⊥ is kept, and the node that is interned has a false prime (two pointers for one "
                                    "function)" % show(pr)[:50]))
    if n_p < 3:
        out.append(inst("RN", "RN3:nonfalse-prime", UNDECIDED, None, None, "only %d computed primes found (expected >= 3)" % n_p))
    return out


def _binary_partition(prog, f, site):
    """the list handed to unique_or is the literal vec![SddAnd::new(p, x), SddAnd::new(neg(p), y)]: (verdict, reason)"""
    te = f.terms
    if len(site.args) < 2:
        return None
    anchors = [x for x in mir.subterms(site.args[1]) if mir.is_call(x, "new_uninit")]
    elems = None
    for (_, pt, val, _) in te.stores:
        v_ = strip(val)
        if anchors and any(x in anchors for x in mir.subterms(pt)) and v_[0] == "agg" and v_[1] == "array":
            elems = [strip(e) for e in v_[4]]
    if not elems or len(elems) != 2 or not all(mir.is_call(e, "new") and len(e[2]) == 2 for e in elems):
        return None
    (p1, x), (p2, y) = [(strip(e[2][0]), strip(e[2][1])) for e in elems]
    if not ((mir.is_call(p2, "neg") and strip(p2[2][-1]) == p1) or (mir.is_call(p1, "neg") and strip(p1[2][-1]) == p2)):
        return None

    def const(t):
        return mir.is_call(t, "false_ptr") or mir.is_call(t, "true_ptr") or (t[0] == "agg" and t[3] in ("PtrTrue", "PtrFalse"))

    def distinct(u, w):
        u, w = strip(u), strip(w)
        if (mir.is_call(u, "neg") and strip(u[2][-1]) == w) or (mir.is_call(w, "neg") and strip(w[2][-1]) == u):
            return True       # t and ¬t
        if const(u) != const(w):
            return True       # a constant and an operand the caller's base cases have shown non-constant
        return False
    if distinct(x, y):
        return OK, "%s builds the two-element node {(p, x), (¬p, y)} in place with x, y distinct by construction (%s / %s)" % (f.name, show(x)[:30], show(y)[:30])
    if x[0] == "param" and y[0] == "param":
        # the subs are operands of the helper: look at what its callers pass
        sites = []
        for g in prog.lib_fns:
            if g is f or not any(b["term"]["k"] == "call" for b in g.blocks):
                continue
            for cs in g.terms.calls:
                if cs.callee.name == f.name and f in prog.resolve(cs.callee) and len(cs.args) >= max(x[1], y[1]):
                    sites.append((g, cs))
        if sites and all(distinct(cs.args[x[1] - 1], cs.args[y[1] - 1]) for g, cs in sites):
            return OK, ("%s builds {(p, x), (¬p, y)} in place; every caller (%s) passes subs that differ by construction"
                        % (f.name, ", ".join(sorted({g.name for g, _ in sites}))))
    return UNDECIDED, "%s builds {(p, x), (¬p, y)} in place; whether x ≠ y (compressed) is up to its callers" % f.name


# callers of unique_or other than `canonicalize`, each confirmed by reading
UNIQUE_OR_EXCEPTIONS = {
    "and_indep": "and_indep builds the two-element node {(a, b), (¬a, ⊥)} for a, b non-constant (constants are "
                 "handled by and's base cases before the vtree dispatch): subs differ and no prime is ⊤",
}


def rebuilt_check(prog, fn):
    """the rebuild loop negates the sub and keeps the prime"""
    te = fn.terms
    news = [cs for cs in te.calls if cs.callee.name == "new" and "SddAnd" in cs.callee.key()]
    for cs in news:
        p, s = strip(cs.args[0]), strip(cs.args[1])
        if mir.is_call(p, "prime") and mir.is_call(s, "neg") and mir.is_call(strip(s[2][0]), "sub") \
                and strip(p[2][0]) == strip(strip(s[2][0])[2][0]):
            return inst("RN", "%s:RN3:rebuild" % fn.npath, OK, fn, cs.line, "elements rebuilt as (prime, ¬sub)")
    if news:
        cs = news[0]
        return inst("RN", "%s:RN3:rebuild" % fn.npath, VIOLATION, fn, cs.line,
                    "sign normalisation rebuilds elements as (%s, %s), expected (prime, ¬sub) of the same element"
                    % (show(cs.args[0])[:50], show(cs.args[1])[:50]))
    return None


def rn4(prog):
    """RN4  the top-down builder never interns a node whose two children are identical: a decision node is
    built only on the false edge of low == high, a literal node has the constants (⊥, ⊤), and an implied
    literal node(l, ⊥, rest) / node(l, rest, ⊥) is built only for a rest that is known not to be ⊥ — this is
    what makes "the false constant is returned exactly for unsatisfiable input" hold structurally."""
    from .fs import const_kind
    out = []
    DN = "builder::decision_nnf::builder::DecisionNNFBuilder"
    fns = [f for f in prog.lib_fns if (f.in_trait == DN or (f.impl_trait == "builder::TopDownBuilder"))
           and any(b["term"]["k"] == "call" for b in f.blocks)]
    n = 0
    for fn in fns:
        te = fn.terms

        def nonfalse(t, bb, depth=0):
            t = strip(t)
            if depth > 6:
                return False
            if mir.is_call(t, "get_or_insert"):
                return True
            if const_kind(t) == "true":
                return True
            if has_fact(te, bb, lambda c: mir.is_call(c, "is_false") and strip(c[2][-1]) == t, False):
                return True
            if t[0] == "mu":
                key = (t[1], t[2])
                init = te.mu_init.get(key)
                ups = te.mu_update.get(key, [])
                return init is not None and nonfalse(init, t[1], depth + 1) and all(
                    nonfalse(u, bb, depth + 1) or strip(u) == t for u in ups)
            return False
        for cs in te.calls:
            if not (cs.callee.name == "new" and "BddNode" in cs.callee.key()):
                continue
            lo, hi = cs.args[1], cs.args[2]
            n += 1
            kl, kh = const_kind(lo), const_kind(hi)
            ok = False
            why = ""
            if has_fact(te, cs.bb, eq_of(lo, hi), False):
                ok, why = True, "built on the false edge of low == high"
            elif kl and kh and kl != kh:
                ok, why = True, "constant children (%s, %s)" % (kl, kh)
            elif kl == "false" and nonfalse(hi, cs.bb):
                ok, why = True, "node(l, ⊥, rest) with rest known not to be ⊥"
            elif kh == "false" and nonfalse(lo, cs.bb):
                ok, why = True, "node(l, rest, ⊥) with rest known not to be ⊥"
            key = "%s:RN4:new" % fn.npath
            seen = sum(1 for r in out if r["key"].startswith("RN:" + key))
            if seen:
                key += "#%d" % (seen + 1)
            out.append(inst("RN", key, OK if ok else VIOLATION, fn, cs.line, why if ok else
                            "node(%s, %s) may be interned with two identical children: nothing on the path excludes that the "
                            "non-constant child is ⊥ (an unsatisfiable sub-result then becomes a non-constant node denoting "
                            "false instead of the false constant)" % (show(lo)[:40], show(hi)[:40])))
    if n < 3:
        out.append(inst("RN", "RN4:constructions", UNDECIDED, None, None,
                        "expected >= 3 node constructions in the top-down builder, found %d" % n))
    return out


def run(prog):
    return rn1(prog) + rn2(prog) + rn3(prog) + rn4(prog)
