"""FS — fold seeds, neutral elements and empty cases.

A loop-carried accumulator updated by `or(acc, _)` must not be seeded with the *annihilator*
of that operation (true), `and` not with false, semiring `+` not with one, `*` not with zero;
where the seed is a constant it must be the operation's identity.  Early-outs of the CNF
compilers: "no clauses" returns true, "some clause empty" returns false, a literal satisfied by
the partial assignment makes its clause true.
"""
from . import mir
from .base import inst, OK, VIOLATION, UNDECIDED, strip, bool_arms
from .facts import CheckerError
from .mir import show

IDENT = {"or": "false", "and": "true", "Add": "zero", "Mul": "one"}
ANNIH = {"or": "true", "and": "false", "Add": "one", "Mul": "zero"}


def const_kind(t):
    t = strip(t)
    if not isinstance(t, tuple):
        return None
    if t[0] == "call" and t[1].name in ("false_ptr", "true_ptr", "zero", "one") and len(t[2]) <= 1:
        return {"false_ptr": "false", "true_ptr": "true", "zero": "zero", "one": "one"}[t[1].name]
    if t[0] == "agg" and t[3] in ("PtrTrue", "PtrFalse", "ConstTrue", "ConstFalse"):
        return "true" if t[3] in ("PtrTrue", "ConstTrue") else "false"
    if t[0] == "field" and t[2] in ("zero", "one"):
        return t[2]
    if t[0] == "call" and t[2]:
        for a in t[2]:
            a = strip(a)
            if a[0] == "agg" and a[1] == "tuple" and len(a[4]) == 1:
                a = strip(a[4][0])
            if a[0] == "agg" and (a[2] or "").endswith("DDNNF") and a[3] in ("True", "False"):
                return a[3].lower()
    return None


def update_op(upd, mu):
    """if upd = op(.., mu, x) returns op name"""
    u = strip(upd)
    if not isinstance(u, tuple):
        return None
    if u[0] == "call" and u[1].name in ("or", "and") and mu in [strip(a) for a in u[2]]:
        return u[1].name
    if u[0] == "call" and u[1].name in ("add", "mul") and mu in [strip(a) for a in u[2]]:
        return {"add": "Add", "mul": "Mul"}[u[1].name]
    if u[0] == "bin" and u[1] in ("Add", "Mul") and (strip(u[2]) == mu or strip(u[3]) == mu):
        return u[1]
    if u[0] == "call" and u[2]:
        # f(DDNNF::Or(acc, x, _)) — the generic fold's callback applied to an Or/And node over the accumulator
        for a in u[2]:
            a = strip(a)
            if a[0] == "agg" and a[1] == "tuple" and a[4]:
                a = strip(a[4][0])
            if a[0] == "agg" and a[3] in ("Or", "And") and (a[2] or "").endswith("DDNNF") and mu in [strip(o) for o in a[4]]:
                return "or" if a[3] == "Or" else "and"
    if u[0] in ("gamma", "phi"):
        ops = set()
        for _, v in u[2]:
            if strip(v) == mu:
                continue
            o = update_op(v, mu)
            if o:
                ops.add(o)
        if len(ops) == 1:
            return ops.pop()
    return None


def closure_fold(prog, fn):
    """iterator .fold(seed, |acc, x| op(acc, ..)) sites"""
    out = []
    te = fn.terms
    for cs in te.calls:
        if cs.callee.name != "fold" or len(cs.args) != 3 or cs.callee.local:
            continue
        seed = cs.args[1]
        clo = cs.args[2]
        if not (isinstance(clo, tuple) and clo[0] == "agg" and clo[1] == "closure"):
            continue
        kids = [k for k in prog.children(fn) if k.npath == clo[2]]
        if len(kids) != 1:
            continue
        op = update_op(kids[0].terms.ret, ("param", 2))
        if op is None:
            # v.mul(x) method form
            r = strip(kids[0].terms.ret)
            if mir.is_call(r) and r[1].name in ("mul", "add") and strip(r[2][0]) == ("param", 2):
                op = {"mul": "Mul", "add": "Add"}[r[1].name]
        if op:
            out.append((cs, seed, op))
    return out


def param_seed_sites(prog, fn, seed, op):
    """a fold whose seed is a parameter of a private helper (`fn scale(init, ..) { it.fold(init, |a, x| a * w(x)) }`): the
    seed is chosen by the callers, so each call site is an accumulator of its own — a constant handed in must be the
    identity of the operation, a value is taken as it is."""
    s0 = strip(seed)
    if not (isinstance(s0, tuple) and s0 and s0[0] == "param") or fn.vis_pub or "{closure" in fn.npath:
        return []
    i = s0[1] - 1
    out, seen = [], {}
    for g in prog.lib_fns + prog.bin_fns:
        if g is fn or "::tests::" in g.npath or g.name.startswith("test_") or "::test::" in g.npath:
            continue
        for cs in g.terms.calls:
            if cs.callee.name != fn.name or not (cs.callee.local or cs.callee.res_local) or len(cs.args) <= i:
                continue
            if fn not in prog.resolve(cs.callee):
                continue
            owner = g.npath.split("::{closure")[0]
            key = "%s:via %s:fold<-%s" % (owner, fn.name, op)
            seen[key] = seen.get(key, 0) + 1
            if seen[key] > 1:
                key = key.replace(":fold<-", "#%d:fold<-" % seen[key])
            ck = const_kind(cs.args[i])
            if ck is None:
                out.append(inst("FS", key, OK, g, cs.line, "`%s` is seeded by its caller from a value (%s)" % (fn.name, show(cs.args[i])[:60])))
            elif ck != IDENT[op]:
                out.append(inst("FS", key, VIOLATION, g, cs.line,
                                "`%s` folds with %s from the seed its caller hands in, and this caller hands in %s (the identity "
                                "of %s is %s)" % (fn.name, op, ck, op, IDENT[op])))
            else:
                out.append(inst("FS", key, OK, g, cs.line, "`%s` folds %s; this caller seeds it with the identity %s" % (fn.name, op, ck)))
    return out


def early_exits(fn, te, h, l, op, name):
    """a fold over `and` / `or` may stop early only when the accumulator has reached the operation's absorbing
    element (false for and, true for or): any other test on the accumulator that leaves the loop drops operands"""
    out = []
    cfg = fn.cfg
    body = cfg.loop_headers.get(h, set())
    k = 0
    for b in sorted(body):
        t = fn.blocks[b]["term"]
        if t["k"] != "switch" or b not in te.switch_term:
            continue
        c = strip(te.switch_term[b][0])
        if not (mir.is_call(c, "is_true") or mir.is_call(c, "is_false")):
            continue
        arg = strip(c[2][-1])
        touches = any(x == ("mu", h, l) for x in mir.subterms(arg)) or \
            (arg[0] == "call" and arg[1].name == op)
        if not touches:
            continue
        for val, tgt in [(v, x) for v, x in t["targets"]] + [("else", t["otherwise"])]:
            if tgt in body or fn.blocks[tgt]["term"]["k"] == "unreachable":
                continue
            holds = (val == "else") if any(v == "0" for v, _ in t["targets"]) else (val != "0")
            tested = "true" if (c[1].name == "is_true") == holds else "false"
            k += 1
            ok = tested == ANNIH[op]
            out.append(inst("FS", "%s:%s<-%s:early-exit#%d" % (fn.npath, name, op, k), OK if ok else VIOLATION, fn, t.get("line"),
                            "leaves the loop once `%s` is %s, the absorbing element of %s" % (name, tested, op) if ok else
                            "the loop over `%s` is left as soon as `%s` is %s, but the absorbing element of %s is %s: the remaining "
                            "operands are dropped although they can still change the result" % (op, name, tested, op, ANNIH[op])))
    return out


def reduce_defaults(prog):
    """`iter.reduce(|acc, x| op(acc, x))` has no seed: the value chosen for the *empty* sequence (`unwrap_or(d)`,
    `unwrap_or_else(|| d)`, `map_or(d, ..)`, a `match` on the Option) takes the seed's place and must be the identity of
    the operation — an empty disjunction is false, an empty conjunction true, an empty sum zero, an empty product one."""
    from . import canon
    out, seen = [], {}
    for fn in prog.lib_fns + prog.bin_fns:
        if "::tests::" in fn.npath or fn.name.startswith("test_") or "::test::" in fn.npath:
            continue
        if not any(b["term"]["k"] == "call" for b in fn.blocks):
            continue
        te = fn.terms
        for cs in te.calls:
            if cs.callee.name != "reduce" or len(cs.args) != 2 or cs.callee.local:
                continue
            g, _ = canon.closure_fn(prog, cs.args[1])
            fr = strip(cs.args[1])
            if g is None and isinstance(fr, tuple) and fr and fr[0] == "fnref":
                # a function item as the combining step: `.reduce(Self::or)`
                op = {"or": "or", "and": "and", "add": "Add", "mul": "Mul"}.get(fr[1].name)
            elif g is None or g.terms.ret is None:
                continue
            else:
                op = update_op(g.terms.ret, ("param", 2))
            if op is None:
                continue
            # how is the Option consumed?
            red = strip(cs.term)
            dflt = None
            for c2 in te.calls:
                if c2.args and strip(c2.args[0]) == red and c2.callee.name in ("unwrap_or", "unwrap_or_else", "map_or", "map_or_else"):
                    d = c2.args[1]
                    if c2.callee.name in ("unwrap_or_else", "map_or_else"):
                        h, _ = canon.closure_fn(prog, d)
                        d = h.terms.ret if h is not None else None
                    dflt = (c2, d)
            key = "%s:reduce<-%s" % (fn.npath, op)
            seen[key] = seen.get(key, 0) + 1
            if seen[key] > 1:
                key += "#%d" % seen[key]
            if dflt is None or dflt[1] is None:
                # unwrap()/expect() (the caller guarantees a non-empty sequence) or a match this rule does not read
                continue
            ck = const_kind(dflt[1])
            if ck is None:
                out.append(inst("FS", key, OK, fn, cs.line, "the empty case of the reduce is a value (%s)" % show(dflt[1])[:60]))
            elif ck != IDENT[op]:
                out.append(inst("FS", key, VIOLATION, fn, cs.line,
                                "reduce combines with %s but answers %s for the empty sequence (the identity of %s is %s): an empty "
                                "%s is %s" % (op, ck, op, IDENT[op], {"or": "disjunction (the empty clause)", "and": "conjunction",
                                                                      "Add": "sum", "Mul": "product"}[op], IDENT[op])))
            else:
                out.append(inst("FS", key, OK, fn, cs.line, "reduce of %s answers its identity %s for the empty sequence" % (op, ck)))
    return out


def run(prog):
    out = []
    n = 0
    for fn in prog.lib_fns + prog.bin_fns:
        if "::tests::" in fn.npath or fn.name.startswith("test_") or "::test::" in fn.npath:
            continue
        if not fn.cfg.loop_headers and not any(b["term"]["k"] == "call" and b["term"].get("fn", {}).get("def", "").endswith("::fold")
                                               for b in fn.blocks):
            continue
        te = fn.terms
        seen = {}
        for (h, l), init in te.mu_init.items():
            mu = ("mu", h, l)
            ops = {update_op(u, mu) for u in te.mu_update.get((h, l), [])}
            ops.discard(None)
            if len(ops) != 1:
                continue
            op = ops.pop()
            ck = const_kind(init)
            name = fn.local_name(l) or "acc"
            key = "%s:%s<-%s" % (fn.npath, name, op)
            seen[key] = seen.get(key, 0) + 1
            if seen[key] > 1:
                key += "#%d" % seen[key]
            n += 1
            if ck is None:
                # numeric literal seeds for Add/Mul on integers/floats
                i0 = strip(init)
                if i0[0] == "const" and op in ("Add", "Mul"):
                    v = i0[2]
                    bad = (op == "Mul" and v in ("0",)) 
                    out.append(inst("FS", key, VIOLATION if bad else OK, fn, None,
                                    "product accumulator seeded with 0" if bad else "numeric accumulator seeded with %s" % v))
                    continue
                out.append(inst("FS", key, OK, fn, None, "seeded from a value (%s), not from a constant" % show(init)[:60]))
                continue
            if op in ("and", "or"):
                out += early_exits(fn, te, h, l, op, name)
            if ck == ANNIH[op] or ck != IDENT[op]:
                out.append(inst("FS", key, VIOLATION, fn, None,
                                "accumulator `%s` is combined with %s but seeded with %s (the identity of %s is %s): "
                                "every result collapses / is offset" % (name, op, ck, op, IDENT[op])))
            else:
                out.append(inst("FS", key, OK, fn, None, "`%s` folds %s from its identity %s" % (name, op, ck)))
        for cs, seed, op in closure_fold(prog, fn):
            ck = const_kind(seed)
            key = "%s:fold<-%s" % (fn.npath, op)
            n += 1
            if ck is None:
                out.append(inst("FS", key, OK, fn, cs.line, "fold seeded from a value (%s)" % show(seed)[:60]))
                out += param_seed_sites(prog, fn, seed, op)
            elif ck != IDENT[op]:
                out.append(inst("FS", key, VIOLATION, fn, cs.line,
                                "fold combines with %s but is seeded with %s (identity is %s)" % (op, ck, IDENT[op])))
            else:
                out.append(inst("FS", key, OK, fn, cs.line, "fold of %s from its identity %s" % (op, ck)))
    out += reduce_defaults(prog)
    out += early_outs(prog)
    out += list_ops_empty_case(prog, {r["key"] for r in out})
    if n < 8:
        raise CheckerError("FS: only %d accumulators recognised" % n)
    return out


def _ret_alts(te):
    alts = []

    def collect(x, facts_bb):
        if isinstance(x, tuple) and x and x[0] == "phi":
            for p, v in x[2]:
                collect(v, p)
        else:
            alts.append((facts_bb, x))
    for b, t in te.ret_by_block.items():
        collect(t, b)
    return alts


def early_outs(prog):
    """CNF compilers: empty formula ↦ true; some empty clause ↦ false"""
    out = []
    targets = []
    for ptr in ("BddPtr", "SddPtr"):
        fs_ = [f for f in prog.find(name="compile_cnf", impl_trait="builder::BottomUpBuilder", unit="rsdd-lib") if ptr in f.npath]
        if len(fs_) != 1:
            raise CheckerError("compile_cnf for %s not found" % ptr)
        targets.append(fs_[0])
    targets.append(prog.find1(name="compile_cnf_with_assignments", in_trait="builder::bdd::builder::BddBuilder", unit="rsdd-lib"))
    for fn in targets:
        te = fn.terms
        # find gamma on is_empty(clauses(cnf)) with true arm const
        found_empty = None
        found_anyempty = None
        for t in [te.ret] + [v for _, v in _ret_alts(te)]:
            for x in mir.subterms(t):
                ba = bool_arms(x)
                if not ba:
                    continue
                c = strip(ba[0])
                if mir.is_call(c, "is_empty") and mir.is_call(strip(c[2][0]), "clauses"):
                    found_empty = const_kind(ba[2])
                    inner = ba[1]
                    if const_kind(inner) is not None and found_anyempty is None:
                        # shape γ(is_empty; 0→false_ptr (reached via any-empty), 1→true)
                        found_anyempty = const_kind(inner)
        key = "%s:empty-formula" % fn.npath
        if found_empty is None:
            # fall back: return under fact is_empty(clauses)==true
            for b, t in te.ret_by_block.items():
                pass
            out.append(inst("FS", key, UNDECIDED, fn, None, "empty-formula shortcut not recognised"))
        else:
            out.append(inst("FS", key, OK if found_empty == "true" else VIOLATION, fn, None,
                            "no clauses ↦ %s%s" % (found_empty, "" if found_empty == "true" else " (the empty conjunction is true)")))
        # every constant answer is justified by the matching test on the clause list: ⊤ only under "no clauses"
        # (is_empty / len == 0 of the clause list, or the clause-combining helper returning None), ⊥ only under
        # "some clause is empty"; the dominating branch facts of the block that produces the constant are inspected
        bad = []
        nconst = 0
        for cs in te.calls:
            if cs.callee.name not in ("true_ptr", "false_ptr") or cs.args:
                continue
            # is this constant a returned value (not the seed of a fold)?
            dest = fn.blocks[cs.bb]["term"]["dest"]
            returned = (dest["l"] == 0) or any(
                st["k"] == "assign" and st["lhs"]["l"] == 0 and not st["lhs"]["proj"] and st["rv"]["k"] == "use" and
                st["rv"]["op"]["k"] in ("move", "copy") and st["rv"]["op"]["place"]["l"] == dest["l"]
                for bb2 in fn.cfg.reachable_from(cs.bb) for st in fn.blocks[bb2]["stmts"])
            if not returned:
                continue
            facts = [(strip(c), val) for c, val, _, _ in te.facts_at(cs.bb)]
            nconst += 1

            def about_clauses(c):
                s_ = show(c)
                return (mir.is_call(c, "is_empty") and "clauses" in s_) or \
                    (c[0] == "bin" and c[1] in ("Eq", "Lt", "Le", "Ge", "Gt", "Ne") and "len(" in s_ and "clauses" in s_) or \
                    ("compile_cnf_helper" in s_ or "collapse_clauses" in s_)
            if cs.callee.name == "true_ptr":
                just = [c for c, val in facts if about_clauses(c) and (val != "0" or "helper" in show(c) or "collapse" in show(c)
                                                                       or (c[0] == "bin" and c[1] in ("Ge", "Gt", "Ne")))]
                if not just:
                    bad.append("the compiler answers ⊤ under %s, not under `clauses().is_empty()`: a formula that still has "
                               "(empty) clauses is declared valid" % ([show(c)[:40] + ("" if v != "0" else " = false") for c, v in facts] or ["no condition"]))
            elif fn.name == "compile_cnf":
                just = [c for c, val in facts if mir.is_call(c, "any") or (mir.is_call(c, "is_empty") and "clauses(" not in show(c))]
                if not just:
                    bad.append("the compiler answers ⊥ under %s, not under an empty-clause test"
                               % ([show(c)[:40] for c, v in facts] or ["no condition"]))
        out.append(inst("FS", "%s:constant-answers-justified" % fn.npath, VIOLATION if bad else OK, fn, None,
                        bad[0] if bad else "%d constant answer(s), each under its clause-list test" % nconst))
        if fn.name == "compile_cnf":
            key = "%s:empty-clause" % fn.npath
            # the `any(|x| x.is_empty())` test: its true edge returns false_ptr
            anyc = [cs for cs in te.calls if cs.callee.name == "any"]
            verdict, detail = UNDECIDED, "any-empty-clause test not recognised"
            if anyc:
                kids = prog.children(fn)
                isemp = [k for k in kids if mir.is_call(strip(k.terms.ret), "is_empty")]
                if isemp and found_anyempty is not None:
                    verdict = OK if found_anyempty == "false" else VIOLATION
                    detail = "some clause empty ↦ %s" % found_anyempty
            out.append(inst("FS", key, verdict, fn, None, detail))
        else:
            # satisfied literal: cur_ptr = true_ptr under Some(v) if v == lit.polarity()
            key = "%s:satisfied-literal" % fn.npath
            verdict, detail = UNDECIDED, "satisfied-literal shortcut not recognised"
            for cs in te.calls:
                if cs.callee.name not in ("true_ptr", "false_ptr"):
                    continue
                for c, val, _, d in te.facts_at(cs.bb):
                    if c[0] == "bin" and c[1] == "Eq" and val != "0" and \
                            any(mir.is_call(strip(s), "polarity") for s in c[2:4]):
                        ck = const_kind(cs.term)
                        verdict = OK if ck == "true" else VIOLATION
                        detail = "literal agreeing with the assignment makes its clause %s" % ck
            out.append(inst("FS", key, verdict, fn, None, detail))
    return out


def list_ops_empty_case(prog, have):
    """`or_lst` / `and_lst` of an empty list are the neutral elements (an empty disjunction is ⊥, an empty conjunction ⊤).
    When the list operation is a loop with an accumulator the seed rule above decides it; when it delegates to a combining
    helper (`collapse_clauses`, a balanced reduction) that reports "nothing to combine" as `None`, or tests the list for
    emptiness, the constant returned on that alternative is read off the return term, through a trailing negation."""
    from .fd import alts, key_of
    out = []
    for name, want in (("or_lst", "false"), ("and_lst", "true")):
        fns = [f for f in prog.lib_fns if f.name == name and "builder::bdd" in f.npath and "{closure" not in f.npath]
        for fn in fns:
            if any(k.startswith("FS:%s:" % fn.npath) for k in have):
                continue          # the accumulator form: decided by its seed
            te = fn.terms
            key = "%s:empty-list" % fn.npath
            found, errs = 0, []
            # a shared folding helper handed the seed and the operation: `fold_lst(false_ptr(), list, |a, b| self.or(a, b))`
            r0 = strip(te.ret)
            if mir.is_call(r0) and (r0[1].local or getattr(r0[1], "res_local", False)):
                from . import canon as _canon
                seeds = [const_kind(a) for a in r0[2] if const_kind(a) in ("true", "false")]
                ops = []
                for a in r0[2]:
                    g_, _ = _canon.closure_fn(prog, a)
                    if g_ is not None:
                        ops += [c.callee.name for c in g_.terms.calls if c.callee.name in ("or", "and")]
                    a0 = strip(a)
                    if isinstance(a0, tuple) and a0 and a0[0] == "fnref" and a0[1].name in ("or", "and"):
                        ops.append(a0[1].name)
                if len(seeds) == 1 and len(set(ops)) == 1:
                    op = ops[0]
                    need = "false" if op == "or" else "true"
                    e_ = []
                    if op != name.split("_")[0]:
                        e_.append("%s folds its list with `%s`" % (name, op))
                    if seeds[0] != need:
                        e_.append("%s folds with `%s` from %s: the fold of an empty list, and the seed of every other, must be %s"
                                  % (name, op, "⊤" if seeds[0] == "true" else "⊥", "⊤" if need == "true" else "⊥"))
                    from .base import verdict_of, errtext
                    out.append(inst("FS", key, verdict_of(e_), fn, None, errtext(e_) if e_ else
                                    "%s = fold of `%s` from its identity through a shared helper" % (name, op)))
                    continue
            for leaf, facts in alts(te, te.ret):
                nothing = False
                for c, v in facts:
                    c0 = strip(c)
                    if c0[0] == "discr" and mir.is_call(strip(c0[1])) and strip(c0[1])[1].local and v in ("0", ("not", ("1",))):
                        nothing = True          # the combining helper returned None
                    if mir.is_call(c0, "is_empty") and v not in ("0",):
                        nothing = True
                if not nothing:
                    continue
                found += 1
                t, par = strip(leaf), 0
                while mir.is_call(t, "neg") and t[2]:
                    t, par = strip(t[2][0]), par ^ 1
                k = const_kind(t)
                if k not in ("true", "false"):
                    errs.append("?the empty list gives %s" % show(leaf)[:50])
                    continue
                val = (k == "true") ^ bool(par)
                if val != (want == "true"):
                    errs.append("%s of an empty list is %s: an empty %s" % (name, "⊤" if val else "⊥",
                                "disjunction is ⊥ (no disjunct holds)" if name == "or_lst" else "conjunction is ⊤"))
            if not found:
                errs.append("?no alternative for the empty list recognised")
            from .base import verdict_of, errtext
            out.append(inst("FS", key, verdict_of(errs), fn, None, errtext(errs) if errs else "%s([]) = %s" % (name, "⊥" if want == "false" else "⊤")))
    return out
