"""Thorough tier: the same rules over the feature matrix x profiles, the compile-fail witnesses
(type-level part of IM) and the checker self-test cases of the property.

Nothing here runs rsdd code: extra configurations are further `cargo check` passes through the
driver; witnesses are `cargo +nightly test --doc` on a crate whose doc-tests are either
`compile_fail,E0xxx` or `no_run`; the self-test edits a scratch copy and re-runs the driver.
"""
import os
import shutil
import subprocess
import tempfile
import time

from . import facts, mir

V = os.path.dirname(os.path.dirname(os.path.abspath(__file__)))
CONFIGS = [("ffi,cli", True), ("", False), ("ffi", False), ("cli", False)]
WITNESS_PROPS = {"C01", "C02", "C03", "C04", "C10"}
N_WITNESS = 10


def extra_configs(pids):
    out = []
    for feats, rel in CONFIGS:
        f, m = facts.run_driver(features=feats, release=rel)
        out.append((mir.Program(f, m), m, {}))
    return out, None


def run_witnesses():
    """returns (ok, summary dict)"""
    w = os.path.join(V, "witness")
    lock = os.path.join(facts.REPO, "Cargo.lock")
    if os.path.exists(lock):
        shutil.copy(lock, os.path.join(w, "Cargo.lock"))
    tgt = tempfile.mkdtemp(prefix="rsdd-witness.")
    t0 = time.time()
    try:
        env = dict(os.environ, CARGO_TARGET_DIR=tgt, CARGO_NET_OFFLINE="true")
        r = subprocess.run(["cargo", "+nightly", "test", "--doc", "--offline"], cwd=w, env=env,
                           capture_output=True, text=True)
        lines = [l for l in r.stdout.splitlines() if l.startswith("test ") and not l.startswith("test result")]
        passed = [l for l in lines if l.endswith("... ok")]
        failed = [l for l in lines if not l.endswith("... ok")]
        cf = [l for l in passed if "compile fail" in l]
        ok = r.returncode == 0 and len(passed) >= N_WITNESS and not failed
        return ok, {"witness_tests": len(lines), "witness_passed": len(passed), "compile_fail_witnesses": len(cf),
                    "compiling_twins": len(passed) - len(cf), "witness_failed": failed[:5],
                    "witness_s": round(time.time() - t0, 1),
                    "witness_stderr_tail": "" if ok else r.stderr[-600:]}
    finally:
        shutil.rmtree(tgt, ignore_errors=True)


def run_selftest(pid):
    import json
    out = tempfile.mktemp(prefix="rsdd-selftest-", suffix=".json")
    r = subprocess.run(["python3", os.path.join(V, "tools", "selftest.py"), "--prop", pid, "--json", out],
                       capture_output=True, text=True)
    res = []
    if os.path.exists(out):
        res = json.load(open(out))
        os.unlink(out)
    bad = [x for x in res if not x["ok"]]
    return (r.returncode == 0 and bool(res)), {
        "selftest_cases": len(res), "selftest_ok": len(res) - len(bad),
        "selftest_breaking_detected": len([x for x in res if x["ok"] and x["why"].startswith("fires")]),
        "selftest_preserving_silent": len([x for x in res if x["ok"] and x["why"].startswith("silent")]),
        "selftest_failures": [{"name": x["name"], "why": x["why"][:300]} for x in bad],
        "selftest_samples": [{"name": x["name"], "result": x["why"][:200]} for x in res[:8]],
    }


def run_for(pid, prog):
    """returns (extra coverage dict, output lines, #violations, #checker failures)"""
    import hashlib
    import json
    cov = {}
    lines = []
    viol = 0
    broken = 0
    if pid in WITNESS_PROPS:
        ok, c = run_witnesses()
        cov.update(c)
        if not ok:
            cf_failed = [l for l in c.get("witness_failed", []) if "compile fail" in l]
            if cf_failed:
                # code that must not type-check now compiles: the type-level boundary is gone
                for l in cf_failed:
                    viol += 1
                    h = hashlib.sha1(l.encode()).hexdigest()[:10]
                    path = os.path.join(V, "findings", "%s-witness-%s.json" % (pid, h))
                    os.makedirs(os.path.dirname(path), exist_ok=True)
                    json.dump({"property": pid, "instance": {"rule": "IM-witness", "key": "IM-witness:" + l,
                                                             "verdict": "violation", "detail": l}}, open(path, "w"))
                    lines.append("VIOLATION property=%s replay=%s" % (pid, path))
                    lines.append("  a compile_fail witness now compiles: %s" % l)
            else:
                broken += 1
                lines.append("CHECKER-ERROR: witness twins do not compile: %s %s" % (c.get("witness_failed"), c.get("witness_stderr_tail", "")[-200:]))
    ok, c = run_selftest(pid)
    cov.update(c)
    if not ok and c["selftest_cases"]:
        broken += 1
        lines.append("CHECKER-ERROR: checker self-test failed for %s: %s" % (pid, c["selftest_failures"][:3]))
    return cov, lines, viol, broken
