"""Thorough tier: extra build configurations (feature matrix x profiles)."""
from . import facts, mir

CONFIGS = [("ffi,cli", True), ("", False), ("ffi", False), ("cli", False)]


def extra_configs(pids):
    out = []
    for feats, rel in CONFIGS:
        f, m = facts.run_driver(features=feats, release=rel)
        out.append((mir.Program(f, m), m, {}))
    return out, None


def run_for(pid, prog):
    return None, [], 0
