"""Decision contexts of the top-down compiler, shared by TS-BAL, DP and TD.

`topdown_h` decides a literal, compiles the residual formula, conjoins the implied literals and pops the
solver state, once per polarity.  The code for one polarity may sit in topdown_h itself or in a helper of
the same trait that topdown_h calls once per polarity with the decision literal as an argument (inlining
bound: one level).  A context names the function that holds the `decide` call, that call, and the decision
literal as the *caller* wrote it, so that instance keys do not depend on which of the two layouts is used.
"""
from . import mir
from .base import strip
from .facts import CheckerError

TRAIT = "builder::decision_nnf::builder::DecisionNNFBuilder"


class Ctx:
    def __init__(self, top, fn, cs, lit, via):
        self.top = top      # topdown_h
        self.fn = fn        # function that holds the decide call
        self.cs = cs        # the decide call site
        self.lit = lit      # the decision literal, as written by topdown_h
        self.via = via      # call site in topdown_h of the helper (None when decide is in topdown_h)

    @property
    def pol(self):
        lit = strip(self.lit)
        if mir.is_call(lit, "new") and len(lit[2]) == 2:
            p = strip(lit[2][1])
            if isinstance(p, tuple) and p[0] == "const":
                return p[2]
        return "?"

    @property
    def dvar(self):
        lit = strip(self.lit)
        if mir.is_call(lit, "new") and len(lit[2]) == 2:
            return strip(lit[2][0])
        return None


def is_decide(cs):
    return cs.callee.name == "decide" and "SATSolver" in cs.callee.key()


def top_fn(prog):
    return prog.find1(name="topdown_h", in_trait=TRAIT, unit="rsdd-lib")


def contexts(prog):
    top = top_fn(prog)
    out = []
    for cs in top.terms.calls:
        if is_decide(cs):
            out.append(Ctx(top, top, cs, cs.args[1], None))
            continue
        if not (cs.callee.local or getattr(cs.callee, "res_local", False)):
            continue
        for h in prog.resolve(cs.callee):
            if h is top or h.in_trait != TRAIT or not h.unit.startswith("rsdd-lib"):
                continue
            for d in h.terms.calls:
                if not is_decide(d):
                    continue
                lit = strip(d.args[1])
                if isinstance(lit, tuple) and lit and lit[0] == "param" and lit[1] - 1 < len(cs.args):
                    out.append(Ctx(top, h, d, cs.args[lit[1] - 1], cs))
                else:
                    out.append(Ctx(top, h, d, None, cs))
    return top, out


def helper_calls(ctxs):
    return {c.via.bb for c in ctxs if c.via is not None}


class VSite:
    """a call performed inside a private helper, seen at the helper's call site (arguments substituted)"""
    def __init__(self, cs, name, args):
        self.bb, self.line, self.term, self.args = cs.bb, cs.line, cs.term, args
        self.callee = type("C", (), {"name": name, "key": staticmethod(lambda: name), "local": True})()


def tail_helpers(prog):
    """same-trait helpers that finish a branch: exactly one conjoin_implied, then exactly one pop, on every path, and no
    decide (`fn pop_implied(&self, sat, decided, sub)`): {npath: (helper, its conjoin_implied call)}"""
    from . import canon  # noqa: F401
    out = {}
    for h in prog.lib_fns:
        if h.in_trait != TRAIT or h.kind == "Closure" or h.name in ("topdown_h", "conjoin_implied") or \
                not any(b["term"]["k"] == "call" for b in h.blocks):
            continue
        te = h.terms
        if any(is_decide(c) for c in te.calls):
            continue
        pops = [c for c in te.calls if c.callee.name == "pop" and "SATSolver" in c.callee.key()]
        conj = [c for c in te.calls if c.callee.name == "conjoin_implied"]
        if len(pops) != 1 or len(conj) != 1:
            continue
        p, c = pops[0], conj[0]
        cfg = h.cfg
        if any(p.bb in body or c.bb in body for body in cfg.loop_headers.values()):
            continue
        if not (cfg.dominates(c.bb, p.bb) and all(cfg.dominates(p.bb, r) for r in cfg.returns)):
            continue
        out[h.npath] = (h, c)
    return out


def tail_sites(prog, fn):
    """(call sites in fn of tail helpers, the conjoin_implied they perform with the call's arguments substituted)"""
    from . import canon
    th = tail_helpers(prog)
    out = []
    for cs in fn.terms.calls:
        if not (cs.callee.local or getattr(cs.callee, "res_local", False)):
            continue
        for h in prog.resolve(cs.callee):
            if h.npath in th and h is not fn:
                _h, c = th[h.npath]
                sub = {i + 1: a for i, a in enumerate(cs.args)}
                out.append((cs, VSite(cs, "conjoin_implied", tuple(canon.subst(a, sub) for a in c.args))))
    return out
