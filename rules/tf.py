"""TF — the tautology filter of the SAT solver quantifies over *all* pairs of literals.

SATSolver::new drops every clause that contains a literal and its negation before the clause count
that defines the satisfied flag is fixed.  Whether a clause is a tautology is a property of an
unordered pair of its literals.  The clause has been sorted, but Literal's derived order compares
the packed word whose polarity bit lies *above* the label bits (read from the bit-field accessors),
so a literal and its negation need not be neighbours: an adjacent-pairs test (windows(2), zip with
skip(1), i/i+1) misses them.  The rule recognises the quantifier of the filter predicate:

  all pairs       two nested loops over 0..len and (i+1 | 0)..len comparing clause[i] with clause[j]   ok
  adjacent pairs  windows / i,i+1                                                                        violation
                  (accepted when the packed order is label-major, which makes negations neighbours)
"""
from . import mir
from .base import inst, OK, VIOLATION, UNDECIDED, strip
from .facts import CheckerError
from .mir import show

ADJ = ("windows", "array_windows", "tuple_windows", "chunks", "dedup_by", "skip")


def low_bit(prog, name):
    fn = prog.find1(name=name, self_adt="repr::var_label::Literal", unit="rsdd-lib")
    r = strip(fn.terms.ret)
    # (data << (W-hi)) >> ((W-hi) + lo)
    if isinstance(r, tuple) and r[0] == "bin" and r[1] == "Shr":
        for x in mir.subterms(r[3]):
            if x[0] == "bin" and x[1] in ("Add", "AddWithOverflow") and strip(x[3])[0] == "const":
                return int(strip(x[3])[2])
    raise CheckerError("TF: bit range of Literal::%s not recognised" % name)


def closures_of(prog, fn):
    return [g for g in prog.lib_fns if g.npath.startswith(fn.npath + "::{closure")]


def run(prog):
    fn = prog.find1(name="new", self_adt="repr::unit_prop::SATSolver", unit="rsdd-lib")
    pol_lo, lab_lo = low_bit(prog, "raw_polarity"), low_bit(prog, "raw_label")
    polarity_major = pol_lo > lab_lo
    # the filter predicate: a closure handed to Iterator::filter whose body (or nested closures) compares
    # labels for equality and polarities for inequality
    filt = [cs for cs in fn.terms.calls if cs.callee.name == "filter" and len(cs.args) == 2]
    cands = []
    for cs in filt:
        clo = cs.args[1]
        if isinstance(clo, tuple) and clo[0] == "agg" and clo[1] == "closure":
            cands += [g for g in prog.lib_fns if g.npath == clo[2]]
    key = "%s:tautology-filter" % fn.npath
    if len(cands) != 1:
        raise CheckerError("TF: expected one filter predicate in SATSolver::new, found %d" % len(cands))
    c = cands[0]
    # the predicate may delegate to a private helper (`|clause| !has_complementary_pair(clause)`): read the helper
    for _ in range(2):
        r0 = strip(c.terms.ret) if c.terms.ret is not None else None
        while isinstance(r0, tuple) and r0 and r0[0] == "un" and r0[1] == "Not":
            r0 = strip(r0[2])
        if isinstance(r0, tuple) and r0 and r0[0] == "call" and (r0[1].local or getattr(r0[1], "res_local", False)) and \
                r0[1].name not in ("label", "polarity", "implies_false", "implies_true", "negated"):
            hs = [h for h in prog.resolve(r0[1]) if h.kind != "Closure"]
            if len(hs) == 1:
                c = hs[0]
                continue
        break
    te = c.terms
    nested = [g for g in prog.lib_fns if g.npath.startswith(c.npath + "::{closure")]
    names = [cs.callee.name for g in [c] + nested for cs in g.terms.calls]
    # a comparison of two literals of the clause: label == label && polarity != polarity, or the Literal methods that say
    # the same (their definitions are rule LP's business)
    # (after sorting and de-duplication two literals on one variable are complementary: a label comparison alone is a pair test)
    has_cmp = ("label" in names) or ("implies_false" in names) or ("negated" in names)
    if not has_cmp:
        local_calls = [cs.callee.name for g in [c] + nested for cs in g.terms.calls
                       if (cs.callee.local or getattr(cs.callee, "res_local", False)) and
                       cs.callee.name not in ("eq", "ne", "label", "polarity", "value", "value_usize", "cmp", "partial_cmp")]
        if local_calls:
            return [inst("TF", key, UNDECIDED, c, None, "? the clause filter delegates to %s; no literal comparison found" % sorted(set(local_calls))[:4])]
        return [inst("TF", key, VIOLATION, c, None,
                     "the clause filter no longer compares labels and polarities of the clause's literals: tautological "
                     "clauses are kept and counted, so the satisfied flag waits for them")]
    adj = [n for n in names if n in ADJ]
    # nested loops with independent indices
    idx_terms = []
    for cs in te.calls:
        if cs.callee.name in ("eq", "ne") and len(cs.args) == 2:
            pair = []
            for a in cs.args:
                ix = [x for x in mir.subterms(a) if (x[0] == "call" and x[1].name == "index" and len(x[2]) == 2) or x[0] == "index"]
                if ix:
                    pair.append(strip(ix[0][2][1] if ix[0][0] == "call" else ix[0][2]))
            if len(pair) == 2:
                idx_terms.append(tuple(pair))
    verdict, detail = UNDECIDED, "quantifier idiom not recognised (calls: %s)" % sorted(set(names))[:12]
    # combinator form: clause.iter().enumerate().any(|(i, a)| clause[i + 1..].iter().any(|b| a ~ b))
    comb = None
    if not adj and "any" in [cs.callee.name for cs in te.calls] and "enumerate" in [cs.callee.name for cs in te.calls]:
        for n1 in nested:
            inner_any = [cs for cs in n1.terms.calls if cs.callee.name in ("any", "all", "find", "position")]
            slices = [cs for cs in n1.terms.calls if cs.callee.name in ("index", "get") and len(cs.args) == 2]
            if not inner_any:
                continue
            if not slices:
                # the inner quantifier runs over the whole clause again: all ordered pairs
                if any(cs.callee.name == "iter" and ("^" in show(cs.args[0])) for cs in n1.terms.calls):
                    comb = ("full", None)
                continue
            r = strip(slices[0].args[1])
            if isinstance(r, tuple) and r and r[0] == "agg" and (r[2] or "").endswith("RangeFrom") and len(r[4]) == 1:
                lo = show(strip(r[4][0]))
                if "arg2.0" in lo and "Add" in lo and lo.rstrip(").0").endswith("1"):
                    comb = ("tail", lo)
                elif "arg2.0" in lo:
                    comb = ("tail-from-self", lo)
            elif isinstance(r, tuple) and r and r[0] == "agg" and (r[2] or "").endswith("Range") and len(r[4]) == 2:
                comb = ("window", show(r))
    if comb and comb[0] in ("tail", "full", "tail-from-self"):
        if comb[0] == "tail-from-self":
            verdict, detail = UNDECIDED, "the inner quantifier starts at the element itself (%s)" % comb[1]
        else:
            verdict, detail = OK, "all pairs of the clause: enumerate() × %s" % ("the slice after the element" if comb[0] == "tail" else "the whole clause")
    elif comb and comb[0] == "window":
        if polarity_major:
            verdict = VIOLATION
            detail = ("the tautology test compares an element only with a bounded window after it (%s); Literal's order is "
                      "polarity-major, so a literal and its negation are generally not that close" % comb[1][:50])
        else:
            verdict, detail = OK, "adjacent pairs suffice: the packed order is label-major"
    elif adj:
        kind = "adjacent pairs only (%s)" % adj[0]
        if polarity_major:
            verdict = VIOLATION
            detail = ("the tautology test looks at %s; Literal's order is polarity-major (polarity bit %d above the label "
                      "bits from %d), so in a sorted clause a literal and its negation are generally not neighbours — "
                      "such clauses survive, are counted, and the satisfied flag is not raised when every real clause is true"
                      % (kind, pol_lo, lab_lo))
        else:
            verdict, detail = OK, "adjacent pairs suffice: the packed order is label-major"
    elif idx_terms:
        its = set()
        for (i, j) in idx_terms:
            for t in (i, j):
                for x in mir.subterms(t):
                    if mir.is_call(x, "next") and x[2] and isinstance(strip(x[2][0]), tuple):
                        its.add(strip(x[2][0]))
        its = sorted(its, key=repr)
        inits = {}
        for (h, l), v in te.mu_init.items():
            for it in its:
                if it[-1] == l and isinstance(v, tuple) and v[0] == "agg" and "Range" in str(v[2]):
                    inits[l] = (h, v)
        if len(its) == 2 and len(inits) == 2:
            (l1, (h1, r1)), (l2, (h2, r2)) = sorted(inits.items(), key=lambda kv: len(c.cfg.loop_headers.get(kv[1][0], ())), reverse=True)
            nested_ok = h2 in c.cfg.loop_headers.get(h1, ()) and h1 != h2
            lo1, hi1 = strip(r1[4][0]), strip(r1[4][1])
            lo2, hi2 = strip(r2[4][0]), strip(r2[4][1])
            full_outer = lo1 == ("const", "usize", "0") and mir.is_call(hi1, "len")
            inner_from = show(lo2)
            full_inner = mir.is_call(hi2, "len") and (lo2 == ("const", "usize", "0") or
                                                      ("next" in inner_from and "Add" in inner_from and inner_from.rstrip(").0").endswith("1")))
            distinct = all(i != j for i, j in idx_terms)
            if nested_ok and full_outer and full_inner and distinct:
                verdict, detail = OK, "all pairs i < j of the clause: outer %s, inner %s" % (show(r1)[:40], show(r2)[:60])
            else:
                verdict = VIOLATION
                detail = ("the pair loops do not cover all pairs (nested=%s, outer range %s, inner range %s, distinct indices=%s)"
                          % (nested_ok, show(r1)[:40], show(r2)[:60], distinct))
        elif len(its) == 1:
            sh = [(show(i), show(j)) for i, j in idx_terms]
            if polarity_major:
                verdict = VIOLATION
                detail = "a single loop compares %s: only neighbouring literals are tested, but the order is polarity-major" % sh[0:1]
            else:
                verdict, detail = OK, "adjacent pairs suffice: the packed order is label-major"
    return [inst("TF", key, verdict, c, None, detail)]
