"""HE — Hash/Eq field-set agreement of the hash-consed node types, and identity Hash/Eq
of the pointer types.

For BddNode, BinarySDD, SddOr (and the element type SddAnd) the set of fields read by
`PartialEq::eq` equals the set fed to `Hash::hash` and equals the set of Freeze fields
(everything except the RefCell scratch fields).  BddPtr / SddPtr compare and hash node
payloads by address (`ptr::eq` / `ptr::hash`) plus the discriminant, never structurally.
"""
from . import mir
from .base import inst, OK, VIOLATION, UNDECIDED
from .facts import CheckerError
from .mir import show

NODE_TYPES = ["repr::bdd::BddNode", "repr::sdd::binary_sdd::BinarySDD", "repr::sdd::sdd_or::SddOr",
              "repr::sdd::sdd_or::SddAnd"]
PTR_TYPES = ["repr::bdd::BddPtr", "repr::sdd::SddPtr"]


def fields_read(fn, adt, params=(1, 2)):
    """names of fields of `adt` read from the given parameters anywhere in the body"""
    te = fn.terms
    got = set()

    def visit(x):
        if x[0] == "field" and x[3] == adt and isinstance(x[1], tuple) and x[1][0] == "param" and x[1][1] in params:
            got.add(x[2])
    for cs in te.calls:
        for a in cs.args:
            mir.walk(a, visit)
    for b, (c, _) in te.switch_term.items():
        mir.walk(c, visit)
    mir.walk(te.ret, visit)
    for (_, pt, v, _) in te.stores:
        mir.walk(v, visit)
    return got


def _eq_by_variants(prog, eqf, adt_info, node_variants):
    """([errors], pairs evaluated) or None when some pair that matters could not be evaluated"""
    from .pe import PathEval, NotEval
    names = [v["name"] for v in adt_info["variants"]]
    errs, n = [], 0
    for va in names:
        for vb in names:
            env = {1: ("enumv", va, 1), 2: ("enumv", vb, 2)}
            try:
                r = PathEval(prog, eqf, {}, [], env=env).run()
            except NotEval:
                if va == vb and va not in node_variants and adt_info["variants"][names.index(va)]["fields"]:
                    continue       # a data-carrying non-node variant (a literal): compared field by field, not evaluated here
                return None
            except Exception:
                return None
            n += 1
            if va != vb:
                if r is not False:
                    errs.append("%s == %s evaluates to %r, expected false" % (va, vb, r))
            elif va in node_variants:
                ok = isinstance(r, tuple) and r[0] == "ptreq" and {r[1][:3], r[2][:3]} == {("payload", 1, va), ("payload", 2, vb)}
                if not ok:
                    errs.append("two %s pointers are compared as %r, expected ptr::eq of their nodes" % (va, r))
            elif not adt_info["variants"][names.index(va)]["fields"]:
                if r is not True:
                    errs.append("%s == %s evaluates to %r, expected true" % (va, vb, r))
    return errs, n


def run(prog):
    out = []
    for adt in NODE_TYPES:
        a = prog.adts.get(adt)
        if a is None:
            raise CheckerError("node type %s not found" % adt)
        fields = a["variants"][0]["fields"]
        structural = {f["name"] for f in fields if f["freeze"]}
        scratch = {f["name"] for f in fields if not f["freeze"]}
        eqf = prog.find(name="eq", self_adt=adt, impl_trait="std::cmp::PartialEq", unit="rsdd-lib")
        hf = prog.find(name="hash", self_adt=adt, impl_trait="std::hash::Hash", unit="rsdd-lib")
        if len(eqf) != 1 or len(hf) != 1:
            raise CheckerError("%s: expected one PartialEq::eq and one Hash::hash impl, found %d/%d"
                               % (adt, len(eqf), len(hf)))
        e = fields_read(eqf[0], adt)
        h = fields_read(hf[0], adt, params=(1,))
        errs = []
        if e != structural:
            if structural - e:
                errs.append("eq ignores structural field(s) %s (different nodes would be conflated)" % sorted(structural - e))
            if e - structural:
                errs.append("eq reads interior-mutable field(s) %s (identity would depend on traversal state)" % sorted(e - structural))
        if h != structural:
            if structural - h:
                errs.append("hash ignores structural field(s) %s" % sorted(structural - h))
            if h - structural:
                errs.append("hash reads interior-mutable field(s) %s" % sorted(h - structural))
        if e != h:
            errs.append("eq reads %s but hash feeds %s: equal nodes may hash differently / table lookups miss"
                        % (sorted(e), sorted(h)))
        out.append(inst("HE", "%s:fields" % adt, VIOLATION if errs else OK, eqf[0], None,
                        "; ".join(errs) if errs else "eq = hash = Freeze fields %s; scratch %s ignored"
                        % (sorted(structural), sorted(scratch))))
        # Ord (used to sort and deduplicate the elements of a decision node) must be consistent with Eq:
        # it compares field F of self with field F of other, for exactly the structural fields
        for cf in prog.find(name="cmp", self_adt=adt, impl_trait="std::cmp::Ord", unit="rsdd-lib"):
            errs3, seen = [], set()
            for cs in cf.terms.calls:
                if cs.callee.name not in ("cmp", "partial_cmp") or len(cs.args) != 2:
                    continue
                fa = [x[2] for x in mir.subterms(cs.args[0]) if x[0] == "field" and x[3] == adt and x[1] == ("param", 1)]
                fb = [x[2] for x in mir.subterms(cs.args[1]) if x[0] == "field" and x[3] == adt and x[1] == ("param", 2)]
                if len(fa) != 1 or len(fb) != 1:
                    fa2 = [x[2] for x in mir.subterms(cs.args[0]) if x[0] == "field" and x[3] == adt]
                    fb2 = [x[2] for x in mir.subterms(cs.args[1]) if x[0] == "field" and x[3] == adt]
                    if fa2 or fb2:
                        errs3.append("line %d: comparison %s vs %s does not pair one field of self with one of other"
                                     % (cs.line, show(cs.args[0]), show(cs.args[1])))
                    continue
                if fa[0] != fb[0]:
                    errs3.append("line %d: compares self.%s with other.%s" % (cs.line, fa[0], fb[0]))
                seen.add(fa[0])
                seen.add(fb[0])
            if seen != structural:
                if structural - seen:
                    errs3.append("cmp ignores structural field(s) %s: nodes that differ only there compare Equal "
                                 "although eq distinguishes them (sort/dedup of elements becomes non-canonical)"
                                 % sorted(structural - seen))
                if seen - structural:
                    errs3.append("cmp reads interior-mutable field(s) %s" % sorted(seen - structural))
            out.append(inst("HE", "%s:ord-fields" % adt, VIOLATION if errs3 else OK, cf, None,
                            "; ".join(errs3) if errs3 else "cmp pairs self.F with other.F for F in %s" % sorted(structural)))
        # IM1 companion: the scratch fields are exactly the non-Freeze ones and are private
        if adt != "repr::sdd::sdd_or::SddAnd":
            pub_scratch = [f["name"] for f in fields if not f["freeze"] and f["pub"]]
            exp_scratch = len(scratch) == 2
            errs2 = []
            if pub_scratch:
                errs2.append("interior-mutable field(s) %s are public" % pub_scratch)
            if not exp_scratch:
                errs2.append("expected exactly two interior-mutable fields (scratch, semantic_hash), found %s" % sorted(scratch))
            out.append(inst("HE", "%s:scratch-private" % adt, VIOLATION if errs2 else OK, None, None,
                            "; ".join(errs2) if errs2 else "interior-mutable state = %s, private" % sorted(scratch),
                            loc="%s:%d" % (a["file"], a["line"])))
    for adt in PTR_TYPES:
        a = prog.adts.get(adt)
        if a is None:
            raise CheckerError("pointer type %s not found" % adt)
        node_variants = [v["name"] for v in a["variants"]
                         if v["fields"] and v["fields"][0]["ty"].startswith("&")]
        eqf = prog.find1(name="eq", self_adt=adt, impl_trait="std::cmp::PartialEq", unit="rsdd-lib")
        hf = prog.find1(name="hash", self_adt=adt, impl_trait="std::hash::Hash", unit="rsdd-lib")
        # evaluate eq over every pair of variants (rules/pe.py): different variants are unequal, a node variant is
        # compared by the address of the two payloads, a unit variant is equal to itself
        sem = _eq_by_variants(prog, eqf, a, node_variants)
        if sem is not None:
            out.append(inst("HE", "%s:eq-identity" % adt, VIOLATION if sem[0] else OK, eqf, None,
                            "; ".join(sem[0][:3]) if sem[0] else "eq evaluated over %d variant pairs: ptr::eq on %s, false across variants, "
                            "true on equal unit variants" % (sem[1], sorted(node_variants))))
        errs = []
        te = eqf.terms
        ptr_eq_variants = set()
        for cs in (te.calls if sem is None else []):
            k = cs.callee.key()
            if cs.callee.name == "eq" and k.startswith("std::ptr::eq"):
                vs = []
                for arg in cs.args:
                    for x in mir.subterms(arg):
                        if x[0] == "as":
                            vs.append((x[1], x[2]))
                pv = {v for _, v in vs}
                ps = {p for p, _ in vs}
                if len(pv) == 1 and ps == {("param", 1), ("param", 2)}:
                    ptr_eq_variants |= pv
                else:
                    errs.append("line %d: ptr::eq compares payloads of different variants/operands: %s"
                                % (cs.line, [show(a) for a in cs.args]))
            elif cs.callee.name in ("eq", "ne") and cs.callee.res and any(n in cs.callee.res for n in NODE_TYPES):
                errs.append("line %d: structural comparison %s of node payloads inside pointer equality" % (cs.line, k))
        if sem is None:
            if set(node_variants) - ptr_eq_variants:
                errs.append("variant(s) %s are not compared by address" % sorted(set(node_variants) - ptr_eq_variants))
            if not any(cs.callee.name == "discriminant" for cs in te.calls):
                errs.append("?discriminants are not compared for the remaining variants")
            out.append(inst("HE", "%s:eq-identity" % adt, VIOLATION if errs else OK, eqf, None,
                            "; ".join(errs) if errs else "eq: ptr::eq on %s, discriminant otherwise" % sorted(ptr_eq_variants)))
        errs = []
        te = hf.terms
        names = [cs.callee.key() for cs in te.calls]
        if not any(n.startswith("std::ptr::hash") for n in names):
            errs.append("node payloads are not hashed by address (ptr::hash)")
        if not any(cs.callee.name == "discriminant" for cs in te.calls):
            errs.append("discriminant is not hashed (a node and its complement would collide as keys)")
        for cs in te.calls:
            if cs.callee.name == "hash" and cs.callee.res and any(("<%s" % n) in cs.callee.res for n in NODE_TYPES):
                errs.append("line %d: structural hash of a node payload inside pointer hash" % cs.line)
        out.append(inst("HE", "%s:hash-identity" % adt, VIOLATION if errs else OK, hf, None,
                        "; ".join(errs) if errs else "hash: discriminant + ptr::hash of the payload"))
    return out
