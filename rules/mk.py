"""MK — a memo over signed pointers applies the sign the same way going in and coming out.

Several traversals keep a map from diagram pointers to diagram pointers (a per-call HashMap, a builder field).  A
pointer is a node plus a complement bit, and most transformations T commute with negation, so it is tempting — and
fine — to let a node and its complement share an entry.  What has to hold, for every function in the crate that
looks a pointer up in such a map, returns the hit, and inserts into the same map under the same key:

  MK1  for each value of the sign of the argument p (regular / complemented): if a hit X is returned as
       neg^r(X), then on the miss path the value V that is stored and the value R that is returned satisfy
       R = neg^r(V).  (Lookup negates for a complemented p but insert stores the result as computed: every later
       visit gets the negated result.)
  MK2  if the key is the same for p and ¬p (the node address, the regular form) and the hit is returned without
       looking at the sign (r is the same for both signs), then T must not depend on the sign at all; a function that
       returns p itself on some path does.

The sign of p is resolved to each value in turn (choices on is_neg(p) and on the variant of p are specialised),
negations are counted; nothing is executed.  Functions whose memo does not hold pointers of the argument's type
(serialisers: indices; the top-down cache: keyed by a hash) produce no instance.
"""
from . import mir, canon
from .base import inst, OK, VIOLATION, UNDECIDED, strip, bool_arms
from .mir import show

COMPL = {"Compl", "ComplBDD"}
REGULAR = {"Reg", "BDD"}


def _peel(t):
    t = strip(t)
    while isinstance(t, tuple) and t and t[0] in ("deref", "ref"):
        t = strip(t[1])
    while mir.is_call(t, "clone") or mir.is_call(t, "copied") or mir.is_call(t, "cloned"):
        t = strip(t[2][0])
    return t


def _map_id(te, bb, t):
    """the map a get/insert works on, without the borrow plumbing (RefCell borrow/borrow_mut, Deref, &mut locals)"""
    t = strip(t)
    for _ in range(8):
        if isinstance(t, tuple) and t and t[0] == "mutref" and t[1] in te.state_in.get(bb, {}):
            t = strip(te.state_in[bb][t[1]])
        elif isinstance(t, tuple) and t and t[0] == "mut" and getattr(t[2], "name", "") in ("deref_mut", "borrow_mut", "deref", "borrow", "as_mut", "get_mut"):
            t = strip(t[3])
        elif any(mir.is_call(t, n_) for n_ in ("deref_mut", "borrow_mut", "deref", "borrow", "as_mut", "as_ref")) and t[2]:
            t = strip(t[2][0])
        elif isinstance(t, tuple) and t and t[0] in ("deref", "ref"):
            t = strip(t[1])
        else:
            break
    return show(t)


def specialise(te, t, p, s):
    """resolve every choice on the sign of parameter p in t for sign s (0 regular, 1 complemented)"""
    def is_sign_test(c):
        c = _peel(c)
        return mir.is_call(c, "is_neg") and _peel(c[2][0]) == p

    def go(x):
        if not isinstance(x, tuple) or not x:
            return x
        if x[0] == "gamma":
            ba = bool_arms(x)
            if ba:
                c = strip(ba[0])
                if is_sign_test(c):
                    return go(ba[2] if s else ba[1])
                if isinstance(c, tuple) and c and c[0] == "un" and c[1] == "Not" and is_sign_test(c[2]):
                    return go(ba[1] if s else ba[2])
            c = strip(x[1])
            if isinstance(c, tuple) and c and c[0] == "discr" and _peel(c[1]) == p:
                vm = te._discr_variants.get(x[1]) or te._discr_variants.get(c) or {}
                keep = []
                for lab, v in x[2]:
                    names = [vm.get(lab)] if isinstance(lab, str) else \
                        [n for val, n in vm.items() if isinstance(lab, tuple) and lab[0] == "not" and val not in lab[1]] if isinstance(lab, tuple) and lab[0] == "not" else \
                        [vm.get(l_) for l_ in lab[1]] if isinstance(lab, tuple) and lab[0] == "in" else []
                    names = [n for n in names if n]
                    want = COMPL if s else REGULAR
                    if any(n in want for n in names):
                        keep.append(v)
                if len(keep) == 1:
                    return go(keep[0])
        if x[0] == "call":
            return (x[0], x[1], tuple(go(a) for a in x[2])) + tuple(x[3:])
        return tuple(go(a) if isinstance(a, tuple) else a for a in x)
    return go(t)


def parity(t, base):
    """k when t = neg^k(base) (mod 2), else None"""
    t, base = _peel(t), _peel(base)
    k = 0
    while True:
        if t == base:
            return k
        if mir.is_call(t, "neg") and t[2]:
            k ^= 1
            t = _peel(t[2][0])
            continue
        return None


def _abstract_key(te, k, p, s):
    """the key with the pointer replaced by (node N, sign): equal for both signs iff the key ignores the sign"""
    k = specialise(te, k, p, s)

    def go(x):
        x = _peel(x) if isinstance(x, tuple) and x and x[0] in ("deref", "ref") else x
        if not isinstance(x, tuple) or not x:
            return x
        if x == p:
            return ("sgn", s)
        if x[0] == "field" and isinstance(x[1], tuple) and x[1] and x[1][0] == "as" and _peel(x[1][1]) == p and x[1][2] in COMPL | REGULAR:
            return ("node",)
        if mir.is_call(x, "neg") and x[2]:
            a = go(x[2][0])
            if isinstance(a, tuple) and a and a[0] == "sgn":
                return ("sgn", 1 - a[1])
            return (x[0], x[1], (a,)) + tuple(x[3:])
        if mir.is_call(x, "to_reg") or mir.is_call(x, "regular") or mir.is_call(x, "as_reg"):
            a = go(x[2][0])
            if isinstance(a, tuple) and a and a[0] == "sgn":
                return ("sgn", 0)
        if x[0] == "cast":
            return go(x[2])
        if x[0] == "agg" and x[1] == "adt" and x[3] in REGULAR and len(x[4]) == 1 and go(x[4][0]) == ("node",):
            return ("sgn", 0)
        if x[0] == "call":
            return (x[0], x[1], tuple(go(a) for a in x[2])) + tuple(x[3:])
        return tuple(go(a) if isinstance(a, tuple) else a for a in x)
    return go(strip(k))


def _leaves(t):
    t = strip(t)
    if isinstance(t, tuple) and t and t[0] in ("phi", "gamma"):
        out = []
        for _, v in t[2]:
            out += _leaves(v)
        return out
    return [t]


def run(prog):
    from .gl import _returned_after
    out = []
    for f in prog.lib_fns:
        if "::test" in f.npath or f.name.startswith("test") or f.npath.startswith("util::hypergraph") or \
                not any(b["term"]["k"] == "call" for b in f.blocks):
            continue
        te = f.terms
        gets = [cs for cs in te.calls if cs.callee.name in ("get", "get_mut") and "HashMap" in cs.callee.key() and len(cs.args) == 2]
        if not gets or te.ret is None:
            continue
        for g in gets:
            m = _peel(g.args[0])
            mid = _map_id(te, g.bb, g.args[0])
            ins = [cs for cs in te.calls if cs.callee.name == "insert" and "HashMap" in cs.callee.key() and len(cs.args) == 3
                   and (_peel(cs.args[0]) == m or _map_id(te, cs.bb, cs.args[0]) == mid)]
            if not ins:
                continue
            def norm(t_, f_=f):
                # a private helper of the same type with a plain body (`with_polarity_of(p, r)`) is read as its body
                try:
                    t_ = canon.inline_local(prog, t_, lambda h: h.impl_self == f_.impl_self and "{closure" not in h.npath and h is not f_)
                except Exception:
                    pass
                return canon.beta(prog, t_)
            ret_t = norm(te.ret)
            hit = canon.payload(("call", g.callee, tuple(g.args)))
            hit_s = show(_peel(hit))

            def is_hit(x):
                x = _peel(x)
                return canon.is_payload(x) and mir.is_call(strip(x[1][1]), "get") and show(_peel(strip(x[1][1])[2][0])) == show(m)
            # the pointer parameter: a parameter the key is built from
            ps = sorted({x[1] for x in mir.subterms(g.args[1]) if x[0] == "param"})
            if len(ps) != 1:
                # a composite key (pointer, variable, value): the signed pointer is the pointer-typed component
                ps = [i for i in ps if isinstance(i, int) and i < len(f.locals) and
                      any(n_ in f.locals[i]["s"] for n_ in ("BddPtr", "SddPtr"))]
            if len(ps) != 1:
                continue
            p = ("param", ps[0])
            signed = any((mir.is_call(x, "is_neg") and x[2] and _peel(x[2][0]) == p) or
                         (x[0] == "as" and _peel(x[1]) == p and x[2] in COMPL | REGULAR)
                         for cs_ in te.calls for a_ in list(cs_.args) + [cs_.term] for x in mir.subterms(a_)) or \
                any(x[0] == "as" and _peel(x[1]) == p and x[2] in COMPL | REGULAR for x in mir.subterms(te.ret)) or \
                any(mir.is_call(x, "is_neg") and x[2] and _peel(x[2][0]) == p for x in mir.subterms(ret_t))
            if not signed:
                continue
            rets = _leaves(ret_t)
            # alternatives of the return that are the hit, possibly negated
            rd = {}
            shape_ok = True
            for s in (0, 1):
                vals = set()
                for r in _leaves(specialise(te, ret_t, p, s)):
                    base = [x for x in mir.subterms(r) if is_hit(x)]
                    if not base:
                        continue
                    k = parity(r, base[0])
                    vals.add(k)
                if len(vals) == 1 and None not in vals:
                    rd[s] = vals.pop()
                elif vals:
                    shape_ok = False
            if not rd:
                continue     # the hit is not returned as a pointer (an index, a count): not this rule's subject
            key = "%s:memo(%s)" % (f.npath, show(m)[:24])
            if not shape_ok or len(rd) != 2:
                out.append(inst("MK", key + ":MK1", UNDECIDED, f, g.line, "the hit is returned in a form the rule does not read: %s" % rd))
                continue
            errs = []
            und = []
            for cs in ins:
                if show(_peel(cs.args[1])) != show(_peel(g.args[1])):
                    continue
                for s in (0, 1):
                    # is this insertion on a path for sign s at all?
                    facts = te.facts_at(cs.bb)
                    contra = False
                    for c, v, _, _ in facts:
                        c0 = _peel(c)
                        if mir.is_call(c0, "is_neg") and _peel(c0[2][0]) == p and ((v != "0") != bool(s)):
                            contra = True
                    if contra:
                        continue
                    V = specialise(te, norm(cs.args[2]), p, s)
                    after = [specialise(te, norm(a), p, s) for a in _returned_after(f, te, te.ret, cs.bb, split=False)]
                    if not after:
                        und.append("no return after the insertion at line %d" % cs.line)
                        continue
                    for R in after:
                        if any(is_hit(x) for x in mir.subterms(R)):
                            continue
                        k = parity(R, V)
                        if k is None:
                            k2 = parity(V, R)
                            k = k2
                        if k is None:
                            und.append("stored %s / returned %s" % (show(V)[:40], show(R)[:40]))
                        elif k != rd[s]:
                            errs.append("for a %s argument a hit X is returned as %s, but on a miss the function stores V and returns "
                                        "%s (line %d): every later visit of that node through %s edge gets the %s result"
                                        % ("complemented" if s else "regular", "neg(X)" if rd[s] else "X",
                                           "neg(V)" if k else "V", cs.line, "a complemented" if s else "a regular",
                                           "negated" if True else ""))
            if errs:
                out.append(inst("MK", key + ":MK1", VIOLATION, f, g.line, "; ".join(sorted(set(errs))[:2])))
            elif und:
                out.append(inst("MK", key + ":MK1", UNDECIDED, f, g.line, "; ".join(und[:2])))
            else:
                out.append(inst("MK", key + ":MK1", OK, f, g.line,
                                "hit returned as %s; stored and returned values on a miss agree with that"
                                % {(0, 0): "X for both signs", (0, 1): "X / neg(X) by the sign of the argument", (1, 0): "neg(X) / X", (1, 1): "neg(X)"}[(rd[0], rd[1])]))
            # MK2
            k0, k1 = _abstract_key(te, g.args[1], p, 0), _abstract_key(te, g.args[1], p, 1)
            if repr(k0) == repr(k1) and rd[0] == rd[1]:
                self_ret = [r for r in rets if _peel(r) == p]
                out.append(inst("MK", key + ":MK2", VIOLATION if self_ret else OK, f, g.line,
                                ("a node and its complement share one memo entry (the key %s does not contain the sign) and the "
                                 "hit is returned without regard to the sign, but the function is not sign-invariant: it returns "
                                 "its argument unchanged on some path, so T(¬p) ≠ T(p)" % show(g.args[1])[:60]) if self_ret else
                                "shared entry, sign ignored, and the function never returns its argument itself"))
    return out
