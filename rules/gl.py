"""GL — guarded lookup and key agreement (C16 first sentence; C02/C04 unique table; C06/C11 caches).

GL1  Lru::get returns Some(entry.val) only under the true edge of `entry.key == key`.
GL2  Lru::insert writes one Element{key,val,hash} built from its three parameters into the slot
     computed by the same function of (hash, cap) that `get` uses; grow re-inserts
     (e.key, e.val, e.hash) of one element.
GL3  BackedRobinhoodTable::get_or_insert_by_hash returns a stored pointer only under
     `hash == cur.hash` and (`equality_by_hash` or `*found == elem`).
GL4  callers use one key (and one hash) for the lookup and for the insertion that follows.
GL5  LruIteTable::hash is a function of (f, g, h) only.
"""
from . import mir, canon
from .base import inst, OK, VIOLATION, UNDECIDED, strip, gamma_arms, verdict_of, errtext
from .facts import CheckerError
from .mir import show, strip_refs


def rename_params(t, m):
    if not isinstance(t, tuple) or not t:
        return t
    if t[0] == "param":
        return ("param", m.get(t[1], t[1]))
    if t[0] == "call":
        return (t[0], t[1].name, tuple(rename_params(a, m) for a in t[2]))
    return tuple(rename_params(x, m) if isinstance(x, tuple) else x for x in t)


def true_edges(fn, pred):
    """edges (d, s) taken when the switch condition of block d — a term satisfying pred — is true"""
    te = fn.terms
    out = []
    for d, (c, _) in te.switch_term.items():
        if not pred(c):
            continue
        t = fn.blocks[d]["term"]
        zero = [b for v, b in t["targets"] if v == "0"]
        for s in fn.cfg.succ[d]:
            if s not in zero:
                out.append((d, s))
    return out


def reachable_without(fn, target, banned):
    """is `target` reachable from entry without taking any banned edge?"""
    cfg = fn.cfg
    banned = set(banned)
    seen = set()
    stack = [0]
    while stack:
        x = stack.pop()
        if x in seen:
            continue
        seen.add(x)
        if x == target:
            return True
        for s in cfg.succ[x]:
            if (x, s) not in banned:
                stack.append(s)
    return False


def is_eq(c, a_pred, b_pred):
    return (isinstance(c, tuple) and c[0] == "bin" and c[1] == "Eq" and
            ((a_pred(c[2]) and b_pred(c[3])) or (a_pred(c[3]) and b_pred(c[2]))))


def gl1(prog):
    fn = prog.find1(name="get", self_adt="util::lru::Lru", unit="rsdd-lib")
    te = fn.terms
    out = []
    keyp = ("param", 2)
    # the Some(..) results: constructed under branch facts, or produced by Option combinators whose `filter`
    # predicates play the role of the branch facts
    somes = [(strip(t[4][0]), [c for c, val, _, d in te.facts_at(bb) if val != "0"], line)
             for bb, t, line in te.aggs if t[3] == "Some"]
    if not somes:
        og = canon.option_outcomes_g(prog, te, te.ret)
        somes = [(strip(p), [strip(g) for g in gs], None) for p, gs in (og or [])]
    if not somes:
        out.append(inst("GL", "%s:GL1:return-Some" % fn.npath, UNDECIDED, fn, None, "no Some(..) result recognised in Lru::get"))
    for v, known, line in somes:
        errs = []
        if not (isinstance(v, tuple) and v[0] == "field" and v[2] == "val"):
            errs.append("returned value is not the `val` of a table entry: %s" % show(v))
        else:
            entry = v[1]
            ok = False
            for c in known:
                if is_eq(c, lambda x: isinstance(x, tuple) and x[0] == "field" and x[1] == entry and x[2] == "key",
                         lambda x: x == keyp):
                    ok = True
            if not ok:
                errs.append("Some(entry.val) is not control-dependent on the true edge of `entry.key == key` "
                            "(a colliding entry stored under another key would be returned)")
        out.append(inst("GL", "%s:GL1:return-Some" % fn.npath, VIOLATION if errs else OK, fn, line,
                        "; ".join(errs) if errs else "Some(e.val) only under e.key == key"))
    return out, fn


def slot_fn(fn, hash_param):
    """the slot expression used to index self.tbl, with the hash parameter renamed to 'H'"""
    te = fn.terms
    slots = set()
    for cs in te.calls:
        if cs.callee.name in ("index", "index_mut") and cs.args and show(cs.args[0]).endswith(".tbl"):
            slots.add(repr(rename_params(cs.args[1], {hash_param: "H"})))
    return slots


def gl2(prog, getfn):
    out = []
    ins = prog.find1(name="insert", self_adt="util::lru::Lru", unit="rsdd-lib")
    te = ins.terms
    newf = prog.find1(name="new", self_adt="util::lru::Element", unit="rsdd-lib")
    rt = newf.terms.ret
    e = None
    if not (rt[0] == "agg" and rt[5] == ("key", "val", "hash") and rt[4] == (("param", 1), ("param", 2), ("param", 3))):
        e = "Element::new does not build Element{key: arg1, val: arg2, hash: arg3}: %s" % show(rt)
    out.append(inst("GL", "%s:GL2:ctor" % newf.npath, VIOLATION if e else OK, newf, None, e or "Element{key,val,hash} in order"))
    stores = [s for s in te.stores if s[1][0] == "call" and s[1][1].name == "index_mut"]
    errs = []
    partial = [s_ for s_ in te.stores if "index_mut" in show(s_[1]) and s_ not in stores]
    if partial:
        errs.append("a slot is updated in place (%s := …): key, value and hash are no longer written together, so a "
                    "stored key can be paired with another key's value" % show(partial[0][1])[:70])
    if len(stores) != 1:
        errs.append("%sexpected exactly one whole-slot write, found %d" % ("?" if not stores and not partial else "", len(stores)))
    else:
        bb, pt, val, line = stores[0]
        v = strip(val)
        elem = v[4][0] if (v[0] == "agg" and v[3] == "Some") else None
        if not (mir.is_call(elem, "new") and elem[2] == (("param", 2), ("param", 3), ("param", 4))):
            errs.append("slot is not written with Some(Element::new(key, val, hash)) of the call's own "
                        "arguments: %s" % show(val))
    if len(stores) == 1:
        # every call that returns has written the slot: "the value most recently inserted" includes the case that the
        # key is already there (an early return on `cur.key == key` keeps the older value)
        from .ts import count_until
        sb = stores[0][0]
        grow_bbs = {cs.bb for cs in te.calls if cs.callee.name == "grow"}
        r = count_until(ins, 0, lambda x: x == sb, lambda x: False, count_start=True)
        if r is not None and r[0] < 1:
            errs.append("a path through insert returns without writing the slot: the entry that is there (possibly an older "
                        "value under the same key) stays")
    s_ins = slot_fn(ins, 4)
    s_get = slot_fn(getfn, 3)
    if not s_ins or not s_get:
        errs.append("slot expression not found")
    elif s_ins != s_get:
        errs.append("insert and get compute the slot differently: %s vs %s" % (sorted(s_ins), sorted(s_get)))
    out.append(inst("GL", "%s:GL2:slot-write" % ins.npath, VIOLATION if errs else OK, ins, None,
                    "; ".join(errs) if errs else "tbl[f(hash,cap)] = Some(Element::new(key,val,hash)); same f as get"))
    # the slot is computed from the table's *current* geometry: no call that can change a field the slot expression
    # reads (grow doubles cap) runs between the read and the write.  A slot computed before the growth indexes the
    # doubled table with the old mask: the new value lands where get does not look, and the copy that grow moved to
    # the right slot is the older one.
    errs = []
    if len(stores) == 1:
        sb = stores[0][0]
        reads = []       # (block of the computation, field of self it reads)
        for x in mir.subterms(stores[0][1][2][1]) if len(stores[0][1][2]) > 1 else ():
            if x[0] == "call" and len(x) > 3 and isinstance(x[3], tuple) and x[3]:
                for y in mir.subterms(("t",) + tuple(x[2])):
                    if y[0] == "field" and strip(y[1]) == ("param", 1):
                        reads.append((x[3][0], y[2]))
                # a private slot helper handed the table itself (`self.slot(hash)`): the fields its body reads
                if (x[1].local or x[1].res_local) and x[1].name not in ("grow", "insert"):
                    for i_, a_ in enumerate(x[2]):
                        if strip_refs(a_) != ("param", 1):
                            continue
                        for g in prog.resolve(x[1]):
                            if "{closure" in g.npath:
                                continue
                            got = set()

                            def visit(z, got=got, i_=i_):
                                if z[0] == "field" and isinstance(z[1], tuple) and strip_refs(z[1]) == ("param", i_ + 1):
                                    got.add(z[2])
                            gt = g.terms
                            for cs2 in gt.calls:
                                for a2 in cs2.args:
                                    mir.walk(a2, visit)
                            if gt.ret is not None:
                                mir.walk(gt.ret, visit)
                            for fld in got:
                                reads.append((x[3][0], fld))
        if not reads:
            errs.append("?the slot expression reads no field of the table through a call")
        for cs in te.calls:
            if not any(strip(a) == ("param", 1) for a in cs.args):
                continue
            written = set()
            for g in prog.resolve(cs.callee):
                for (_, pt, _, _) in g.terms.stores:
                    p_ = strip(pt)
                    while isinstance(p_, tuple) and p_ and p_[0] == "field" and strip(p_[1]) != ("param", 1):
                        p_ = strip(p_[1])
                    if isinstance(p_, tuple) and p_ and p_[0] == "field" and strip(p_[1]) == ("param", 1):
                        written.add(p_[2])
            for rb, fld in reads:
                if fld in written and rb != cs.bb and cs.bb in ins.cfg.reachable_from(rb) and sb in ins.cfg.reachable_from(cs.bb):
                    errs.append("the slot is computed from self.%s (%s) before `%s` may change it (line %s), and used to write the "
                                "table afterwards: after a growth the entry is written at the slot of the old capacity, where "
                                "get does not look, while the copy grow re-inserted at the right slot is the older value"
                                % (fld, show(stores[0][1][2][1])[:50], cs.callee.name, cs.line))
    else:
        errs.append("?no single whole-slot write")
    out.append(inst("GL", "%s:GL2:slot-after-growth" % ins.npath, verdict_of(errs), ins, None,
                    errtext(sorted(set(errs))[:1]) if errs else "the slot is computed after the last call that can change the fields it reads"))
    grow = prog.find1(name="grow", self_adt="util::lru::Lru", unit="rsdd-lib")
    te = grow.terms
    # the re-insertion may sit in a closure handed to an iterator adaptor (for_each)
    bodies = [grow] + [g for g in prog.lib_fns if g.npath.startswith(grow.npath + "::{closure")]
    calls = [cs for g in bodies for cs in g.terms.calls
             if cs.callee.name == "insert" and cs.callee.key().startswith("util::lru::Lru")]
    errs = []
    if not calls:
        # no re-insertion through `insert`: entries are moved by hand.  A slot value copied into *another* slot of the
        # same table must leave its old slot (take / store None); otherwise the key lives in two slots, and a later
        # overwrite updates only one of them (the stale copy wins at the next growth).
        for g in bodies:
            gt = g.terms
            for (bb, pt, val, line) in gt.stores:
                pt_, v_ = strip(pt), strip(val)
                if not (mir.is_call(pt_, "index_mut") and show(pt_[2][0]).endswith(".tbl")):
                    continue
                src = v_[2][0] if mir.is_call(v_, "clone") else v_
                src = strip(src)
                if mir.is_call(src, "index") and show(src[2][0]) == show(pt_[2][0]) and strip(src[2][1]) != strip(pt_[2][1]):
                    cleared = any(mir.is_call(strip(p2), "index_mut") and strip(strip(p2)[2][1]) == strip(src[2][1]) and
                                  strip(v2)[0] == "agg" and strip(v2)[3] == "None" for (_, p2, v2, _) in gt.stores) or \
                        any(c.callee.name in ("take", "replace", "swap") for c in gt.calls)
                    if not cleared:
                        errs.append("grow copies the entry of slot %s into slot %s and leaves the original in place: the key is "
                                    "then stored twice, and the stale copy can overwrite a newer value at the next growth"
                                    % (show(src[2][1])[:40], show(pt_[2][1])[:50]))
    moved_ok = False
    if not calls and not errs:
        # entries moved whole into a fresh table that then replaces the old one: `new_tbl[f(e.hash, new_cap)] = Some(e)`
        for g in bodies:
            gt = g.terms
            for (bb, pt, val, line) in gt.stores:
                pt_, v_ = strip(pt), strip(val)
                swapped = show(pt_[2][0]).endswith("arg1.tbl") and any(
                    c.callee.name in ("replace", "take") and "mem" in c.callee.key() and c.args and show(c.args[0]).endswith("arg1.tbl")
                    for c in gt.calls) if mir.is_call(pt_, "index_mut") else False
                if not (mir.is_call(pt_, "index_mut") and (swapped or (not show(pt_[2][0]).endswith(".tbl") and "arg1." not in show(pt_[2][0])))):
                    continue
                if not (v_[0] == "agg" and v_[3] == "Some" and len(v_[4]) == 1):
                    continue
                item = strip(v_[4][0])
                if "next(" not in show(item):
                    continue
                idx = strip(pt_[2][1])
                hashes = [x for x in mir.subterms(idx) if x[0] == "field" and x[2] == "hash" and strip(x[1]) == item]
                ins_slot = {c.callee.name for c in ins.terms.calls if c.callee.local and c.callee.name not in ("grow", "new", "insert")}
                my_slot = {x[1].name for x in [idx] + list(mir.subterms(idx)) if mir.is_call(x) and x[1].local}
                if not hashes:
                    errs.append("grow moves an entry to slot %s, which is not computed from the entry's own stored hash" % show(idx)[:50])
                elif ins_slot and my_slot and not (my_slot & ins_slot):
                    errs.append("grow places entries with %s but insert and get use %s" % (sorted(my_slot), sorted(ins_slot)))
                else:
                    # ... for the capacity the table will have: the value stored into self.cap
                    newcap = [strip(v2) for g2 in bodies for (_, p2, v2, _) in g2.terms.stores
                              if strip(p2)[0] == "field" and strip(p2)[2] == "cap" and "arg1" in show(strip(p2)[1])]
                    slot_calls = [x for x in [idx] + list(mir.subterms(idx)) if mir.is_call(x) and x[1].local and len(x[2]) == 2]
                    # a slot helper that is handed the table reads the capacity itself: the new capacity must have been stored
                    # before the entries are placed
                    via_self = bool(slot_calls) and strip_refs(strip(slot_calls[0][2][0])) == ("param", 1)
                    if swapped or via_self:
                        cap_bbs = [b2 for g2 in bodies for (b2, p2, v2, _) in g2.terms.stores
                                   if g2 is g and strip(p2)[0] == "field" and strip(p2)[2] == "cap" and "arg1" in show(strip(p2)[1])]
                        if not cap_bbs or not all(bb in g.cfg.reachable_from(cb) and cb not in g.cfg.reachable_from(bb) for cb in cap_bbs):
                            errs.append("grow places the entries with a helper that reads self.cap, but the new capacity is not stored "
                                        "before the entries are placed: get looks for them at the slot of the new capacity")
                        else:
                            moved_ok = True
                    elif newcap and slot_calls and strip(slot_calls[0][2][1]) != newcap[0]:
                        errs.append("grow places the entries for capacity %s while the table's capacity becomes %s: get looks for them "
                                    "at the slot of the new capacity" % (show(slot_calls[0][2][1])[:30], show(newcap[0])[:30]))
                    else:
                        moved_ok = True
    if errs:
        pass
    elif moved_ok:
        pass
    elif len(calls) != 1:
        errs.append("%sexpected one re-insert call in grow, found %d" % ("?" if not calls else "", len(calls)))
    else:
        a = [strip(x) for x in calls[0].args[1:]]
        names = [x[2] if x[0] == "field" else None for x in a]
        bases = {x[1] for x in a if x[0] == "field"}
        if names != ["key", "val", "hash"] or len(bases) != 1:
            errs.append("grow re-inserts (%s) — must be (e.key, e.val, e.hash) of one element"
                        % ", ".join(show(x) for x in a))
    out.append(inst("GL", "%s:GL2:grow" % grow.npath, verdict_of(errs), grow, None,
                    errtext(errs) if errs else ("moves every surviving entry whole to the slot its stored hash selects in the new table"
                                                if moved_ok else "re-inserts (e.key, e.val, e.hash) of each surviving element")))
    return out


def gl3(prog):
    fn = prog.find1(name="get_or_insert_by_hash", self_adt="backing_store::bump_table::BackedRobinhoodTable",
                    unit="rsdd-lib")
    te = fn.terms
    out = []
    hashp, elemp, byhash = ("param", 2), ("param", 3), ("param", 4)
    # return alternatives that come from the table (not from the allocator)
    alts = []
    for b, t in te.ret_by_block.items():
        def collect(x, pred_b):
            if isinstance(x, tuple) and x and x[0] in ("phi",):
                for p, v in x[2]:
                    collect(v, p)
            elif isinstance(x, tuple) and x and x[0] == "gamma":
                for _, v in x[2]:
                    collect(v, pred_b)
            else:
                alts.append((pred_b, x))
        collect(t, b)
    # private helpers of the table that allocate (the allocation block may have been extracted into one)
    T_ = "backing_store::bump_table::BackedRobinhoodTable"
    helpers = {}
    for g in prog.lib_fns:
        if g.impl_self == T_ and g is not fn and any(c.callee.name == "alloc" for c in g.terms.calls):
            helpers[g.name] = g

    def is_alloc(x):
        x = strip(x)
        return mir.is_call(x, "alloc") or (x[0] == "call" and x[1].name in helpers)
    found_alts = [(b, x) for b, x in alts if not is_alloc(x)]
    alloc_alts = [(b, x) for b, x in alts if is_alloc(x)]
    if not found_alts or not alloc_alts:
        raise CheckerError("get_or_insert_by_hash: expected both found and allocated return paths")
    for b, x in found_alts:
        errs = []
        x = strip(x)
        via = _found_through_helper(prog, fn, x, hashp, elemp, byhash)
        if via is not None:
            out.append(inst("GL", "%s:GL3:return-found" % fn.npath, verdict_of(via), fn, None,
                            errtext(via) if via else "found (through the shared probe helper) only if hash == cur.hash && (by_hash || *found == elem)"))
            continue
        if not (mir.is_call(x, "unwrap") and x[2][0][0] == "field" and x[2][0][2] == "ptr"):
            from_helper = any(mir.is_call(y) and (y[1].local or getattr(y[1], "res_local", False)) and y[1].name not in ("alloc",)
                              for y in [x] + list(mir.subterms(x)))
            errs.append(("?the found pointer is handed back by a helper (%s): the guards in front of it are not read here" if from_helper else
                         "returned value is not the stored pointer of a slot: %s") % show(x)[:70])
        else:
            slot = x[2][0][1]
            e_hash = true_edges(fn, lambda c: is_eq(c, lambda a: a == hashp,
                                                    lambda a: a[0] == "field" and a[1] == slot and a[2] == "hash"))
            if not e_hash or reachable_without(fn, b, e_hash):
                errs.append("`return found` is reachable without passing the true edge of `hash == cur.hash`")
            e_eq = true_edges(fn, lambda c: c == byhash) + \
                true_edges(fn, lambda c: is_eq(c, lambda a: a == x, lambda a: a == elemp))
            if not e_eq or reachable_without(fn, b, e_eq):
                errs.append("`return found` is reachable without `equality_by_hash` or `*found == elem` being true "
                            "(an unequal node with a colliding hash would be returned)")
        out.append(inst("GL", "%s:GL3:return-found" % fn.npath, verdict_of(errs), fn, None,
                        errtext(errs) if errs else "found returned only if hash == cur.hash && (by_hash || *found == elem)"))
    # allocated entries are stored with the request's hash
    errs = []
    news = [cs for cs in te.calls if cs.callee.name == "new" and "HashTableElement" in cs.callee.key()]
    for cs in news:
        if not (mir.is_call(strip(cs.args[0]), "alloc") and cs.args[1] == hashp):
            errs.append("line %d: new entry is not (alloc(elem), hash, psl): %s" % (cs.line, [show(a) for a in cs.args]))
    sites = len(news)
    for cs in te.calls:
        if cs.callee.name == "alloc" and cs.args[-1] != elemp:
            errs.append("line %d: allocates something other than the requested element" % cs.line)
    # insertion through an allocating helper: the helper builds (alloc(its element parameter), its hash parameter, ..)
    # and is called with the request's element and hash in those positions
    for hname, g in helpers.items():
        gte = g.terms
        gnews = [cs for cs in gte.calls if cs.callee.name == "new" and "HashTableElement" in cs.callee.key()]
        for cs in gnews:
            a0, a1 = strip(cs.args[0]), strip(cs.args[1])
            if not (mir.is_call(a0, "alloc") and strip(a0[2][-1])[0] == "param" and a1[0] == "param"):
                errs.append("%s: new entry is not (alloc(elem), hash, psl) of its parameters: %s" % (hname, [show(a) for a in cs.args]))
                continue
            pe, ph = strip(a0[2][-1])[1], a1[1]
            for call in [c for c in te.calls if c.callee.name == hname]:
                sites += 1
                if strip(call.args[pe - 1]) != elemp or strip(call.args[ph - 1]) != hashp:
                    errs.append("line %d: %s is not given the requested element and its hash" % (call.line, hname))
    if sites < 1:
        errs.append("?no insertion site found")     # the two cases (free slot / eviction) may share one site
    out.append(inst("GL", "%s:GL3:insert-entry" % fn.npath, verdict_of(errs), fn, None,
                    errtext(errs) if errs else "new entries = (alloc(elem), hash, psl)"))
    return out


def _found_through_helper(prog, fn, x, hashp, elemp, byhash):
    """`match self.probe(hash, |found| by_hash || *found == elem) { Found(p) => p, .. }`: the found pointer is the payload of a
    variant that a private probe helper returns.  The helper must hand out a stored pointer only under `hash == slot.hash` and
    a true answer of the predicate it was given, and the predicate given here must be `by_hash || *found == elem`.
    None when x is not of that shape; otherwise the list of errors ('?' = not read)."""
    x = strip(x)
    if not (isinstance(x, tuple) and x and x[0] == "field" and isinstance(x[1], tuple) and x[1] and x[1][0] == "as"):
        return None
    call = strip(x[1][1])
    if not (mir.is_call(call) and (call[1].local or getattr(call[1], "res_local", False))):
        return None
    vname = x[1][2]
    hs = [h for h in prog.resolve(call[1]) if "{closure" not in h.npath]
    if len(hs) != 1 or hs[0].terms.ret is None:
        return ["?the helper %s is not read" % call[1].name]
    h = hs[0]
    args = [strip(a) for a in call[2]]
    if hashp not in args:
        return ["?the helper %s is not handed the request's hash" % h.name]
    hi = args.index(hashp) + 1
    clos = [(i + 1, a) for i, a in enumerate(args) if isinstance(a, tuple) and a and a[0] == "agg" and a[1] == "closure"]
    if len(clos) != 1:
        return ["?the helper %s is not handed one acceptance predicate" % h.name]
    ci, clo = clos[0]
    # the predicate: by_hash || *found == elem
    kf = [g for g in prog.lib_fns if g.npath == clo[2]]
    errs = []
    caps = dict(zip(clo[5] or (), [strip(v) for v in clo[4]]))
    ok_pred = False
    if kf and kf[0].terms.ret is not None:
        r = strip(kf[0].terms.ret)
        alts_ = []
        if r[0] == "gamma":
            c0 = strip(r[1])
            if c0[0] == "upvar" and caps.get(c0[1]) == byhash:
                for lab, v in r[2]:
                    v = strip(v)
                    if lab == "0":
                        if v[0] == "bin" and v[1] == "Ne" and any(t[0] == "upvar" and caps.get(t[1]) == elemp for t in (strip(v[2]), strip(v[3]))):
                            errs.append("the acceptance predicate handed to %s accepts a stored element when it is *different* from the "
                                        "requested one" % h.name)
                            ok_pred = True
                        if v[0] == "bin" and v[1] == "Eq":
                            sides = [strip(v[2]), strip(v[3])]
                            ups = [t for t in sides if t[0] == "upvar" and caps.get(t[1]) == elemp]
                            prm = [t for t in sides if mir.strip_refs(t) == ("param", 2) or (t[0] == "deref" and mir.strip_refs(t[1]) == ("param", 2))]
                            ok_pred = bool(ups) and bool(prm)
    if not ok_pred:
        errs.append("?the acceptance predicate handed to %s is not read as `equality_by_hash || *found == elem`" % h.name)
    # the helper: Found(p) only under hash == slot.hash and predicate(p)
    te = h.terms
    found_alts = []

    def collect(t, pb):
        t0 = strip(t)
        if isinstance(t0, tuple) and t0 and t0[0] == "phi":
            for pb2, v in t0[2]:
                collect(v, pb2)
        elif isinstance(t0, tuple) and t0 and t0[0] == "gamma":
            for _, v in t0[2]:
                collect(v, pb)
        elif isinstance(t0, tuple) and t0 and t0[0] == "agg" and t0[3] == vname:
            found_alts.append((pb, t0))
    collect(te.ret, None)
    if not found_alts:
        return errs + ["?%s builds no %s" % (h.name, vname)]
    for pb, agg in found_alts:
        pbn = int(str(pb).replace("bb", "")) if pb is not None and not isinstance(pb, int) else pb
        if pbn is None or not agg[4]:
            errs.append("?a %s alternative of %s is not located" % (vname, h.name))
            continue
        payload = strip(agg[4][0])
        slot = None
        for y in [payload] + list(mir.subterms(payload)):
            if isinstance(y, tuple) and y and y[0] == "field" and y[2] == "ptr":
                slot = strip(y[1])
        if slot is None:
            errs.append("the pointer %s hands out as %s is not the stored pointer of a slot: %s" % (h.name, vname, show(payload)[:50]))
            continue
        facts = [(strip(c), val) for c, val, _, _ in te.facts_at(pbn)]
        hash_ok = any(val != "0" and c[0] == "bin" and c[1] == "Eq" and
                      {repr(strip(c[2])), repr(strip(c[3]))} == {repr(("param", hi)), repr(("field", slot, "hash") + tuple(strip(c[2])[3:] if strip(c[2])[0] == "field" else strip(c[3])[3:]))}
                      for c, val in facts)
        if not hash_ok:
            hash_ok = any(val != "0" and c[0] == "bin" and c[1] == "Eq" and ("param", hi) in (strip(c[2]), strip(c[3])) and
                          any(isinstance(t_, tuple) and t_ and t_[0] == "field" and t_[2] == "hash" and strip(t_[1]) == slot for t_ in (strip(c[2]), strip(c[3])))
                          for c, val in facts)
        pred_ok = any(val != "0" and mir.is_call(c) and c[1].name in ("call", "call_mut", "call_once") and c[2] and
                      mir.strip_refs(strip(c[2][0])) == ("param", ci) and any(y == payload for y in mir.subterms(("t",) + tuple(c[2][1:])))
                      for c, val in facts)
        if not hash_ok:
            errs.append("%s hands out a stored pointer without `hash == slot.hash` being true on the way" % h.name)
        if not pred_ok:
            errs.append("%s hands out a stored pointer without the acceptance predicate having said yes to it (an unequal node "
                        "with a colliding hash would be returned)" % h.name)
    return errs


def _same_key_rule(fn, label, get_name, ins_name, key_idx_get, key_idx_ins, hash_idx_get=None, hash_idx_ins=None,
                   hash_name=None):
    te = fn.terms
    gets = [cs for cs in te.calls if cs.callee.name == get_name and not cs.exp]
    inss = [cs for cs in te.calls if cs.callee.name == ins_name and not cs.exp]
    errs = []
    if not gets or not inss:
        return inst("GL", "%s:GL4:%s" % (fn.npath, label), UNDECIDED, fn, None,
                    "lookup/insert pair not found (%d/%d)" % (len(gets), len(inss)))
    kg = {repr(rename_params(strip(cs.args[key_idx_get]), {})) for cs in gets}
    ki = {repr(rename_params(strip(cs.args[key_idx_ins]), {})) for cs in inss}
    if kg != ki or len(kg) != 1:
        errs.append("lookup key %s and insertion key %s differ" % (
            sorted(show(strip(cs.args[key_idx_get])) for cs in gets),
            sorted(show(strip(cs.args[key_idx_ins])) for cs in inss)))
    if hash_idx_get is not None:
        hg = {repr(rename_params(cs.args[hash_idx_get], {})) for cs in gets}
        hi = {repr(rename_params(cs.args[hash_idx_ins], {})) for cs in inss}
        if hg != hi or len(hg) != 1:
            errs.append("lookup hash and insertion hash differ")
        else:
            h = gets[0].args[hash_idx_get]
            if not (mir.is_call(h, hash_name) and
                    repr(rename_params(strip(h[2][-1]), {})) in kg):
                errs.append("hash %s is not %s(key)" % (show(h), hash_name))
    return inst("GL", "%s:GL4:%s" % (fn.npath, label), VIOLATION if errs else OK, fn, None,
                "; ".join(errs) if errs else "one key%s for lookup and insert" % (" and hash" if hash_idx_get is not None else ""))


def gl4(prog):
    out = []
    fn = prog.find1(name="ite_helper", self_adt="builder::bdd::robdd::RobddBuilder", unit="rsdd-lib")
    out.append(_same_key_rule(fn, "ite-cache", "get", "insert", 1, 1, 2, 3, "hash"))
    fns = [f for f in prog.find(name="ite", impl_trait="builder::BottomUpBuilder", unit="rsdd-lib") if "SddPtr" in f.npath]
    if len(fns) != 1:
        raise CheckerError("SDD ite not found")
    out.append(_same_key_rule(fns[0], "ite-cache", "ite_cache_get", "ite_cache_insert", 1, 1, 2, 3, "ite_cache_hash"))
    fns = [f for f in prog.find(name="and", impl_trait="builder::BottomUpBuilder", unit="rsdd-lib") if "SddPtr" in f.npath]
    if len(fns) != 1:
        raise CheckerError("SDD and not found")
    out.append(_same_key_rule(fns[0], "apply-cache", "app_cache_get", "app_cache_insert", 1, 1))
    fn = prog.find1(name="topdown_h", in_trait="builder::decision_nnf::builder::DecisionNNFBuilder", unit="rsdd-lib")
    # component cache: HashMap get/insert on the cache parameter
    te = fn.terms
    gets = [cs for cs in te.calls if cs.callee.name == "get" and "HashMap" in cs.callee.key()]
    inss = [cs for cs in te.calls if cs.callee.name == "insert" and "HashMap" in cs.callee.key()]
    errs = []
    if len(gets) != 1 or len(inss) != 1:
        errs.append("expected one cache lookup and one insertion")
    else:
        if gets[0].args[1] != inss[0].args[1]:
            errs.append("component cache is read with %s but written with %s" % (show(gets[0].args[1]), show(inss[0].args[1])))
        elif not mir.is_call(gets[0].args[1], "cur_hash"):
            errs.append("cache key is not the solver's residual hash")
        else:
            # the key must be taken before the decisions of this level (its block dominates both decides)
            keybb = [cs.bb for cs in te.calls if cs.term == gets[0].args[1]]
            decs = [cs.bb for cs in te.calls if cs.callee.name == "decide"]
            if not keybb or not all(fn.cfg.dominates(keybb[0], d) for d in decs):
                errs.append("residual hash is not taken before the level's decisions")
    out.append(inst("GL", "%s:GL4:component-cache" % fn.npath, VIOLATION if errs else OK, fn, None,
                    "; ".join(errs) if errs else "cache.get(h) / cache.insert(h, r) with h = cur_hash() taken before deciding"))
    # the key is the solver's residual hash: a product of the primes the *hasher of the CNF being compiled* gave to its
    # literal positions.  It identifies a residual formula of that CNF only, so the table lives exactly as long as one
    # compilation: every outside caller of topdown_h hands it a map created in that very call.
    cache_idx = None
    for i in range(1, fn.argc + 1):
        if "HashMap" in fn.locals[i]["s"]:
            cache_idx = i - 1
    errs, n_ext = [], 0

    def walk(x):
        if isinstance(x, tuple):
            yield x
            for y in x:
                yield from walk(y)
    # a helper that merely forwards its own parameter (a per-polarity branch helper inside the recursion, a private
    # start-up wrapper) is not where the map comes from: its callers are examined instead
    targets, seen_t = [(fn, cache_idx)], {(fn.npath, cache_idx)}
    while targets:
        tgt, tidx = targets.pop()
        for g in prog.lib_fns:
            if "::test" in g.npath or not any(b["term"]["k"] == "call" for b in g.blocks):
                continue
            for cs in g.terms.calls:
                if cs.callee.name != tgt.name or tgt not in prog.resolve(cs.callee) or tidx is None or len(cs.args) <= tidx:
                    continue
                a = strip(cs.args[tidx])
                v = strip(g.terms.state_in[cs.bb].get(a[1])) if a[0] == "mutref" and a[1] in g.terms.state_in.get(cs.bb, {}) else a
                if v[0] == "param" and isinstance(v[1], int) and 1 <= v[1] <= g.argc and "HashMap" in g.locals[v[1]]["s"] and g.kind != "Closure":
                    if (g.npath, v[1] - 1) not in seen_t:
                        seen_t.add((g.npath, v[1] - 1))
                        targets.append((g, v[1] - 1))
                    continue
                if g is fn or g.npath.startswith(fn.npath):
                    continue
                n_ext += 1
                fresh = any(mir.is_call(v, n_) for n_ in ("default", "new", "with_capacity", "with_hasher", "with_capacity_and_hasher"))
                from_outside = [x for x in walk(v) if x and x[0] == "param"]
                if fresh and not from_outside:
                    continue
                # a longer-lived map that is emptied first is as good as a new one
                cleared = [c2 for c2 in g.terms.calls if c2.callee.name == "clear" and c2.args and g.cfg.dominates(c2.bb, cs.bb) and
                           (strip(c2.args[0]) == a or (a[0] == "mutref" and strip(g.terms.state_in[c2.bb].get(strip(c2.args[0])[1], ())
                                                                           if strip(c2.args[0])[0] == "mutref" else strip(c2.args[0])) == v)
                            or any(x in list(walk(strip(c2.args[0]))) for x in walk(v) if x and x[0] == "call"))]
                if cleared:
                    continue
                if from_outside:
                    errs.append("%s hands topdown_h a component cache that comes from %s and outlives the call: its keys are residual "
                                "hashes relative to one CNF's hasher, so a second compilation through the same builder finds the first "
                                "one's sub-diagrams under its own keys" % (g.npath.split("::")[-1], show(v)[:50]))
                else:
                    errs.append("?the component cache handed to topdown_h is %s" % show(v)[:60])
    if not n_ext:
        errs.append("?no outside caller of topdown_h found")
    out.append(inst("GL", "%s:GL4:component-cache-per-compilation" % fn.npath, verdict_of(errs), fn, None,
                    errtext(errs) if errs else "every outside caller passes a map it has just created"))
    return out


def gl5(prog):
    fn = prog.find1(name="hash", self_adt="builder::cache::lru_app::LruIteTable", unit="rsdd-lib")
    te = fn.terms
    errs = []
    fed = []
    fin = [cs for cs in te.calls if cs.callee.name == "finish"]
    if len(fin) != 1:
        errs.append("?expected one finish() call")
    for cs in te.calls:
        if cs.callee.name == "hash" and cs.callee.trait == "std::hash::Hash":
            a = cs.args[0]
            arms = gamma_arms(te, a)
            names = set()
            for x in mir.subterms(a):
                if x[0] == "field" and isinstance(x[1], tuple) and x[1][0] == "as" and x[1][1] == ("param", 2):
                    names.add(x[2])
                if x[0] == "param" and x[1] == 1:
                    errs.append("line %d: table state flows into the key hash" % cs.line)
            # a component of the key the table stores the triple under (`let (f, g, h) = key(*f, *g, *h)`): the same private
            # helper, applied to the three operands in order, that insert and get use (GL8 compares those two, GL13 decides
            # that the rewritten key denotes the triple)
            a0 = strip(a)
            while isinstance(a0, tuple) and a0 and a0[0] in ("ref", "deref") and len(a0) > 1:
                a0 = strip(a0[1])
            if isinstance(a0, tuple) and a0 and a0[0] == "field" and str(a0[2]) in ("0", "1", "2") and mir.is_call(strip(a0[1])) and \
                    (strip(a0[1])[1].local or getattr(strip(a0[1])[1], "res_local", False)):
                kc = strip(a0[1])
                roles = [_role(x, {}) for x in kc[2]]
                ins = [f2 for f2 in prog.lib_fns if f2.name == "insert" and f2.impl_self == fn.impl_self]
                same = any(mir.is_call(strip(c2.args[1])) and strip(c2.args[1])[1].name == kc[1].name
                           for f2 in ins for c2 in f2.terms.calls if c2.callee.name == "insert" and len(c2.args) >= 2)
                if roles == [("f", False), ("g", False), ("h", False)] and same:
                    fed.append(["f", "g", "h"][int(a0[2])])
                    continue
            if len(names) != 1:
                errs.append("line %d: hashed operand is not one field of the ite: %s" % (cs.line, show(a)))
            else:
                fed.append(names.pop())
    if not fed:
        # fold form: [f, g, h].into_iter().fold(Hasher::default(), |mut st, x| { x.hash(&mut st); st }).finish()
        for x in mir.subterms(te.ret):
            if mir.is_call(x, "finish") and x[2] and mir.is_call(strip(x[2][0]), "fold") and len(strip(x[2][0])[2]) == 3:
                src, init, clo = [strip(a) for a in strip(x[2][0])[2]]
                while mir.is_call(src, "into_iter") or mir.is_call(src, "iter"):
                    src = strip(src[2][0])
                cf = [g for g in prog.lib_fns if isinstance(clo, tuple) and clo and clo[0] == "agg" and clo[1] == "closure" and g.npath == clo[2]]
                feeds_elem = len(cf) == 1 and any(c.callee.name == "hash" and strip(c.args[0]) == ("param", 3) for c in cf[0].terms.calls) \
                    and not any(c.callee.name == "hash" and strip(c.args[0]) != ("param", 3) for c in cf[0].terms.calls)
                if src[0] == "agg" and src[1] == "array" and mir.is_call(init, "default") and feeds_elem:
                    for el in src[4]:
                        names = {y[2] for y in mir.subterms(el) if y[0] == "field" and isinstance(y[1], tuple) and y[1][0] == "as" and y[1][1] == ("param", 2)}
                        if any(y == ("param", 1) for y in mir.subterms(el)):
                            errs.append("table state flows into the key hash")
                        if len(names) == 1:
                            fed.append(names.pop())
                        else:
                            errs.append("hashed operand is not one field of the ite: %s" % show(el)[:50])
                    errs = [e for e in errs if not e.startswith("?expected one finish")]
    if sorted(fed) != ["f", "g", "h"]:
        # nothing fed in the body itself: the feeding happens in a closure / fold the rule does not read
        errs.append("%shash feeds %s, expected exactly f, g, h" % ("?" if not fed else "", fed))
    out = [inst("GL", "%s:GL5:key-hash" % fn.npath, VIOLATION if errs else OK, fn, None,
                "; ".join(errs) if errs else "hash = FxHash(f, g, h) of the standardised triple only")]
    return out


def gl6(prog):
    """GL6  a per-call memo keyed by the pointer alone (cond_with_alloc's HashMap) is only valid for
    one (variable, value): every caller other than the function itself hands it a fresh map."""
    out = []
    target = prog.find1(name="cond_with_alloc", self_adt="builder::bdd::robdd::RobddBuilder", unit="rsdd-lib")
    n = 0
    for fn in prog.lib_fns:
        if fn is target or not any(b["term"]["k"] == "call" for b in fn.blocks):
            continue
        te = fn.terms
        for cs in te.calls:
            if cs.callee.name != "cond_with_alloc" or (cs.callee.res or cs.callee.def_) != target.npath:
                continue
            n += 1
            a = cs.args[-1]
            fresh = False
            desc = show(a)
            if len(cs.args) < target.argc:
                # the call goes through a forwarding wrapper that the program model has folded into the worker
                # (`fn cond_with_fresh_memo(b, l, v) { self.cond_with_alloc(b, l, v, &mut HashMap::new()) }`): the folding
                # is only done for a wrapper that hands the worker a container it has just made
                out.append(inst("GL", "%s:GL6:memo-fresh" % fn.npath, OK, fn, cs.line,
                                "the per-call memo is made by the forwarding wrapper the call goes through"))
                continue
            if isinstance(a, tuple) and a[0] == "mutref":
                # value of the map local on entry to the call block
                v = te.state_in.get(cs.bb, {}).get(a[1])
                # walk the block's own statements: the temp may be created in the same block
                v2 = te.state_out.get(cs.bb, {}).get(a[1])
                cand = None
                for st_ in fn.blocks[cs.bb]["stmts"]:
                    pass
                # the map is fresh iff its value at the call is exactly HashMap::new() (not loop-carried, not
                # already passed to an earlier call)
                for vv in (v,):
                    if mir.is_call(vv, "new") and "HashMap" in vv[1].key():
                        fresh = True
                if v is None:
                    # created in this very block: look at the state just before the call via the arg operand's def
                    pre = te.state_out.get(cs.bb, {}).get(a[1])
                    if isinstance(pre, tuple) and pre[0] == "mut" and mir.is_call(pre[3], "new") and "HashMap" in pre[3][1].key():
                        fresh = True
                desc = show(v if v is not None else v2)
            out.append(inst("GL", "%s:GL6:memo-fresh" % fn.npath, OK if fresh else VIOLATION, fn, cs.line,
                            "passes a fresh HashMap::new() as the per-call memo" if fresh else
                            "the memo handed to cond_with_alloc is %s — not a fresh map: entries recorded for another "
                            "(variable, value) are reused, although the memo key is the pointer alone" % desc[:80]))
    if n < 1:
        raise CheckerError("GL6: no external caller of cond_with_alloc found")
    return out


def hasher_feeds(te, h):
    return canon.hasher_feeds(te, h)


def _key_feeds(prog, te, k):
    """the values hashed into bucket key k: k is finish() of a hasher in this function, or the result of a local
    helper that is"""
    k = canon.inline_top(prog, te, k, ok=lambda h: h.name not in ("value", "semantic_hash", "negate"))
    if isinstance(k, tuple) and k and k[0] == "hashof":
        return [strip(f) for f in k[1]]
    return None


def gl7(prog):
    """GL7  the semantic builders file a node under FxHash(value(semantic hash)) and look it up under FxHash of
    exactly one value: the hash itself, and its negation — each with a fresh hasher."""
    out = []
    for self_adt in ("builder::decision_nnf::semantic::SemanticDecisionNNFBuilder", "builder::sdd::semantic::SemanticSddBuilder"):
        fn = prog.find1(name="check_cached_hash_and_neg", self_adt=self_adt, unit="rsdd-lib")
        te = fn.terms
        # the lookups, wherever they are written: in the function itself or in closures handed to Option combinators
        keys = []
        outs = canon.option_outcomes(prog, te, te.ret)
        # private helpers of the builder (`lookup(h)`, `table_key(h)`) are looked through
        roots = [canon.inline_local(prog, canon.resolve_hashers(te, o),
                                    lambda h: h.impl_self == self_adt and "{closure" not in h.npath and
                                    h.name not in ("check_cached_hash_and_neg", "get_or_insert", "get_by_hash", "get_shared_sdd_ptr"))
                 for o in (outs or [])]
        # a lookup bound to a local closure (`let lookup = |h| ..; lookup(x).or_else(|| lookup(-x))`) is applied
        ok_h = lambda h: h.impl_self == self_adt and "{closure" not in h.npath and \
            h.name not in ("check_cached_hash_and_neg", "get_or_insert", "get_by_hash", "get_shared_sdd_ptr")
        roots = [canon.inline_local(prog, canon.resolve_hashers(te, canon.beta(prog, r)), ok_h) for r in roots]
        for r in roots:
            for x in mir.subterms(r):
                if x[0] == "call" and x[1].name in ("get_by_hash", "get_shared_sdd_ptr") and x[2] and \
                        not any(show(x) == show(k[0]) for k in keys):
                    keys.append((x, x[2][-1]))
        errs = []
        if len(keys) != 2:
            errs.append("%sexpected two lookups (plain and negated hash), found %d" % ("?" if outs is None else "", len(keys)))
        kinds = []
        for i, (cs, k) in enumerate(keys):
            fed = _key_feeds(prog, te, k)
            if fed is None:
                errs.append("?lookup %d: bucket key is not finish() of a hasher started from default()" % (i + 1))
                continue
            v = strip(fed[0][2][0]) if len(fed) == 1 and mir.is_call(fed[0], "value") else None
            if v == ("param", 2):
                kinds.append("plain")
            elif v is not None and mir.is_call(v, "negate") and strip(v[2][0]) == ("param", 2):
                kinds.append("negated")
            else:
                errs.append("lookup %d hashes %s; it must hash exactly value(hash) or value(negate(hash)) with a fresh "
                            "hasher, otherwise the key never equals the key a node was filed under (complements are not "
                            "recognised, equal functions get two nodes)" % (i + 1, [show(f)[:40] for f in fed]))
        if len(keys) == 2 and not errs and sorted(kinds) != ["negated", "plain"]:
            errs.append("the two lookups are %s; one must use the hash and one its negation" % kinds)
        out.append(inst("GL", "%s::check_cached_hash_and_neg:GL7:lookup-keys" % self_adt, verdict_of(errs), fn, None,
                        errtext(errs) if errs else "lookups use FxHash(value(h)) and FxHash(value(negate(h))), each from a fresh hasher"))
    # interning side
    for self_adt, names in (("builder::decision_nnf::semantic::SemanticDecisionNNFBuilder", ("get_or_insert",)),
                            ("builder::sdd::semantic::SemanticSddBuilder", ("get_or_insert_bdd", "get_or_insert_sdd"))):
        for nm in names:
            fn = prog.find1(name=nm, self_adt=self_adt, unit="rsdd-lib")
            te = fn.terms
            if nm.startswith("get_or_insert"):
                ks = [cs.args[1] for cs in te.calls if cs.callee.name == "get_or_insert_by_hash"]
                k = ks[0] if ks else None
            else:
                k = te.ret
            fed = _key_feeds(prog, te, k) if k is not None else None
            ok = fed is not None and len(fed) == 1 and mir.is_call(fed[0], "value") and mir.is_call(strip(fed[0][2][0]), "semantic_hash")
            errs = [] if ok else ["%sinterning key is %s, not FxHash(value(semantic_hash(node)))"
                                  % ("?" if fed is None else "", [show(f)[:40] for f in fed] if fed else "unrecognised")]
            if ok and nm.startswith("get_or_insert"):
                # ... of the node that is *stored*: a node rebuilt after the hash was taken (children negated, say)
                # denotes another function than the key says
                hashed = strip(strip(fed[0][2][0])[2][0])
                while isinstance(hashed, tuple) and hashed and hashed[0] in ("ref", "deref"):
                    hashed = strip(hashed[1])
                stored = [strip(cs.args[2]) for cs in te.calls if cs.callee.name == "get_or_insert_by_hash" and len(cs.args) >= 3]
                for st_ in stored:
                    if st_ == hashed:
                        continue
                    rebuilt = [x for x in mir.subterms(st_) if mir.is_call(x, "new") and
                               any(n_ in x[1].key() for n_ in ("BddNode", "BinarySDD", "SddOr"))]
                    if rebuilt:
                        errs.append("the key is the semantic hash of %s, but the node stored under it is %s: a node rebuilt after the "
                                    "hash was taken denotes a different function than its key, so a later request for the keyed "
                                    "function gets the rebuilt one" % (show(hashed)[:30], show(st_)[:70]))
                    else:
                        errs.append("?the stored node %s is not the hashed node %s" % (show(st_)[:40], show(hashed)[:30]))
            out.append(inst("GL", "%s::%s:GL7:intern-key" % (self_adt, nm), verdict_of(errs), fn, None,
                            errtext(errs) if errs else "node filed under FxHash(value(semantic_hash(node)))"))
    return out


def run(prog):
    a, getfn = gl1(prog)
    return a + gl2(prog, getfn) + gl3(prog) + gl4(prog) + gl5(prog) + gl6(prog) + gl7(prog) + gl8(prog) + gl9(prog) + gl10(prog) + gl11(prog) + gl12(prog) + gl13(prog) + gl14(prog)


def _resolve(t, d):
    """specialise a term to the Ite variant with discriminant d (γ on discr(arg2) picks its arm)"""
    t = strip(t)
    if not isinstance(t, tuple) or not t:
        return t
    if t[0] == "gamma" and show(strip(t[1])) == "discr(arg2)":
        for lab, v in t[2]:
            if lab == str(d):
                return _resolve(v, d)
        for lab, v in t[2]:
            if isinstance(lab, tuple) and lab[0] == "not" and str(d) not in lab[1]:
                return _resolve(v, d)
        return t
    if t[0] == "agg":
        return t[:4] + (tuple(_resolve(x, d) for x in t[4]),) + t[5:]
    if t[0] == "field" and isinstance(t[1], tuple):
        return (t[0], _resolve(t[1], d)) + tuple(t[2:])
    if t[0] == "as" and isinstance(t[1], tuple):
        return (t[0], _resolve(t[1], d)) + tuple(t[2:])
    return t


def gl8(prog):
    """GL8  per ITE table (AllIteTable, LruIteTable) and per Ite variant: the key a result is stored under by
    `insert` is the very key `get` looks up.  (Which layout the key has is free; the two must be the same term.)"""
    out = []
    tabs = {}
    for f in prog.lib_fns:
        if f.name in ("insert", "get") and (f.impl_trait or "").endswith("cache::IteTable"):
            for cs in f.terms.calls:
                if cs.callee.name == f.name and cs.args and show(strip(cs.args[0])).endswith(".table") and len(cs.args) >= 2:
                    tabs.setdefault(f.impl_self, {})[f.name] = (f, cs)
    if len(tabs) < 2:
        raise CheckerError("GL8: expected two IteTable implementations with insert/get on their table, found %d" % len(tabs))
    for adt, d in sorted(tabs.items()):
        if set(d) != {"insert", "get"}:
            raise CheckerError("GL8: %s lacks insert or get on its table" % adt)
        fi, ci = d["insert"]
        fg, cg = d["get"]
        errs = []
        for disc, vname in ((0, "IteChoice"), (1, "IteComplChoice")):
            from . import canon as _c

            def nk(t_):
                # a key computed by a helper of the triple (`ite.cache_key()`): its body, then the variant's arm, then the
                # projections of literal tuples / Some{..}
                try:
                    t_ = _c.inline_local(prog, t_, lambda h: "{closure" not in h.npath)
                except Exception:
                    pass
                t_ = _resolve(t_, disc)
                try:
                    t_ = _c.assume_variant(fi.terms, t_, ("param", 2), vname)
                except Exception:
                    pass
                t_ = _resolve(t_, disc)

                def red(x):
                    if not isinstance(x, tuple) or not x:
                        return x
                    if x[0] == "call":
                        return (x[0], x[1], tuple(red(a) for a in x[2])) + tuple(x[3:])
                    x = tuple(red(a) if isinstance(a, tuple) else a for a in x)
                    if x[0] == "field" and isinstance(x[1], tuple) and x[1] and x[1][0] == "as" and x[2] == "0":
                        inner = strip(x[1][1])
                        if isinstance(inner, tuple) and inner and inner[0] == "agg" and inner[3] == x[1][2] and len(inner[4]) == 1:
                            return inner[4][0]       # the payload of a literal Some{..}
                    if x[0] == "field" and isinstance(x[1], tuple) and x[1] and strip(x[1])[0] == "agg" and strip(x[1])[1] in ("tuple", "array") \
                            and str(x[2]).isdigit() and int(x[2]) < len(strip(x[1])[4]):
                        return strip(x[1])[4][int(x[2])]
                    return x
                return strip(red(t_))
            ki, kg = nk(ci.args[1]), nk(cg.args[1])
            if ki != kg:
                errs.append("for %s a result is stored under %s but looked up under %s" % (vname, show(ki)[:90], show(kg)[:90]))
        out.append(inst("GL", "%s:GL8:store-key=lookup-key" % adt, VIOLATION if errs else OK, fi, ci.line,
                        "; ".join(errs) if errs else "insert and get use the same key term for both Ite variants"))
    return out



LOOKUPS = ("get", "get_mut", "ite_cache_get", "app_cache_get")


def gl9(prog):
    """GL9  a memo that outlives the call (a table held in a field of the builder / cache object, or reached through
    the builder's cache accessors) whose hit is *returned* must be keyed by every parameter the memoising function
    uses: a result that depends on a parameter missing from the key is replayed for a different value of it later
    (per-call maps are GL6's business)."""
    from .dt import leaves
    out = []
    n = 0
    for f in prog.lib_fns:
        if "::test" in f.npath or f.name.startswith("test") or f.npath.startswith("util::hypergraph") or \
                not any(b["term"]["k"] == "call" for b in f.blocks):
            continue
        te = f.terms
        rets = [strip(a) for a in leaves(te.ret)]
        for cs in te.calls:
            if cs.callee.name not in LOOKUPS or not cs.args:
                continue
            recv = strip(cs.args[0])
            persistent = ("arg1." in show(recv) and recv != ("param", 1)) or \
                (cs.callee.name.endswith("cache_get") and recv == ("param", 1))
            if not persistent:
                continue
            me = show(("call", cs.callee, tuple(cs.args)))
            if not any(me in show(r) for r in rets):
                continue
            n += 1
            keyargs = cs.args[1:]
            inkey = set()
            for a in keyargs:
                for x in mir.subterms(a):
                    if x[0] == "param":
                        inkey.add(x[1])
            one_entry = not keyargs
            if one_entry:
                # a one-entry memo in a cell (`last_hit.get()`): its key is whatever the remembered request is compared with
                # before the hit is returned — the parameters in the conditions that mention the cell's content
                for b_, (c_, _) in te.switch_term.items():
                    if me in show(c_):
                        for x in mir.subterms(c_):
                            if x[0] == "param" and x[1] != 1:
                                inkey.add(x[1])
                for c2 in te.calls:
                    if c2.callee.name in ("eq", "ne") and any(me in show(a) for a in c2.args):
                        for a in c2.args:
                            for x in mir.subterms(a):
                                if x[0] == "param" and x[1] != 1:
                                    inkey.add(x[1])
            # parameters the function uses anywhere else
            used = set()
            for c2 in te.calls:
                if c2 is cs:
                    continue
                for a in c2.args:
                    for x in mir.subterms(a):
                        if x[0] == "param":
                            used.add(x[1])
            for b, (c, _) in te.switch_term.items():
                for x in mir.subterms(c):
                    if x[0] == "param":
                        used.add(x[1])
            missing = sorted(p for p in used if p != 1 and p not in inkey)
            names = [f.arg_name(p) or ("arg%d" % p) for p in missing]
            if one_entry and missing:
                # which of the parameters the remembered answer really depends on (a hash is a function of the key) is not
                # decided here; the complement flag of the ITE tables is CP's business
                out.append(inst("GL", "%s:GL9:memo-key-complete#cell" % f.npath, UNDECIDED, f, cs.line,
                                "?a one-entry memo compared with %s only" % sorted(inkey)))
                continue
            out.append(inst("GL", "%s:GL9:memo-key-complete%s" % (f.npath, "#cell" if one_entry else ""), VIOLATION if missing else OK, f, cs.line,
                            ("a hit of the persistent memo %s is returned, but its key (%s) does not contain the parameter(s) %s "
                             "that the function's result depends on: a later call with another value gets the stale result"
                             % (show(recv)[:40], ", ".join(show(a)[:40] for a in keyargs), names)) if missing else
                            "key of the persistent memo mentions every parameter used (%s)" % sorted(inkey)))
    if n < 5:
        raise CheckerError("GL9: only %d persistent memo lookups recognised (expected >= 5)" % n)
    return out



def gl10(prog):
    """GL10  the builders' cache accessors (app_cache_insert / ite_cache_insert) hand the result they are given to the
    table *unchanged*: normalising the complement marker is the ITE table's own job (CP compl-flag), and the apply
    cache stores the result of the very conjunction it is keyed by.  A second transformation in the wrapper stores a
    value that later lookups replay as the wrong function."""
    out = []
    n = 0
    for f in prog.lib_fns:
        if f.name not in ("ite_cache_insert", "app_cache_insert") or not f.impl_self or \
                not any(b["term"]["k"] == "call" for b in f.blocks):
            continue
        ins = [cs for cs in f.terms.calls if cs.callee.name == "insert"]
        if not ins:
            continue   # a builder without that cache (unimplemented accessor)
        n += 1
        valpos = 3     # (self, ite, res, hash) / (self, and, ptr)
        cs = ins[0]
        given = [strip(a) for a in cs.args[1:]]
        ok = ("param", valpos) in given
        out.append(inst("GL", "%s:GL10:stores-result-unchanged" % f.npath, OK if ok else VIOLATION, f, cs.line,
                        "the result parameter is stored as given" if ok else
                        "the table is given %s instead of the result parameter `%s` itself"
                        % ([show(a)[:50] for a in cs.args[1:]], f.arg_name(valpos) or "res")))
    if n < 3:
        raise CheckerError("GL10: only %d cache insert accessors recognised (expected >= 3)" % n)
    return out



def _returned_after(fn, te, t, bb, split=True):
    """the alternatives of the return term t that can be returned on a path through block bb: joins keep the
    alternatives whose source block is reachable from bb; choices are resolved by the facts known at bb"""
    t = strip(t)
    if not isinstance(t, tuple) or not t:
        return [t]
    if t[0] == "phi":
        out = []
        kept = 0
        for pb, v in t[2]:
            pbn = int(str(pb).replace("bb", "")) if not isinstance(pb, int) else pb
            # the alternative's source block lies on a path through bb: after it, or (a value computed earlier) before it
            if pbn == bb or fn.cfg.can_reach(bb, pbn) or fn.cfg.can_reach(pbn, bb):
                kept += 1
                out += _returned_after(fn, te, v, bb, split)
        if not split and kept == len(t[2]) and kept > 1:
            return [t]
        return out
    if t[0] == "gamma":
        known = {repr(strip(c)): v for c, v, _, _ in te.facts_at(bb)}
        kv = known.get(repr(strip(t[1])))
        arms = list(t[2])
        if kv is not None:
            picked = [v for lab, v in arms if lab == kv or (isinstance(lab, tuple) and lab[0] == "not" and isinstance(kv, str) and kv not in lab[1])
                      or (isinstance(kv, tuple) and kv[0] == "not" and isinstance(lab, str) and lab not in kv[1] and len(arms) == 2)]
            if len(picked) == 1:
                return _returned_after(fn, te, picked[0], bb, split)
        # the choice is not decided by what is known at bb: every arm (or, unsplit, the choice as a whole)
        if not split:
            return [t]
        out = []
        for lab, v in arms:
            out += _returned_after(fn, te, v, bb, split)
        return out
    return [t]


def gl11(prog):
    """GL11  what a memoising function stores is what it returns: at every insertion into an operation cache (the BDD
    ite cache, the SDD ite and apply caches, the top-down component cache) the stored value is, term for term, one of
    the values the function returns.  Any transformation applied only to the stored copy (a negation for complemented
    triples — the table does that itself —, a different intermediate) makes later hits replay another function."""
    from .dt import leaves
    out = []
    sites = [("ite_helper", "insert", "RobddBuilder", 2), ("ite", "ite_cache_insert", "SddPtr", 2),
             ("and", "app_cache_insert", "SddPtr", 2), ("topdown_h", "insert", "DecisionNNFBuilder", 2)]
    for fname, ins, owner, vpos in sites:
        fns = [f for f in prog.lib_fns if f.name == fname and owner in f.npath and "{closure" not in f.npath]
        if len(fns) != 1:
            raise CheckerError("GL11: %s of %s not found (%d)" % (fname, owner, len(fns)))
        f = fns[0]
        te = f.terms
        rets = {repr(strip(a)) for a in leaves(te.ret)}
        calls = [cs for cs in te.calls if cs.callee.name == ins and len(cs.args) > vpos and
                 (ins != "insert" or "table" in show(cs.args[0]) or "HashMap" in cs.callee.key() or "IteTable" in cs.callee.key())]
        if not calls:
            raise CheckerError("GL11: no %s call in %s" % (ins, f.npath))
        errs = []
        for cs in calls:
            v = strip(cs.args[vpos])
            alts = {repr(strip(a)) for a in leaves(v)}
            if not (repr(v) in rets or (alts and alts <= rets)):
                errs.append("line %d: the cache is given %s, which is not a value the function returns (%s)"
                            % (cs.line, show(v)[:70], sorted(show(strip(a))[:40] for a in leaves(te.ret))[:3]))
                continue
            # path-sensitive: what is returned on the paths that pass through this insertion
            after = _returned_after(f, te, te.ret, cs.bb)
            other = [a for a in after if repr(strip(a)) != repr(v) and repr(strip(a)) not in alts]
            if after and other:
                errs.append("line %d: after storing %s the function goes on to return %s: the stored value is not the "
                            "value of the call it is stored for" % (cs.line, show(v)[:50], show(strip(other[0]))[:70]))
        out.append(inst("GL", "%s:GL11:stored=returned" % f.npath, VIOLATION if errs else OK, f, calls[0].line,
                        "; ".join(errs) if errs else "the stored value is the returned value"))
    return out


def _self_field(te, t, bb=None):
    """the field of self a place lies in (through borrows, derefs, elements, a loop-carried guard), or None"""
    x = strip(t)
    for _ in range(16):
        if not isinstance(x, tuple) or not x:
            return None
        if x[0] == "field":
            if strip(x[1]) in (("param", 1), ("deref", ("param", 1))):
                return x[2]
            x = strip(x[1])
        elif x[0] in ("ref", "deref") and len(x) > 1 and isinstance(x[1], tuple):
            x = strip(x[1])
        elif x[0] == "mu":
            x = strip(te.mu_init.get((x[1], x[2]), ()))
        elif x[0] == "mut" and len(x) > 3 and isinstance(x[3], tuple):
            x = strip(x[3])
        elif x[0] == "mutref" and bb is not None:
            v = te.state_in.get(bb, {}).get(x[1])
            if v is None:
                return None
            x = strip(v)
        elif x[0] == "call" and x[1].name in ("deref_mut", "deref", "borrow_mut", "borrow", "as_mut", "as_ref", "index_mut", "index",
                                               "unwrap", "expect", "as_mut_slice", "as_slice", "get_mut", "get") and x[2]:
            x = strip(x[2][0])
        else:
            return None
    return None


def _whole_params(k):
    """parameters that the key carries unchanged (through references, tuples, copies) — a difference, a sum or a hash of
    two parameters carries neither"""
    out = set()
    todo = [strip(k)]
    while todo:
        x = todo.pop()
        if not isinstance(x, tuple) or not x:
            continue
        if x[0] == "param":
            out.add(x[1])
        elif x[0] in ("ref", "deref") and len(x) > 1:
            todo.append(strip(x[1]))
        elif x[0] == "agg":
            todo += [strip(o) for o in x[4]]
        elif x[0] == "call" and x[1].name in ("clone", "into", "from", "to_owned", "value_usize", "value", "as_usize") and x[2]:
            todo.append(strip(x[2][0]))
    return out


def _without(t, k):
    """t with every occurrence of the term k cut out"""
    rk = repr(k)

    def go(x):
        if isinstance(x, tuple):
            if x and isinstance(x[0], str) and repr(strip(x)) == rk:
                return ("top",)
            return tuple(go(y) for y in x)
        if isinstance(x, list):
            return [go(y) for y in x]
        return x
    return go(t)


def gl12(prog):
    """GL12  a table kept in a field of the object and filled on demand (entries are pushed / inserted by the very function
    that returns `table[key]`) is a memo that outlives the call: every parameter its entries are computed from must be
    carried by the key.  A key that is a *combination* of parameters (`total - current`, a sum, a hash) carries the
    combination only: an entry built under one pair is served for every other pair with the same difference."""
    from .dt import leaves
    out = []
    for f in prog.lib_fns:
        if "::test" in f.npath or f.name.startswith("test") or "{closure" in f.npath or len(f.locals) < 2 or \
                not f.locals[1]["s"].startswith("&") or not any(b["term"]["k"] == "call" for b in f.blocks):
            continue
        te = f.terms
        fills = {}
        for cs in te.calls:
            if cs.callee.name in ("push", "insert", "push_back", "resize") and not cs.callee.local and len(cs.args) >= 2:
                fld = _self_field(te, cs.args[0], cs.bb)
                if fld:
                    fills.setdefault(fld, []).append(cs)
        if not fills:
            continue
        for r in leaves(te.ret):
            r = strip(r)
            while mir.is_call(r) and r[1].name in ("clone", "copied", "cloned", "unwrap", "expect", "deref") and r[2]:
                r = strip(r[2][0])
            if not (mir.is_call(r) and r[1].name in ("index", "get", "index_mut", "get_mut") and len(r[2]) == 2):
                continue
            fld = _self_field(te, r[2][0])
            if not fld or fld not in fills:
                continue
            k = strip(r[2][1])
            kparams = {x[1] for x in mir.subterms(k) if x[0] == "param" and x[1] != 1}
            if not kparams:
                continue          # not a lookup by the request (the entry just pushed, a fixed slot)
            whole = _whole_params(k)
            errs = []
            for cs in fills[fld]:
                v = _without(cs.args[-1], k)
                dep = sorted({x[1] for x in mir.subterms(v) if x[0] == "param" and x[1] != 1} - whole)
                if dep:
                    names = [f.arg_name(p) or ("arg%d" % p) for p in dep]
                    errs.append("the entries of `%s` are built from the parameter(s) %s (line %d: %s) but the table is indexed by "
                                "`%s` only: it outlives the call, so an entry built for one request is served for every later "
                                "request with the same index and another %s" % (fld, names, cs.line, show(cs.args[-1])[:60],
                                                                                 show(k)[:40], "/".join(names)))
            out.append(inst("GL", "%s:GL12:on-demand-table:%s" % (f.npath, fld), VIOLATION if errs else OK, f,
                            fills[fld][0].line, "; ".join(dict.fromkeys(errs)) if errs else
                            "entries of the on-demand table `%s` depend on the request only through its index `%s`" % (fld, show(k)[:40])))
    return out


# ------------------------------------------------------------------------------------------------------------------------------
# GL13: a key the table computes from the triple denotes the same function as the triple

_STATES = ("c0", "c1", "v0", "v1")       # constant false / constant true / a non-constant operand that is 0 / 1 at the point looked at


def _role(t, roles, depth=0):
    """(role, negated) of a key component: one of the triple's operands, possibly negated"""
    from . import canon as _c
    x = strip(_c._peel(strip(t)))
    if depth > 8 or not isinstance(x, tuple) or not x:
        return None
    if x in roles:
        return roles[x], False
    if x[0] == "field" and x[2] in ("f", "g", "h") and isinstance(x[1], tuple) and x[1] and x[1][0] == "as":
        return x[2], False
    if x[0] == "call" and x[1].name in ("clone", "deref", "borrow", "to_owned") and x[2]:
        return _role(x[2][0], roles, depth + 1)
    if x[0] in ("gamma", "phi"):
        # the same operand of either Ite variant (`IteChoice { f, .. } | IteComplChoice { f, .. }`)
        rs = {_role(v, roles, depth + 1) for _, v in x[2]}
        return rs.pop() if len(rs) == 1 else None
    if x[0] == "call" and x[1].name == "neg" and x[2]:
        r = _role(x[2][0], roles, depth + 1)
        return (r[0], not r[1]) if r else None
    return None


def _bval(prog, t, roles, env, depth=0):
    """three-valued truth of a condition under an abstract state of the three operands (None = not determined)"""
    from . import canon as _c
    x = strip(_c._peel(strip(t)))
    if depth > 12 or not isinstance(x, tuple) or not x:
        return None
    if x[0] == "const":
        return {"true": True, "false": False, "1": True, "0": False}.get(str(x[2])) if "bool" in str(x[1]) else None
    if x[0] == "call":
        nm = x[1].name
        if nm in ("is_true", "is_false", "is_const") and x[2]:
            r = _role(x[2][0], roles)
            if r is None:
                return None
            st = env[r[0]]
            if st[0] == "v":
                return False
            one = (st == "c1") != r[1]
            return True if nm == "is_const" else (one if nm == "is_true" else not one)
        if nm in ("call", "call_mut", "call_once") and len(x[2]) == 2:
            a = strip(x[2][1])
            arg = a[4][0] if isinstance(a, tuple) and a and a[0] == "agg" and len(a[4]) == 1 else None
            body = _c.apply_closure(prog, x[2][0], arg) if arg is not None else None
            return _bval(prog, body, roles, env, depth + 1) if body is not None else None
        if nm in ("eq", "ne") and len(x[2]) == 2:
            a, b = _role(x[2][0], roles), _role(x[2][1], roles)
            if a and b and a[0] == b[0]:
                return (a[1] == b[1]) == (nm == "eq")
            return None
        if nm == "not" and x[2]:
            v = _bval(prog, x[2][0], roles, env, depth + 1)
            return None if v is None else not v
        return None
    if x[0] == "un" and x[1] == "Not":
        v = _bval(prog, x[2], roles, env, depth + 1)
        return None if v is None else not v
    if x[0] == "bin" and x[1] in ("BitAnd", "BitOr"):
        a, b = _bval(prog, x[2], roles, env, depth + 1), _bval(prog, x[3], roles, env, depth + 1)
        if x[1] == "BitAnd":
            return False if (a is False or b is False) else (True if (a and b) else None)
        return True if (a is True or b is True) else (False if (a is False and b is False) else None)
    if x[0] == "gamma":
        c = _bval(prog, x[1], roles, env, depth + 1)
        vals = []
        for lab, v in x[2]:
            want = _lab_truth(lab)
            if c is not None and want is not None and want != c:
                continue
            vals.append(_bval(prog, v, roles, env, depth + 1))
        return vals[0] if vals and all(v == vals[0] for v in vals) else None
    if x[0] == "phi":
        vals = [_bval(prog, v, roles, env, depth + 1) for _, v in x[2]]
        return vals[0] if vals and all(v == vals[0] for v in vals) else None
    return None


def _lab_truth(lab):
    if lab in ("1", 1, True):
        return True
    if lab in ("0", 0, False):
        return False
    if isinstance(lab, tuple) and lab and lab[0] == "not" and len(lab) > 1:
        inner = lab[1]
        if inner in (("0",), ["0"], "0"):
            return True
        if inner in (("1",), ["1"], "1"):
            return False
    return None


def gl13(prog):
    """GL13  an ITE table may file a triple under a *rewritten* key (operands swapped or negated to merge entries of a
    commutative connective).  The rewritten triple must denote the same function as the original one under the very
    conditions the rewriting is done under: for every alternative of the key and every state of the three operands
    (constant false / constant true / non-constant, value 0 or 1 at a point) that the alternative's conditions admit,
    ite(a, b, c) = ite(f, g, h).  `ite(f, g, ⊥) = f ∧ g` may be re-oriented; `ite(f, g, ⊤) = ¬f ∨ g` may not."""
    from .fd import alts
    from . import canon as _c
    import itertools
    out = []
    for f in prog.lib_fns:
        if f.name != "insert" or not (f.impl_trait or "").endswith("cache::IteTable"):
            continue
        te = f.terms
        for cs in te.calls:
            if not (cs.callee.name == "insert" and cs.args and show(strip(cs.args[0])).endswith(".table") and len(cs.args) >= 2):
                continue
            k = strip(_c._peel(strip(cs.args[1])))
            roles, kte, body = {}, te, k
            if mir.is_call(k) and (k[1].local or getattr(k[1], "res_local", False)):
                hs = [h for h in prog.resolve(k[1]) if "{closure" not in h.npath]
                if len(hs) == 1 and hs[0].terms.ret is not None:
                    h = hs[0]
                    for i, a in enumerate(k[2]):
                        r = _role(a, {})
                        if r and not r[1]:
                            roles[("param", i + 1)] = r[0]
                    kte, body = h.terms, h.terms.ret
            key = "%s:GL13:key-denotes-the-triple" % f.impl_self
            errs, und, n_alt = [], [], 0
            all_alts = list(alts(kte, body))
            for leaf, facts in all_alts:
                leaf = strip(leaf)
                if not (isinstance(leaf, tuple) and leaf and leaf[0] == "agg" and leaf[1] == "tuple" and len(leaf[4]) == 3):
                    und.append("?a key alternative is not a triple: %s" % show(leaf)[:60])
                    continue
                shapes = set()
                for l2, _ in all_alts:
                    l2 = strip(l2)
                    shapes.add(tuple(_role(c, roles) for c in l2[4]) if isinstance(l2, tuple) and l2 and l2[0] == "agg" and len(l2[4]) == 3 else None)
                if len(shapes) == 1:
                    cs_ = [_role(c, roles) for c in leaf[4]]
                    if all(c is not None and not c[1] for c in cs_) and sorted(c[0] for c in cs_) == ["f", "g", "h"]:
                        # one unconditional permutation of the operands: distinct triples keep distinct keys, nothing is
                        # merged (that lookup and insertion use the same key is GL8's business)
                        n_alt += 1
                        continue
                comps = [_role(c, roles) for c in leaf[4]]
                if any(c is None for c in comps):
                    und.append("?a key component is not an operand of the triple: %s" % show(leaf)[:60])
                    continue
                n_alt += 1
                if [c for c in comps] == [("f", False), ("g", False), ("h", False)]:
                    continue
                for sf, sg, sh in itertools.product(_STATES, repeat=3):
                    env = {"f": sf, "g": sg, "h": sh}
                    feasible = True
                    for c, val in facts:
                        want = _lab_truth(val)
                        got = _bval(prog, c, roles, env)
                        if want is not None and got is not None and want != got:
                            feasible = False
                            break
                    if not feasible:
                        continue
                    bit = lambda r: (env[r[0]][1] == "1") != r[1]
                    a, b, c_ = (bit(x) for x in comps)
                    orig = (sg[1] == "1") if sf[1] == "1" else (sh[1] == "1")
                    if (b if a else c_) != orig:
                        nm = {"c0": "⊥", "c1": "⊤", "v0": "0", "v1": "1"}
                        errs.append("the triple (f, g, h) is filed under (%s): with f=%s, g=%s, h=%s — a state the conditions of this "
                                    "rewriting admit — the rewritten triple denotes another function than ite(f, g, h), so a result "
                                    "stored for one operation is replayed for a different one"
                                    % (", ".join(("¬" if x[1] else "") + x[0] for x in comps), nm[sf], nm[sg], nm[sh]))
                        break
            if errs:
                out.append(inst("GL", key, VIOLATION, f, cs.line, "; ".join(dict.fromkeys(errs))))
            elif und or not n_alt:
                out.append(inst("GL", key, UNDECIDED, f, cs.line, "; ".join(dict.fromkeys(und)) or "?no key alternative read"))
            else:
                out.append(inst("GL", key, OK, f, cs.line, "every alternative of the key (%d) denotes ite(f, g, h)" % n_alt))
    return out


def _whole_all(k):
    """parameters and generic constants the key carries unchanged (see _whole_params)"""
    out = set()
    todo = [strip(k)]
    while todo:
        x = todo.pop()
        if not isinstance(x, tuple) or not x:
            continue
        if x[0] in ("param", "cparam"):
            out.add((x[0], x[1]))
        elif x[0] in ("ref", "deref") and len(x) > 1:
            todo.append(strip(x[1]))
        elif x[0] == "cast" and len(x) > 2:
            todo.append(strip(x[2]))
        elif x[0] == "agg":
            todo += [strip(o) for o in x[4]]
        elif x[0] == "call" and x[1].name in ("clone", "into", "from", "to_owned") and x[2]:
            todo.append(strip(x[2][0]))
    return out


def gl14(prog):
    """GL14  a `static` / `thread_local!` declared inside a generic function is ONE object shared by every instantiation of
    the function.  When it is used as a memo (its content is compared with the request and handed back on a match) and the
    function's result depends on a generic constant (the modulus `P` of the finite-field code), the compared key must
    carry that constant itself — residues `a % P` do not: the same pair of residues under another modulus hits the entry."""
    out = []
    for f in prog.lib_fns:
        if "::test" in f.npath or f.name.startswith("test") or "{closure" in f.npath or \
                not any(b["term"]["k"] == "call" for b in f.blocks):
            continue
        te = f.terms
        reads = []
        for cs in te.calls:
            if not cs.args:
                continue
            a0 = strip(cs.args[0])
            if isinstance(a0, tuple) and a0 and a0[0] == "constitem" and isinstance(a0[1], str) and \
                    (a0[1] == f.npath or a0[1].startswith(f.npath + "::")) and \
                    cs.callee.name in ("with", "with_borrow", "with_borrow_mut", "lock", "read", "borrow", "get", "take"):
                reads.append(cs)
        if not reads:
            continue
        cps = {x[1] for t in [te.ret] + [c for c, _ in te.switch_term.values()] for x in mir.subterms(t) if x[0] == "cparam"}
        if not cps:
            continue
        key = "%s:GL14:static-memo-in-generic-fn" % f.npath
        rd = {repr(("call", cs.callee, tuple(cs.args))) for cs in reads}

        def mentions_read(t):
            return any(x[0] == "call" and repr(("call", x[1], tuple(x[2]))) in rd for x in mir.subterms(t))
        # is what is read handed back?
        from .dt import leaves
        if not any(mentions_read(r) for r in leaves(te.ret)):
            continue          # a counter, a statistic: not a memo of results
        keys = []
        for cs in te.calls:
            if cs.callee.name in ("eq", "ne") and len(cs.args) == 2:
                for a, b in ((cs.args[0], cs.args[1]), (cs.args[1], cs.args[0])):
                    if mentions_read(a) and not mentions_read(b):
                        keys.append(b)
        for b_, (c, _) in te.switch_term.items():
            c = strip(c)
            if isinstance(c, tuple) and c and c[0] == "bin" and c[1] in ("Eq", "Ne"):
                for a, b in ((c[2], c[3]), (c[3], c[2])):
                    if mentions_read(a) and not mentions_read(b):
                        keys.append(b)
        if not keys:
            out.append(inst("GL", key, UNDECIDED, f, reads[0].line,
                            "?a static inside the generic function is read and handed back, but no comparison with the request was found"))
            continue
        whole = set()
        for k in keys:
            whole |= _whole_all(k)
        missing = sorted(c for c in cps if ("cparam", c) not in whole)
        out.append(inst("GL", key, VIOLATION if missing else OK, f, reads[0].line,
                        ("the memo lives in a static declared inside the generic function, so there is one table for every value of "
                         "%s; the result depends on %s, but the key compared with the remembered request (%s) does not carry it "
                         "(residues modulo %s do not): after a product under one modulus the same residues under another "
                         "modulus are answered from the stale entry" % (missing, missing, show(keys[0])[:60], missing[0]))
                        if missing else "the key of the static memo carries every generic constant the result depends on"))
    return out
