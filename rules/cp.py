"""CP — complement-parity typing (abstract interpretation over the gated value terms).

BDD, d-DNNF and SDD pointers carry a complement bit ν.  A child stored in a node is *raw*; the
child of the function F a pointer denotes is *effective* = raw ⊕ ν.  For a base pointer p every
derived pointer value is abstracted to (root, k): "denotes root ⊕ k" where root is F itself, an
effective child of F (low / high / prime_i / sub_i), the image of such a root under a
negation-commuting operation (conditioning, smoothing, the function's own recursion), a node
built from such roots, or something unrelated to p.  The abstraction is computed under both
assumptions ν=0 and ν=1 (branches on p.is_neg() / on p's variant select the arm; branches on
anything else are joined).

CP1  a value reaching a *semantic sink* — an operand of and/or/ite/iff/xor/eq/exists/compose/
     condition, of the SDD apply helpers, of a sign-sensitive traversal's recursion, an element
     (prime, sub) of a result node, or the return value of a function whose contract is "a
     function of F" — must denote the same thing under ν=0 and ν=1.
CP2  the two children given to a node constructor have the same parity.
CP3  a per-call memo keyed by the signed pointer is read with the parity it was written with.
CP4  serialisers recurse on *raw* children and emit `compl = ν`.
Accessor contracts (low/high effective, low_raw/high_raw raw, neg flips, is_neg = ν) are checked
against the accessor bodies themselves.
A value whose abstraction is unknown makes its instance `undecided`, never a violation.
"""
from collections import defaultdict
from . import mir, canon
from .base import inst, OK, VIOLATION, UNDECIDED, strip, bool_arms, verdict_of, errtext
from .facts import CheckerError
from .mir import show

PTRS = ("repr::bdd::BddPtr", "repr::sdd::SddPtr")
NEG_VARIANTS = {"Compl", "ComplBDD"}
REG_VARIANTS = {"Reg", "BDD"}
UNK = ("?",)

# negation-commuting operations: g(¬x) = ¬g(x)  (restriction and smoothing are Boolean homomorphisms
# on the diagram's function; each function's own recursion commutes by induction)
COMMUTE = {"cond_with_alloc", "cond_helper", "condition", "smooth_helper", "condition_essential", "smooth"}
EFF_ACCESSORS = {"low", "high"}
RAW_ACCESSORS = {"low_raw", "high_raw"}
# semantic sinks: callee name -> indices (into the MIR argument list, negative = from the end)
SINKS = {
    "and": (-2, -1), "or": (-2, -1), "iff": (-2, -1), "xor": (-2, -1),
    "ite": (-3, -2, -1), "exists": (1,), "compose": (1, 3),
    "and_indep": (1, 2), "and_sub_desc": (1, 2), "and_prime_desc": (1, 2), "and_cartesian": (1, 2),
    "bottomup_pass_h": (0,), "bdd_fold_h": (0,), "print_bdd_helper": (0,),
    "is_true": (-1,), "is_false": (-1,),
}
RAW_SINKS = {"serialize_helper": (0,)}
NODE_CTORS = {"BddNode::new": (1, 2), "BinarySDD::new": (1, 2)}   # CP2: equal parity of the two children
PAIR_SINKS = {"eq": (-2, -1), "sdd_eq": (-2, -1), "ne": (-2, -1)}     # parity *difference* must be ν-invariant
ELEM_CTORS = {"SddAnd::new": (0, 1)}
MODULES = ("builder::bdd::", "builder::sdd::", "builder::decision_nnf::", "repr::bdd", "repr::sdd",
           "serialize::ser_bdd", "serialize::ser_sdd", "builder::BottomUpBuilder", "builder::cache::")


def skip(fn):
    return "::tests::" in fn.npath or fn.name.startswith("test_") or "::test::" in fn.npath


class Eval:
    def __init__(self, prog, fn, base):
        self.prog, self.fn, self.base = prog, fn, base
        self.te = fn.terms
        self.cp2 = []     # (site, detail)
        self.depth = 0
        self._memo_sites = None

    # ---------------------------------------------------------- helpers
    def is_node_of_base(self, t):
        """t is the node payload of the base pointer: (base as V).0, possibly gated over variants"""
        t = strip(t)
        if not isinstance(t, tuple):
            return False
        if t[0] == "field" and t[2] == "0" and isinstance(t[1], tuple) and t[1][0] == "as" and strip(t[1][1]) == self.base:
            return True
        if t[0] in ("gamma", "phi"):
            vs = [v for _, v in t[2]]
            return bool(vs) and all(self.is_node_of_base(v) for v in vs)
        return False

    def elem_of_base(self, t):
        """t is an element (prime, sub) drawn from iterating the base pointer's node"""
        t = strip(t)
        # (next(&mut it) as Some).0  with `it` initialised from iter(NODE(base)) / node_iter(base)
        for x in mir.subterms(t):
            if x[0] == "mutref":
                for (h, l), init in self.te.mu_init.items():
                    if l == x[1]:
                        for y in mir.subterms(init):
                            if mir.is_call(y, "node_iter") and strip(y[2][0]) == self.base:
                                return True
                            if self.is_node_of_base(y):
                                return True
                            if mir.is_call(y, "iter") and self.is_node_of_base(y[2][0]):
                                return True
            if mir.is_call(x, "find") or mir.is_call(x, "next"):
                pass
        # find(node_iter(base), ..) result
        for x in mir.subterms(t):
            if mir.is_call(x, "node_iter") and strip(x[2][0]) == self.base:
                return True
        # inside a closure that the parent maps over the elements of the captured pointer:
        # `f.node_iter().map(|a| .. a.sub() ..)` — the closure's item parameter is such an element
        if self.fn.kind == "Closure" and self.base[0] == "upvar" and mir.strip_refs(t) == ("param", 2):
            if getattr(self, "_item_elem", None) is True:
                return True
            return self._item_is_elem_of_base()
        return False

    def _item_is_elem_of_base(self):
        if getattr(self, "_item_elem", None) is not None:
            return self._item_elem
        self._item_elem = False
        for p in self.prog.by_npath.get(self.fn.parent or "", []):
            if p.unit != self.fn.unit:
                continue
            for cs in p.terms.calls:
                if cs.callee.name not in ITER_ADAPTORS or len(cs.args) < 2:
                    continue
                clo = [a for a in cs.args[1:] if isinstance(a, tuple) and a and a[0] == "agg" and a[1] == "closure" and a[2] == self.fn.npath]
                if not clo or self.base[1] not in (clo[0][5] or ()):
                    continue
                captured = mir.strip_refs(strip(clo[0][4][clo[0][5].index(self.base[1])]))
                src = strip(cs.args[0])
                while isinstance(src, tuple) and src and src[0] == "call" and src[1].name in ("iter", "into_iter", "deref", "enumerate", "rev", "cloned", "copied") and src[2]:
                    src = strip(src[2][0])
                if mir.is_call(src, "node_iter") and mir.strip_refs(strip(src[2][0])) == captured:
                    self._item_elem = True
        return self._item_elem

    def _built_element(self, t, which, nu):
        """`v[i]` / `v.first()` with v = node_iter(base).map(|a| SddAnd::new(P(a), S(a))).collect(): the component of the
        element the closure builds, evaluated with the closure's item as an element of the base"""
        if self.depth >= 2:
            return None
        t = mir.strip_refs(strip(t))
        while isinstance(t, tuple) and t and (t[0] in ("deref", "ref") or (t[0] == "call" and t[1].name in ("unwrap", "expect", "deref", "clone") and t[2])):
            t = mir.strip_refs(strip(t[1] if t[0] != "call" else t[2][0]))
        if not (isinstance(t, tuple) and t and t[0] == "call" and t[1].name in ("index", "first", "last", "get") and t[2]):
            return None
        coll = mir.strip_refs(strip(t[2][0]))
        while mir.is_call(coll) and coll[1].name in ("deref", "as_slice", "iter") and coll[2]:
            coll = mir.strip_refs(strip(coll[2][0]))
        if not (mir.is_call(coll, "collect") and coll[2]):
            return None
        m = strip(coll[2][0])
        if not (mir.is_call(m, "map") and len(m[2]) == 2):
            return None
        src = strip(m[2][0])
        while mir.is_call(src) and src[1].name in ("iter", "into_iter") and src[2]:
            src = strip(src[2][0])
        if not (mir.is_call(src, "node_iter") and mir.strip_refs(strip(src[2][0])) == self.base):
            return None
        clo = strip(m[2][1])
        if not (isinstance(clo, tuple) and clo and clo[0] == "agg" and clo[1] == "closure"):
            return None
        kids = [g for g in self.prog.lib_fns if g.npath == clo[2]]
        if len(kids) != 1 or kids[0].terms.ret is None:
            return None
        r = strip(kids[0].terms.ret)
        if not (mir.is_call(r, "new") and "SddAnd" in r[1].key() and len(r[2]) == 2):
            return None
        comp = r[2][0] if which == "prime" else r[2][1]
        names = clo[5] or ()
        capt = [n for n, v in zip(names, clo[4]) if mir.strip_refs(strip(v)) == self.base]
        ev2 = Eval(self.prog, kids[0], ("upvar", capt[0] if capt else "\x00none"))
        ev2._item_elem = True
        ev2.depth = self.depth + 1
        res = ev2.av(comp, nu)
        return None if UNK in res else res

    def nu_consistent(self, bb, nu):
        """are the dominating facts at block bb consistent with ν(base) = nu?"""
        for c, val, vm, d in self.te.facts_at(bb):
            c = strip(c)
            if mir.is_call(c, "is_neg") and strip(c[2][0]) == self.base:
                if (val != "0") != bool(nu):
                    return False
            if c[0] == "discr" and strip(c[1]) == self.base and vm:
                names = self._label_names(val, vm)
                if names and not any((n in NEG_VARIANTS) == bool(nu) for n in names if n in NEG_VARIANTS | REG_VARIANTS):
                    if any(n in NEG_VARIANTS | REG_VARIANTS for n in names):
                        return False
        return True

    def nu_known(self, bb):
        for c, val, vm, d in self.te.facts_at(bb):
            c = strip(c)
            if mir.is_call(c, "is_neg") and strip(c[2][0]) == self.base:
                return val != "0"
            if c[0] == "discr" and strip(c[1]) == self.base and vm:
                names = [n for n in self._label_names(val, vm) if n in NEG_VARIANTS | REG_VARIANTS]
                if names and all(n in NEG_VARIANTS for n in names):
                    return True
                if names and all(n in REG_VARIANTS for n in names):
                    return False
        return None

    @staticmethod
    def _label_names(lab, vm):
        if isinstance(lab, str):
            return [vm.get(lab, lab)]
        if isinstance(lab, tuple) and lab[0] == "not":
            return [n for v, n in vm.items() if v not in lab[1]]
        if isinstance(lab, tuple) and lab[0] == "in":
            return [vm.get(v, v) for v in lab[1]]
        return []

    # ---------------------------------------------------------- abstraction
    def av(self, t, nu):
        self.depth += 1
        try:
            if self.depth > 80:
                return {UNK}
            return self._av(t, nu)
        finally:
            self.depth -= 1

    def flip(self, s):
        return {(r, 1 - k) if r is not None and (r, k) != UNK else UNK for (r, k) in [x if len(x) == 2 else (None, 0) for x in s]} \
            if UNK not in s else {UNK}

    def _av(self, t, nu):
        t = strip(t)
        if not isinstance(t, tuple) or not t:
            return {UNK}
        if t == self.base:
            return {("F", 0)}
        k = t[0]
        if k == "agg":
            if t[2] in PTRS and t[3] in NEG_VARIANTS | REG_VARIANTS and len(t[4]) == 1 and self.is_node_of_base(t[4][0]):
                # a pointer to the base's node with an explicit sign: denotes F ⊕ ν ⊕ [variant is complemented]
                return {("F", nu ^ (1 if t[3] in NEG_VARIANTS else 0))}
            if t[2] in PTRS and t[3] in ("PtrTrue", "PtrFalse"):
                return {(("const", t[3]), 0)}
            if t[2] in PTRS and t[3] == "Var":
                return {(("opq", "var"), 0)}
            return {(("opq", show(t)[:40]), 0)}
        if k == "gamma":
            c = strip(t[1])
            if mir.is_call(c, "is_neg") and strip(c[2][0]) == self.base:
                out = set()
                for lab, v in t[2]:
                    if (lab != "0") == bool(nu):
                        out |= self.av(v, nu)
                return out
            if c[0] == "discr" and strip(c[1]) == self.base:
                vm = self.te._discr_variants.get(c) or {}
                out = set()
                for lab, v in t[2]:
                    names = [n for n in self._label_names(lab, vm)]
                    signed = [n for n in names if n in NEG_VARIANTS | REG_VARIANTS]
                    if signed and not any((n in NEG_VARIANTS) == bool(nu) for n in signed):
                        continue
                    if not signed and names:
                        continue  # constant / literal variants: ν does not apply
                    out |= self.av(v, nu)
                return out
            out = set()
            for lab, v in t[2]:
                out |= self.av(v, nu)
            return out
        if k == "phi":
            out = set()
            for p, v in t[2]:
                if isinstance(p, int) and p >= 0 and not self.nu_consistent(p, nu):
                    continue
                out |= self.av(v, nu)
            return out
        if k == "field" and isinstance(t[1], tuple) and t[1] and t[1][0] in ("gamma", "phi"):
            inner = t[1]
            arms = []
            for lab, v in inner[2]:
                v2 = strip(v)
                if v2[0] == "agg" and v2[1] in ("tuple", "adt") and t[2].isdigit() and int(t[2]) < len(v2[4]):
                    arms.append((lab, v2[4][int(t[2])]))
                else:
                    arms.append((lab, ("field", v) + tuple(t[2:])))
            return self.av((inner[0], inner[1], tuple(arms)) + tuple(inner[3:]), nu)
        if k == "field":
            # raw child read from the base's node:  NODE(base).low / .high / element.prime / element.sub
            if self.is_node_of_base(t[1]) and t[2] in ("low", "high"):
                return {(("child", t[2]), nu)}
            if t[2] in ("prime", "sub") and self.elem_of_base(t[1]):
                e = ("elem", mir.stable(strip(t[1]), self.fn)[:60])
                return {(("child", t[2], e), nu if t[2] == "sub" else 0)}
            if t[1][0:1] == ("as",) and t[1][2] == "Some":
                m = self.memo_read(t, nu)
                if m is not None:
                    return m
            return {UNK}
        if k == "call":
            c = t[1]
            nm = c.name
            a = t[2]
            if nm in ("neg", "negate") and a:
                return self.flip(self.av(a[-1], nu))
            if nm in ("true_ptr", "false_ptr"):
                return {(("const", nm), 0)}
            if nm in EFF_ACCESSORS | RAW_ACCESSORS and len(a) == 1 and any(p.split("::")[-1] in c.key() for p in PTRS):
                recv = self.av(a[0], nu)
                if recv == {UNK} or UNK in recv:
                    return {UNK}
                out = set()
                for (r, kk) in recv:
                    if r == "F":
                        which = nm.replace("_raw", "")
                        if nm in EFF_ACCESSORS:
                            out.add((("child", which), kk))
                        else:
                            # raw child of the pointer whose own sign bit is: ν for the base itself
                            if strip(a[0]) == self.base:
                                out.add((("child", which), nu))
                            else:
                                return {UNK}
                    else:
                        out.add((("child-of", r, nm), kk if nm in EFF_ACCESSORS else 0))
                return out
            if nm in ("low", "high") and len(a) == 1 and "BinarySDD" in c.key() and self.is_node_of_base(a[0]):
                return {(("child", nm), nu)}
            if nm in ("prime", "sub") and len(a) == 1 and "SddAnd" in c.key():
                if self.elem_of_base(a[0]):
                    e = ("elem", mir.stable(strip(a[0]), self.fn)[:60])
                    return {(("child", nm, e), nu if nm == "sub" else 0)}
                built = self._built_element(a[0], nm, nu)
                if built is not None:
                    return built
                return {(("opq", nm), 0)}
            if nm in COMMUTE:
                # the pointer operand: first pointer-like argument after self
                cands = [x for x in a[1:3]] if len(a) >= 2 else list(a)
                for x in cands:
                    s = self.av(x, nu)
                    if s and UNK not in s and all(r not in () for r, _ in s):
                        rel = [(r, kk) for r, kk in s]
                        return {(("app", nm, r), kk) for r, kk in rel}
                    if UNK in s:
                        return {UNK}
                return {UNK}
            if nm in ("get_or_insert", "get_or_insert_bdd", "unique_bdd") and a:
                node = strip(a[-1])
                if mir.is_call(node, "new") and any(x in node[1].key() for x in ("BddNode", "BinarySDD")):
                    lo, hi = self.av(node[2][1], nu), self.av(node[2][2], nu)
                    if UNK in lo or UNK in hi or len(lo) != 1 or len(hi) != 1:
                        return {UNK}
                    (rl, kl), = lo
                    (rh, kh), = hi
                    if kl != kh:
                        self.cp2.append(("ν=%d: children of the new node have different parity: low %s⊕%d, high %s⊕%d"
                                         % (nu, rl, kl, rh, kh)))
                        return {UNK}
                    return {(("node", rl, rh), kl)}
                return {(("opq", nm), 0)}
            if nm == "unwrap" and a:
                return self.av(a[0], nu)
            if nm in SINKS or nm in ("canonicalize", "unique_or", "var", "compile_cnf"):
                return {(("opq", nm), 0)}
            if nm == "scratch":
                return {UNK}
            # a small private helper that is handed the base pointer (`sub_through(f, &a)` = the sub of `a` as `f` denotes
            # it): its body in its place, so that a sign test that moved into the helper is still seen - and one that is
            # missing there is still missed
            if (c.local or getattr(c, "res_local", False)) and self.depth < 2 and any(mir.strip_refs(strip(x)) == self.base for x in a):
                hs = [h for h in self.prog.resolve(c) if "{closure" not in h.npath]
                if len(hs) == 1 and hs[0].terms.ret is not None and hs[0] is not self.fn and len(hs[0].blocks) <= 12 and \
                        not any(cs_.callee.name == hs[0].name for cs_ in hs[0].terms.calls):
                    from . import canon as _canon
                    body = _canon.subst(hs[0].terms.ret, {i_ + 1: x for i_, x in enumerate(a)})
                    self.depth += 1
                    try:
                        r_ = self.av(body, nu)
                    finally:
                        self.depth -= 1
                    if UNK not in r_:
                        return r_
            return {(("opq", nm), 0)}
        if k == "param" or k == "upvar":
            return {(("opq", show(t)), 0)}
        if k == "mu":
            return {UNK}
        return {UNK}

    # ---------------------------------------------------------- memo (CP3)
    def memo_sites(self):
        if self._memo_sites is None:
            ins = []
            for cs in self.te.calls:
                if cs.callee.name == "insert" and "HashMap" in cs.callee.key() and len(cs.args) == 3 \
                        and strip(cs.args[1]) == self.base:
                    ins.append(cs)
            self._memo_sites = ins
        return self._memo_sites

    def memo_read(self, t, nu):
        """(get(cache, base) as Some).0  ->  what insert(cache, base, v) stored under the same ν"""
        g = t[1][1]
        g = strip(g)
        if not (mir.is_call(g, "get") and "HashMap" in g[1].key() and strip(g[2][-1]) == self.base):
            return None
        out = set()
        for cs in self.memo_sites():
            if not self.nu_consistent(cs.bb, nu):
                continue
            out |= self.av(cs.args[2], nu)
        return out or {UNK}


def fmt(s):
    def one(x):
        if x == UNK:
            return "?"
        r, k = x
        return "%s%s" % ("¬" if k else "", r if isinstance(r, str) else "%s(%s)" % (r[0], ", ".join(map(str, r[1:]))))
    return "{" + ", ".join(sorted(one(x) for x in s)) + "}"


def relevant(s):
    """does the abstraction mention the base at all?"""
    for x in s:
        if x == UNK:
            return True
        r, k = x
        if r == "F" or (isinstance(r, tuple) and r[0] in ("child", "app", "node", "child-of")):
            return True
    return False


def bases_of(fn):
    """pointer-typed parameters / captured variables whose sign is inspected in fn"""
    te = fn.terms
    cands = set()
    for cs in te.calls:
        if cs.callee.name in ("is_neg", "low", "high", "low_raw", "high_raw", "node_iter") and cs.args:
            a = strip(cs.args[0])
            if a[0] in ("param", "upvar"):
                cands.add(a)
    for b, (c, vm) in te.switch_term.items():
        c = strip(c)
        if c[0] == "discr" and vm and (set(vm.values()) & (NEG_VARIANTS | REG_VARIANTS)):
            a = strip(c[1])
            if a[0] in ("param", "upvar"):
                cands.add(a)
    return sorted(cands, key=repr)


def run(prog):
    out = []
    # the nested traversal helpers of the DDNNFPtr::fold implementations are sinks for their pointer argument, under
    # whatever name they carry
    for f in prog.lib_fns:
        if (f.parent or "").endswith("DDNNFPtr>::fold") and f.kind != "Closure":
            SINKS.setdefault(f.name, (0,))
    out += accessor_contracts(prog)
    n_sinks = 0
    for fn in prog.lib_fns:
        if skip(fn) or not fn.npath.startswith(MODULES) and not any(m in fn.npath for m in MODULES):
            continue
        if fn.npath.startswith("ffi::"):
            continue
        if not any(b["term"]["k"] == "call" for b in fn.blocks):
            continue
        bases = bases_of(fn)
        if not bases:
            continue
        for base in bases:
            ev = Eval(prog, fn, base)
            bname = fn.arg_name(base[1]) if base[0] == "param" else base[1]
            res = analyse(prog, fn, ev, bname or show(base))
            n_sinks += len(res)
            out += res
            out += closure_elements(prog, fn, ev, bname or show(base))
    if n_sinks < 40:
        raise CheckerError("CP: only %d sink instances recognised (expected >= 40)" % n_sinks)
    out += sdd_condition_returns(prog)
    out += ite_adapters(prog)
    out += hash_sign(prog)
    out += serializer_flags(prog)
    return out


def sdd_condition_returns(prog):
    """Every value the SDD `condition` returns on a path that is open to both polarities of the pointer denotes the same
    thing relative to what the pointer denotes: a value derived from a *stored* sub (conditioned or not) is the complement
    of the right answer when the pointer is complemented, unless the complement is applied on that path."""
    out = []
    fns = [f for f in prog.find(name="condition", impl_trait="builder::BottomUpBuilder", unit="rsdd-lib") if "SddPtr" in f.npath]
    if len(fns) != 1 or fns[0].terms.ret is None:
        return out
    fn = fns[0]
    te = fn.terms
    base = ("param", 2)
    ev = Eval(prog, fn, base)
    alts = []

    def collect(t, conds):
        t0 = strip(t)
        if isinstance(t0, tuple) and t0 and t0[0] == "phi":
            for _, v in t0[2]:
                collect(v, conds)
        elif isinstance(t0, tuple) and t0 and t0[0] == "gamma":
            for lab, v in t0[2]:
                collect(v, conds + [(strip(t0[1]), lab)])
        else:
            alts.append((t0, conds))
    collect(te.ret, [])
    errs, n = [], 0
    for t0, conds in alts:
        allowed = {0, 1}
        for c, lab in conds:
            if mir.is_call(c, "is_neg") and c[2] and strip(c[2][0]) == base:
                truth = None if lab not in ("0", "1", ("not", ("0",)), ("not", ("1",))) else (lab in ("1", ("not", ("0",))))
                if truth is not None:
                    allowed &= {1 if truth else 0}
            if c[0] == "discr" and strip(c[1]) == base:
                allowed = set()          # variant-specific alternatives are SH2's / the per-variant rules'
        if allowed != {0, 1}:
            continue
        ev.cp2 = []
        s0, s1 = ev.av(t0, 0), ev.av(t0, 1)
        if UNK in s0 or UNK in s1 or not (relevant(s0) or relevant(s1)):
            continue
        n += 1
        if s0 != s1:
            errs.append("a path returns %s, which denotes %s for a regular pointer and %s for a complemented one: the stored "
                        "side of a complemented node is returned without the complement" % (show(t0)[:60], fmt(s0), fmt(s1)))
    if n:
        out.append(inst("CP", "%s:sdd:returns" % fn.npath, VIOLATION if errs else OK, fn, None,
                        "; ".join(dict.fromkeys(errs)) if errs else "%d returned values denote the same thing for both polarities" % n))
    return out


ITER_ADAPTORS = ("map", "for_each", "filter_map", "flat_map", "fold", "any", "all", "filter", "find", "position")


def closure_elements(prog, fn, ev, bname):
    """CP-closure: the elements of a decision node reached from a possibly complemented pointer carry *stored* subs; the
    sub the pointer denotes is the stored one negated when the pointer is complemented.  A closure that is mapped over
    those elements (`or.iter().map(|a| ..)`, `f.node_iter().map(..)`) and feeds `a.sub()` as it is to a semantic
    operation (and/or/ite/exists/...) treats a complemented pointer like a regular one — negating the combined result
    afterwards does not repair that for operations that do not commute with negation."""
    out = []
    te = fn.terms
    k = 0
    for cs in te.calls:
        if cs.callee.name not in ITER_ADAPTORS or len(cs.args) < 2:
            continue
        src = strip(cs.args[0])
        while isinstance(src, tuple) and src and src[0] == "call" and src[1].name in ("iter", "into_iter", "deref", "enumerate", "rev", "skip", "cloned", "copied") and src[2]:
            src = strip(src[2][0])
        from_base = ev.is_node_of_base(src) or (mir.is_call(src, "node_iter") and strip(src[2][0]) == ev.base) or \
            (src[0] == "field" and src[2] == "nodes" and ev.is_node_of_base(src[1]))
        if not from_base:
            continue
        clo = [a for a in cs.args[1:] if isinstance(a, tuple) and a[0] == "agg" and a[1] == "closure"]
        if not clo:
            continue
        kids = [g for g in prog.lib_fns if g.npath == clo[0][2]]
        if not kids:
            continue
        nu = ev.nu_known(cs.bb)
        if nu is False:
            continue    # the pointer is known to be regular here: stored subs are the denoted ones
        kf = kids[0]
        for c2 in kf.terms.calls:
            nm = c2.callee.name
            if nm not in SINKS:
                continue
            if not (c2.callee.local or c2.callee.res_local or (c2.callee.trait or "").startswith(("builder::", "repr::"))):
                continue
            for i in SINKS[nm]:
                try:
                    a = strip(c2.args[i])
                except IndexError:
                    continue
                raw = [x for x in mir.subterms(a) if mir.is_call(x, "sub") and strip(x[2][0])[0] == "param"]
                if not raw:
                    continue
                # compensated inside the closure by the captured pointer's sign?
                def _sign_adjusted(x):
                    # γ(c; sub, neg(sub)) in either order, whatever carries the sign test (is_neg() or a hoisted bool)
                    if x[0] != "gamma" or len(x[2]) != 2:
                        return False
                    arms = [strip(v) for _, v in x[2]]
                    plain = [v for v in arms if mir.is_call(v, "sub")]
                    negd = [v for v in arms if mir.is_call(v, "neg") and mir.is_call(strip(v[2][0]), "sub")]
                    return len(plain) == 1 and len(negd) == 1 and strip(negd[0][2][0]) == plain[0]
                comp = any(_sign_adjusted(x) for x in mir.subterms(a))
                k += 1
                out.append(inst("CP", "%s:%s:closure-elem#%d" % (fn.npath, bname, k), OK if comp else VIOLATION, fn, c2.line,
                                "element subs are sign-adjusted before use" if comp else
                                "the closure mapped over the elements of `%s` passes the stored sub %s to `%s`: when `%s` is "
                                "complemented the denoted sub is its negation, so the element-wise result is computed for the wrong "
                                "function (a final negation repairs this only for operations that commute with negation)"
                                % (bname, show(raw[0])[:30], nm, bname)))
    return out


RETURN_CONTRACT = {"condition_essential", "cond_with_alloc", "cond_helper", "smooth_helper"}


def analyse(prog, fn, ev, bname):
    te = fn.terms
    out = []
    roles = defaultdict(list)   # role key -> [(cs, arg term, mode)]
    pairs = []
    for cs in te.calls:
        if cs.exp:
            continue
        nm = cs.callee.name
        key = cs.callee.key()
        idxs, mode = None, "eff"
        if nm in RAW_SINKS:
            idxs, mode = RAW_SINKS[nm], "raw"
            # the pointer argument by type: a `&mut self` serialiser has the pointer second
            try:
                hs_ = [h for h in mir.CURRENT.resolve(cs.callee) if h.kind != "Closure"] if mir.CURRENT is not None else []
            except Exception:
                hs_ = []
            if len(hs_) == 1:
                pi = [i_ for i_ in range(len(cs.args)) if i_ + 1 < len(hs_[0].locals) and
                      ("BddPtr" in hs_[0].locals[i_ + 1]["s"] or "SddPtr" in hs_[0].locals[i_ + 1]["s"]) and
                      "HashMap" not in hs_[0].locals[i_ + 1]["s"] and "Vec" not in hs_[0].locals[i_ + 1]["s"]]
                if pi:
                    idxs = (pi[0],)
        elif nm in SINKS and (cs.callee.local or cs.callee.res_local or (cs.callee.trait or "").startswith(("builder::", "repr::"))
                              or nm in ("eq",) and "Ptr" in key):
            idxs = SINKS[nm]
        else:
            for cn, ix in list(ELEM_CTORS.items()):
                ty, m = cn.split("::")
                if nm == m and ty in key:
                    idxs = ix
            for cn, ix in NODE_CTORS.items():
                ty, m = cn.split("::")
                if nm == m and ty in key:
                    pairs.append((cs, cs.args[ix[0]], cs.args[ix[1]], "ctor"))
            if nm in PAIR_SINKS and len(cs.args) >= 2 and fn.impl_trait != "std::cmp::PartialEq" and (
                    "BddPtr" in key or "SddPtr" in key or (cs.callee.trait or "").startswith("builder::")
                    or nm == "sdd_eq"):
                pairs.append((cs, cs.args[-2], cs.args[-1], "eq"))
        if not idxs:
            continue
        for i in idxs:
            if -len(cs.args) <= i < len(cs.args):
                roles[(nm, i % len(cs.args) if i >= 0 else i)].append((cs, cs.args[i], mode))
    seen_keys = defaultdict(int)
    for (nm, i), sites in sorted(roles.items(), key=lambda kv: repr(kv[0])):
        # sites reachable under both polarities are judged individually; ν-specific sites by role union
        specific = {0: set(), 1: set()}
        spec_sites = []
        for cs, arg, mode in sites:
            ev.cp2 = []
            nuk = ev.nu_known(cs.bb)
            s = {0: ev.av(arg, 0) if nuk in (None, False) else set(), 1: ev.av(arg, 1) if nuk in (None, True) else set()}
            if not (relevant(s[0]) or relevant(s[1])):
                continue
            k = "%s:%s:%s#arg%d" % (fn.npath, bname, nm, i)
            if nuk is not None:
                specific[0] |= s[0]
                specific[1] |= s[1]
                spec_sites.append((cs, k, mode))
                continue
            seen_keys[k] += 1
            if seen_keys[k] > 1:
                k += "#%d" % seen_keys[k]
            out.append(judge(fn, cs.line, k, s, mode, nm, ev))
        if spec_sites:
            cs, k, mode = spec_sites[0]
            k += ":by-polarity"
            if mode == "raw" or UNK in specific[0] or UNK in specific[1] or not specific[0] or not specific[1]:
                out.append(judge(fn, cs.line, k, specific, mode, nm, ev))
            else:
                k0 = {kk for r, kk in specific[0] if relevant({(r, kk)})}
                k1 = {kk for r, kk in specific[1] if relevant({(r, kk)})}
                ok = k0 == k1
                out.append(inst("CP", k, OK if ok else VIOLATION, fn, cs.line,
                                "parity of the operand is the same on the regular and on the complemented branch" if ok else
                                "CP1 on the regular branch `%s` receives %s, on the complemented branch %s"
                                % (nm, fmt(specific[0]), fmt(specific[1]))))
    # pairs: node constructors (CP2: equal parity) and equality tests (parity difference ν-invariant)
    for cs, a, b, kind in pairs:
        ev.cp2 = []
        nuk = ev.nu_known(cs.bb)
        diffs = {}
        unk = False
        rel = False
        for nu in (0, 1):
            if nuk is not None and bool(nuk) != bool(nu):
                continue
            sa, sb = ev.av(a, nu), ev.av(b, nu)
            if relevant(sa) or relevant(sb):
                rel = True
            if UNK in sa or UNK in sb:
                unk = True
                continue
            diffs[nu] = {ka ^ kb for (_, ka) in sa for (_, kb) in sb}
        if not rel:
            continue
        k = "%s:%s:%s#pair" % (fn.npath, bname, "new" if kind == "ctor" else "eq")
        seen_keys[k] += 1
        if seen_keys[k] > 1:
            k += "#%d" % seen_keys[k]
        if unk or not diffs:
            out.append(inst("CP", k, UNDECIDED, fn, cs.line, "operands not classified"))
            continue
        if kind == "ctor":
            bad = [nu for nu, d in diffs.items() if d != {0}]
            out.append(inst("CP", k, VIOLATION if bad else OK, fn, cs.line,
                            "CP2 under ν=%d the two children handed to the node constructor have different parity "
                            "(one is complement-compensated, the other is not): the node mixes a function with the "
                            "negation of its sibling" % bad[0] if bad else "children have equal parity under both polarities"))
        else:
            vals = list(diffs.values())
            bad = len(vals) == 2 and vals[0] != vals[1]
            out.append(inst("CP", k, VIOLATION if bad else OK, fn, cs.line,
                            "CP1 the two compared pointers differ in parity by %s for a regular pointer but by %s for a "
                            "complemented one: the test means something else on complemented inputs" % (sorted(vals[0]), sorted(vals[1]))
                            if bad else "comparison is parity-consistent"))
    # return contract: every classified alternative denotes a function of F with parity 0
    if fn.name in RETURN_CONTRACT and ev.base[0] == "param":
        alts = []

        def collect(t, pb):
            if isinstance(t, tuple) and t and t[0] == "phi":
                for p_, v in t[2]:
                    collect(v, p_)
            else:
                alts.append((pb, t))
        for b, t in te.ret_by_block.items():
            collect(t, b)
        bad, okc, unk = [], 0, 0
        for pb, t in alts:
            for nu in (0, 1):
                if isinstance(pb, int) and pb >= 0 and not ev.nu_consistent(pb, nu):
                    continue
                ev.cp2 = []
                s = ev.av(t, nu)
                if ev.cp2:
                    bad.append("ν=%d: %s" % (nu, ev.cp2[0]))
                    continue
                for x in s:
                    if x == UNK:
                        unk += 1
                    elif relevant({x}):
                        if x[1] != 0:
                            bad.append("for a %s pointer it returns %s" % ("complemented" if nu else "regular", fmt({x})))
                        else:
                            okc += 1
        k = "%s:%s:return" % (fn.npath, bname)
        if bad:
            out.append(inst("CP", k, VIOLATION, fn, None,
                            "CP1 `%s` must return a function of the denoted function with the pointer's own sign; %s"
                            % (fn.name, "; ".join(sorted(set(bad))[:3]))))
        elif okc == 0:
            out.append(inst("CP", k, UNDECIDED, fn, None, "no return alternative classified"))
        else:
            out.append(inst("CP", k, OK, fn, None, "%d return alternative(s) × polarity all carry the pointer's own sign (%d unclassified)" % (okc, unk)))
    return out


def judge(fn, line, key, s, mode, what, ev):
    cp2 = list(ev.cp2)
    ev.cp2 = []
    if cp2:
        return inst("CP", key, VIOLATION, fn, line, "CP2 %s" % "; ".join(cp2[:2]))
    if UNK in s[0] or UNK in s[1]:
        return inst("CP", key, UNDECIDED, fn, line, "value not classified: ν=0 %s, ν=1 %s" % (fmt(s[0]), fmt(s[1])))
    if mode == "raw":
        bad = [nu for nu in (0, 1) for (r, k) in s[nu] if isinstance(r, tuple) and r[0] == "child" and k != nu]
        if bad:
            return inst("CP", key, VIOLATION, fn, line,
                        "CP4 the serialiser must descend into *raw* children (the node entry is shared by both polarities); "
                        "under ν=%d it descends into %s" % (bad[0], fmt(s[bad[0]])))
        return inst("CP", key, OK, fn, line, "raw children under both polarities: ν=0 %s, ν=1 %s" % (fmt(s[0]), fmt(s[1])))
    if not s[0] or not s[1]:
        return inst("CP", key, OK, fn, line, "reachable under one polarity only: %s" % fmt(s[0] or s[1]))
    if s[0] != s[1]:
        return inst("CP", key, VIOLATION, fn, line,
                    "CP1 the value reaching `%s` denotes %s when the pointer is regular but %s when it is complemented: "
                    "the complement bit is applied twice or not at all on one side" % (what, fmt(s[0]), fmt(s[1])))
    return inst("CP", key, OK, fn, line, "ν-invariant: %s" % fmt(s[0]))


# ------------------------------------------------------------------ accessor contracts
def accessor_contracts(prog):
    out = []
    for adt in PTRS:
        short = adt.split("::")[-1]
        for nm in ("low", "high", "low_raw", "high_raw"):
            fns = prog.find(name=nm, self_adt=adt, unit="rsdd-lib")
            if not fns:
                continue
            fn = fns[0]
            ev = Eval(prog, fn, ("param", 1))
            body = canon.through_checked(prog, fn.terms.ret)     # `try_low_raw(self).expect(..)`: the accepting paths
            if body is not fn.terms.ret:
                # the variant names of a match that now lives in the checked variant
                for cs_ in fn.terms.calls:
                    if cs_.callee.local or getattr(cs_.callee, "res_local", False):
                        for h_ in prog.resolve(cs_.callee):
                            for k_, v_ in h_.terms._discr_variants.items():
                                ev.te._discr_variants.setdefault(k_, v_)
            s = {nu: ev.av(body, nu) for nu in (0, 1)}
            which = nm.replace("_raw", "")
            want = {nu: {(("child", which), nu if nm.endswith("_raw") else 0)} for nu in (0, 1)}
            key = "%s::%s:contract" % (adt, nm)
            if UNK in s[0] or UNK in s[1]:
                out.append(inst("CP", key, UNDECIDED, fn, None, "accessor body not classified: %s / %s" % (fmt(s[0]), fmt(s[1]))))
            elif s != want:
                out.append(inst("CP", key, VIOLATION, fn, None,
                                "%s::%s must return the %s %s child; its body returns %s for a regular and %s for a "
                                "complemented pointer" % (short, nm, "raw" if nm.endswith("_raw") else "effective (complement-aware)",
                                                          which, fmt(s[0]), fmt(s[1]))))
            else:
                out.append(inst("CP", key, OK, fn, None, "%s child: %s / %s" % ("raw" if nm.endswith("_raw") else "effective", fmt(s[0]), fmt(s[1]))))
        # neg flips, is_neg = ν
        fn = prog.find1(name="neg", self_adt=adt, impl_trait="repr::ddnnf::DDNNFPtr", unit="rsdd-lib")
        ev = Eval(prog, fn, ("param", 1))
        s = {nu: ev.av(fn.terms.ret, nu) for nu in (0, 1)}
        ok = s[0] == {("F", 1)} and s[1] == {("F", 1)}
        out.append(inst("CP", "%s::neg:contract" % adt, OK if ok else (UNDECIDED if UNK in s[0] | s[1] else VIOLATION), fn, None,
                        "neg flips the sign and keeps the node" if ok else "neg returns %s / %s" % (fmt(s[0]), fmt(s[1]))))
        # constants and literals under neg
        te = fn.terms
        from .base import gamma_arms
        arms = gamma_arms(te, te.ret) or {}
        errs = []
        for a, b in (("PtrTrue", "PtrFalse"), ("PtrFalse", "PtrTrue")):
            v = arms.get(a)
            if v is None or not (strip(v)[0] == "agg" and strip(v)[3] == b):
                errs.append("neg(%s) is %s" % (a, show(v)))
        if "Var" in arms:
            v = strip(arms["Var"])
            okv = v[0] == "agg" and v[3] == "Var" and strip(v[4][1])[0:2] == ("un", "Not")
            if not okv:
                errs.append("neg(Var(l, p)) is %s" % show(v))
        out.append(inst("CP", "%s::neg:constants" % adt, VIOLATION if errs else OK, fn, None,
                        "; ".join(errs) if errs else "neg swaps the constants (and flips a literal's polarity)"))
        fn = prog.find1(name="is_neg", self_adt=adt, impl_trait="repr::ddnnf::DDNNFPtr", unit="rsdd-lib")
        te = fn.terms
        errs = []
        r = te.ret
        if isinstance(r, tuple) and r[0] == "gamma" and strip(r[1])[0] == "discr":
            vm = te._discr_variants.get(strip(r[1])) or {}
            covered = set()
            for lab, val in r[2]:
                val = strip(val)
                b = val[2] if val[0] == "const" else None
                for n in Eval._label_names(lab, vm):
                    covered.add(n)
                    if b is None or (b == "1") != (n in NEG_VARIANTS):
                        errs.append("is_neg(%s) = %s" % (n, show(val)))
            if not (NEG_VARIANTS & covered):
                errs.append("?no complemented variant is recognised")
        else:
            errs.append("?is_neg is not a match on the variant: %s" % show(r)[:80])
        out.append(inst("CP", "%s::is_neg:contract" % adt, VIOLATION if errs else OK, fn, None,
                        "; ".join(errs[:3]) if errs else "is_neg is true exactly for the complemented variants"))
    return out


# ------------------------------------------------------------------ ITE cache adapters (ν = is_compl_choice)
def _is_flag(c):
    c = strip(c)
    while isinstance(c, tuple) and c and c[0] in ("deref", "ref"):
        c = strip(c[1])
    return mir.is_call(c, "is_compl_choice")


def _specialise(t, flag):
    """resolve every choice on is_compl_choice(..) in t for the given value of the flag"""
    def go(x):
        if not isinstance(x, tuple) or not x:
            return x
        if x[0] == "gamma":
            ba = bool_arms(x)
            if ba and _is_flag(ba[0]):
                return go(ba[2] if flag else ba[1])
            if ba:
                c = strip(ba[0])
                if isinstance(c, tuple) and c and c[0] == "const" and str(c[2]) in ("0", "1", "false", "true"):
                    return go(ba[2] if str(c[2]) in ("1", "true") else ba[1])
                if isinstance(c, tuple) and c and c[0] == "un" and c[1] == "Not" and _is_flag(c[2]):
                    return go(ba[1] if flag else ba[2])
        if x[0] == "call":
            return (x[0], x[1], tuple(go(a) for a in x[2])) + tuple(x[3:])
        return tuple(go(a) if isinstance(a, tuple) else a for a in x)
    return go(t)


def _parity(t, res):
    """0 when t is res, 1 when it is neg(res) (an even / odd number of negations), else None"""
    t = strip(t)
    n = 0
    while True:
        while isinstance(t, tuple) and t and t[0] in ("deref", "ref"):
            t = strip(t[1])
        if mir.is_call(t, "neg") and t[2]:
            n ^= 1
            t = strip(t[2][0])
            continue
        break
    r = strip(res)
    while isinstance(r, tuple) and r and r[0] in ("deref", "ref"):
        r = strip(r[1])
    return n if t == r else None


def ite_adapters(prog):
    """the ITE tables keep results for the uncomplemented standard triple: for each value of the triple's complement
    flag, the number of negations applied on the way in equals the number applied on the way out, and a complemented
    triple does negate.  Helpers and Option combinators are looked through; the flag is resolved to each value."""
    out = []

    def helper_ok(h):
        return "builder::cache" in h.npath and "{closure" not in h.npath and h.name not in ("is_compl_choice", "neg")

    for adt in ("builder::cache::all_app::AllIteTable", "builder::cache::lru_app::LruIteTable"):
        ins = prog.find1(name="insert", self_adt=adt, unit="rsdd-lib")
        get = prog.find1(name="get", self_adt=adt, unit="rsdd-lib")
        key = "%s:compl-flag" % adt
        te = ins.terms
        stored = None
        for cs in te.calls:
            if cs.callee.name == "insert" and len(cs.args) >= 3 and not cs.callee.key().endswith("IteTable>::insert"):
                stored = cs.args[2]
        wr, rd = {}, {}
        why = []
        ITE_PREDS = {"is_compl_choice": lambda v: v == "IteComplChoice"}
        VAR = {0: "IteChoice", 1: "IteComplChoice"}

        def fold_consts(x):
            """a choice on a condition that has become a constant picks its arm"""
            if not isinstance(x, tuple) or not x:
                return x
            if x[0] == "call":
                return (x[0], x[1], tuple(fold_consts(a) for a in x[2])) + tuple(x[3:])
            x = tuple(fold_consts(a) if isinstance(a, tuple) else a for a in x)
            if x[0] == "gamma":
                c = strip(x[1])
                if isinstance(c, tuple) and c and c[0] == "const" and c[2] in ("0", "1"):
                    for lab, v in x[2]:
                        if lab == c[2] or (isinstance(lab, tuple) and lab and lab[0] == "not" and c[2] not in lab[1]):
                            return v
            return x

        def spec(te_, t, flag):
            # the flag is the variant of the triple: is_compl_choice(ite), a match on the triple itself, or a flag computed
            # from it by a helper (`ite.cache_key()`: the helper's match resolved to the variant, projections reduced)
            from .gl import _resolve
            t1 = canon.assume_variant(te_, _specialise(t, flag), ("param", 2), VAR[flag], ITE_PREDS)

            def deep(x):
                if not isinstance(x, tuple) or not x:
                    return x
                if x[0] == "call":
                    return (x[0], x[1], tuple(deep(a) for a in x[2])) + tuple(x[3:])
                x = tuple(deep(a) if isinstance(a, tuple) else a for a in x)
                return _resolve(x, flag) if x[0] == "gamma" else x
            return fold_consts(canon.project(deep(t1)))
        if stored is None:
            why.append("no insertion into the backing table found")
        else:
            st = canon.inline_local(prog, stored, helper_ok)
            for flag in (0, 1):
                p_ = _parity(spec(te, st, flag), ("param", 3))
                if p_ is None:
                    why.append("stored value %s" % show(spec(te, st, flag))[:60])
                else:
                    wr[flag] = p_
        tg = get.terms
        rt = canon.inline_local(prog, tg.ret, helper_ok)
        for flag in (0, 1):
            outs = canon.option_outcomes(prog, tg, spec(tg, rt, flag))
            if not outs:
                why.append("returned value %s" % show(spec(tg, rt, flag))[:60])
                continue
            ps = set()
            for o in outs:
                o = spec(tg, canon.inline_local(prog, o, helper_ok), flag)
                base = [x for x in mir.subterms(o) if canon.is_payload(x) and mir.is_call(strip(x[1][1]), "get") and
                        "table" in show(strip(x[1][1])[2][0])]
                if not base:
                    continue   # an answer that does not come from the table (a constant triple, a remembered last hit)
                ps.add(_parity(o, base[0]))
            if len(ps) == 1 and None not in ps:
                rd[flag] = ps.pop()
            else:
                why.append("returned value %s" % [show(o)[:50] for o in outs])
        # a second-level memo in front of the table (a remembered last hit held in a cell of the adapter): what it
        # remembers is the result *after* the flag was applied, so it answers for one value of the flag only — its key
        # must tell the two apart, or the hit must be sign-adjusted like a table hit
        side = []
        for cs in tg.calls:
            if cs.callee.name in ("set", "replace") and len(cs.args) == 2 and "arg1." in show(strip(cs.args[0])) and \
                    "table" not in show(strip(cs.args[0])):
                cell = show(strip(cs.args[0]))
                pars, keys = [], []
                for flag in (0, 1):
                    v = spec(tg, canon.inline_local(prog, cs.args[1], helper_ok), flag)
                    tup = [x for x in mir.subterms(v) if x[0] == "agg" and x[1] == "tuple" and len(x[4]) >= 2]
                    if not tup:
                        continue
                    val = strip(tup[0][4][-1])
                    pv = None
                    cands = [val]
                    if canon.is_payload(val):
                        cands = canon.option_outcomes(prog, tg, spec(tg, canon.inline_local(prog, val[1][1], helper_ok), flag)) or []
                    for o in cands:
                        o = spec(tg, canon.inline_local(prog, o, helper_ok), flag)
                        base = [x for x in [strip(o)] + list(mir.subterms(o)) if canon.is_payload(x) and mir.is_call(strip(x[1][1]), "get") and "table" in show(x)]
                        if base:
                            pv = _parity(o, base[0])
                    pars.append(pv)
                    comps = [strip(k_) for k_ in tup[0][4][:-1]]
                    # the whole triple value (the enum, variant included) as a key component carries the flag
                    whole = any(mir.strip_refs(k_) == ("param", 2) for k_ in comps)
                    keys.append("<whole Ite #%d>" % flag if whole else " ".join(show(k_) for k_ in comps))
                reads = [o for flag in (0, 1) for o in (canon.option_outcomes(prog, tg, spec(tg, rt, flag)) or []) if cell in show(o)]
                if len(pars) == 2 and None not in pars and pars[0] != pars[1] and keys[0].replace("IteComplChoice", "IteChoice") == keys[1].replace("IteComplChoice", "IteChoice") and reads:
                    if not any(mir.is_call(x, "neg") for o in reads for x in [strip(o)]):
                        side.append("`%s` remembers a result with the complement flag already applied under a key (%s) that is the same "
                                    "for a triple and its complemented twin, and a hit is returned as it is: the twin triple gets the "
                                    "negation of its result" % (cell.replace("arg1.", ""), keys[0][:50]))
        if side:
            out.append(inst("CP", key, VIOLATION, get, None, "; ".join(side)))
            continue
        if len(wr) != 2 or len(rd) != 2:
            out.append(inst("CP", key, UNDECIDED, ins, None, "adapter shape not recognised (write %s, read %s; %s)" % (wr, rd, "; ".join(why)[:160])))
            continue
        errs = []
        for flag in (0, 1):
            if wr[flag] ^ rd[flag]:
                errs.append("for %s triples the result is %s on insert but %s on get"
                            % ("complemented" if flag else "regular", "negated" if wr[flag] else "stored as is",
                               "negated" if rd[flag] else "returned as is"))
        if not errs and not (wr[1] == 1 and wr[0] == 0):
            errs.append("the complement flag of the standard triple is not applied on insert")
        out.append(inst("CP", key, VIOLATION if errs else OK, ins, None,
                        "; ".join(errs) if errs else "complement flag applied symmetrically: insert negates iff get negates"))
    return out


# ------------------------------------------------------------------ semantic hash follows the sign
def hash_sign(prog):
    from .base import gamma_arms
    out = []
    for adt in PTRS:
        fn = prog.find1(name="cached_semantic_hash", self_adt=adt, unit="rsdd-lib")
        errs = []
        n = 0
        # evaluated per variant of the pointer (canon.paths_under), so the spelling of the match does not matter
        for nme in sorted(NEG_VARIANTS | REG_VARIANTS):
            if nme not in [v["name"] for v in prog.adts[adt]["variants"]]:
                continue
            rs = canon.paths_under(fn, ("param", 1), nme)
            if not rs:
                errs.append("?no value evaluated for %s" % nme)
                continue
            for t in rs:
                t = strip(t)
                n += 1
                if nme in NEG_VARIANTS:
                    inner = strip(t[2][0]) if mir.is_call(t, "negate") and t[2] else None
                    arg = strip(inner[2][0]) if inner is not None and mir.is_call(inner, "cached_semantic_hash") and inner[2] else None
                    ok = arg is not None and ((mir.is_call(arg, "neg") and strip(arg[2][0]) == ("param", 1)) or
                                              (arg[0] == "field" and arg[1][0] == "as" and strip(arg[1][1]) == ("param", 1) and arg[1][2] == nme))
                    if not ok:
                        errs.append("hash of a complemented pointer (%s) is %s, expected negate(hash of its node)" % (nme, show(t)[:80]))
                else:
                    if not (mir.is_call(t, "cached_semantic_hash") and not mir.is_call(t, "negate")):
                        errs.append("hash of a regular pointer (%s) is %s" % (nme, show(t)[:80]))
        if n < 2 and not errs:
            errs.append("?variant arms not recognised")
        out.append(inst("CP", "%s::cached_semantic_hash:sign" % adt, VIOLATION if errs else OK, fn, None,
                        "; ".join(errs[:2]) if errs else "H(¬p) = negate(H(p)); regular pointers hash their node"))
    # builders: a node found under the negated hash is returned complemented
    for self_adt, wrap in (("builder::decision_nnf::semantic::SemanticDecisionNNFBuilder", "variant"),
                           ("builder::sdd::semantic::SemanticSddBuilder", "neg")):
        fn = prog.find1(name="check_cached_hash_and_neg", self_adt=self_adt, unit="rsdd-lib")
        te = fn.terms
        errs = []
        found = 0
        outs = canon.option_outcomes(prog, te, te.ret)
        for inner in (outs or []):
            inner = strip(canon.resolve_hashers(te, inner))
            via_neg_hash = any(mir.is_call(y, "negate") for y in mir.subterms(inner)) or any(
                mir.is_call(y, "negate") for x in mir.subterms(inner) if x[0] == "mut" and x[1][0] in te.calls_by_bb
                for a in te.calls_by_bb[x[1][0]].args for y in mir.subterms(a))
            if wrap == "variant":
                if inner[0] == "agg" and inner[3] in ("Reg", "Compl"):
                    found += 1
                    if (inner[3] == "Compl") != via_neg_hash:
                        errs.append("node found under the %s hash is returned as %s" % ("negated" if via_neg_hash else "plain", inner[3]))
            else:
                is_neg = mir.is_call(inner, "neg")
                found += 1
                if is_neg != via_neg_hash:
                    errs.append("node found under the %s hash is returned %s" % ("negated" if via_neg_hash else "plain",
                                                                                    "negated" if is_neg else "as is"))
        if found < 2:
            errs.append("?lookup results not recognised (%d)" % found)
        out.append(inst("CP", "%s::check_cached_hash_and_neg:sign" % self_adt, verdict_of(errs), fn, None,
                        errtext(errs[:2]) if errs else "plain hash ↦ regular pointer, negated hash ↦ complemented pointer"))
    return out


# ------------------------------------------------------------------ serialisers: compl flag = ν
def serializer_flags(prog):
    out = []
    fn = prog.find1(name="serialize_helper", self_adt="serialize::ser_bdd::BDDSerializer", unit="rsdd-lib")
    te = fn.terms
    errs = []
    n = 0
    # every pointer the helper *returns* is a freshly built Ptr{index, compl: is_neg(ptr)} (or a constant):
    # a stored / cached pointer would carry the complement flag of whichever edge reached the node first
    alts = []

    def collect(t, pb):
        if isinstance(t, tuple) and t and t[0] in ("phi", "gamma"):
            for p_, v in t[2]:
                collect(v, p_ if t[0] == "phi" else pb)
        else:
            alts.append(t)
    for b, t in te.ret_by_block.items():
        collect(t, b)
    for t in alts:
        t = strip(t)
        if t[0] == "agg" and t[3] in ("True", "False"):
            continue
        if t[0] == "agg" and t[3] == "Ptr" and "compl" in t[5]:
            n += 1
            c = strip(t[4][t[5].index("compl")])
            # the pointer parameter, wherever it sits in the signature (a `&mut self` serialiser shifts it)
            ptr_params = [("param", i_) for i_ in range(1, len(fn.locals)) if "BddPtr" in fn.locals[i_]["s"] and
                          "HashMap" not in fn.locals[i_]["s"] and "Vec" not in fn.locals[i_]["s"]] or [("param", 1)]
            if not (mir.is_call(c, "is_neg") and strip(c[2][0]) in ptr_params[:1]):
                errs.append("compl flag is %s, expected is_neg(ptr)" % show(c)[:60])
            continue
        errs.append("a returned pointer is not built for the current edge (%s): its complement flag is that of another "
                    "edge to the same node" % show(t)[:70])
    if n < 2:
        errs.append("?expected the revisit and the first-visit path to build Ptr{index, compl}")
    out.append(inst("CP", "%s:compl-flag" % fn.npath, VIOLATION if errs else OK, fn, None,
                    "; ".join(errs) if errs else "every emitted pointer carries compl = is_neg(ptr)"))
    fn = prog.find1(name="serialize_helper", self_adt="serialize::ser_sdd::SDDSerializer", unit="rsdd-lib")
    te = fn.terms
    cfg = fn.cfg
    errs = []
    n = 0
    flags = set()
    for bb, t, line in te.aggs:
        if t[3] == "Ptr" and "compl" in t[5]:
            n += 1
            flags.add(t[4][t[5].index("compl")])
    # a private helper that builds the pointer from a `compl` parameter: the flag is the argument at its call sites
    for cs in te.calls:
        if not (cs.callee.local or getattr(cs.callee, "res_local", False)):
            continue
        for h in prog.resolve(cs.callee):
            if h is fn or h.kind == "Closure" or h.terms.ret is None:
                continue
            r = strip(h.terms.ret)
            if r[0] == "agg" and r[3] == "Ptr" and "compl" in r[5]:
                f_ = strip(r[4][r[5].index("compl")])
                if f_[0] == "param" and f_[1] - 1 < len(cs.args):
                    n += 1
                    flags.add(cs.args[f_[1] - 1])
    if len(flags) > 1:
        errs.append("Ptr{index, compl} constructions do not share one compl flag (%d sites, %d flags)" % (n, len(flags)))
    elif n < 2 or not flags:
        errs.append("?expected the pointer to be built at two or more sites (table hit, new row), found %d" % n)
    else:
        c = flags.pop()
        # the flag computed by a private predicate of the pointer (`Self::is_compl(sdd)`): its body, read in its own function
        c0 = strip(c)
        if mir.is_call(c0) and (c0[1].local or getattr(c0[1], "res_local", False)) and len(c0[2]) == 1 and strip(c0[2][0]) == ("param", 1):
            hs_ = [h for h in prog.resolve(c0[1]) if h.kind != "Closure" and h.terms.ret is not None]
            if len(hs_) == 1:
                fn, te, cfg = hs_[0], hs_[0].terms, hs_[0].cfg
                c = strip(te.ret)
        # the flag is a join of constants; follow the variant edges of the match on the pointer
        if not (isinstance(c, tuple) and c[0] in ("phi", "gamma")):
            errs.append("compl flag is not computed from the pointer's variant: %s" % show(c)[:80])
        elif c[0] == "gamma":
            vm = te._discr_variants.get(strip(c[1])) or {}
            for lab, val in c[2]:
                val = strip(val)
                for nme in Eval._label_names(lab, vm):
                    if nme in NEG_VARIANTS | REG_VARIANTS and not (val[0] == "const" and (val[2] == "1") == (nme in NEG_VARIANTS)):
                        errs.append("compl(%s) = %s" % (nme, show(val)))
        else:
            join = c[1]
            alts = {p_: strip(v) for p_, v in c[2]}
            sw = [d for d, (ct, vm) in te.switch_term.items() if strip(ct) == ("discr", ("param", 1)) and vm and cfg.dominates(d, join)]
            if not sw or not all(v[0] == "const" for v in alts.values()):
                errs.append("?compl flag shape not recognised: %s" % show(c)[:80])
            else:
                d = min(sw, key=lambda x: cfg.rpo_index[x])
                vm = te.switch_term[d][1]
                tt = fn.blocks[d]["term"]
                tgt = {vm.get(v, v): b for v, b in tt["targets"]}
                for nme in vm.values():
                    tgt.setdefault(nme, tt["otherwise"])
                for nme in sorted(NEG_VARIANTS | REG_VARIANTS):
                    if nme not in tgt:
                        continue
                    reach = cfg.reachable_from(tgt[nme], avoid={join})
                    vals = {alts[p_][2] for p_ in alts if p_ in reach}
                    want = "1" if nme in NEG_VARIANTS else "0"
                    if vals != {want}:
                        errs.append("compl flag for a %s pointer can be %s (must be %s)" % (nme, sorted(vals), want == "1"))
    # every pointer the helper *returns* is built for the current edge (a Ptr{index, compl} literal, a private helper that
    # builds one from the flag it is given, or a constant / literal): a pointer read back from the visited table carries
    # the complement flag of whichever edge reached the node first
    ralts = []

    def rcollect(t):
        t0 = strip(t)
        if isinstance(t0, tuple) and t0 and t0[0] in ("phi", "gamma"):
            for _, v in t0[2]:
                rcollect(v)
        else:
            ralts.append(t0)
    for b, t in te.ret_by_block.items():
        rcollect(t)
    for t in ralts:
        u = t
        while isinstance(u, tuple) and u and u[0] in ("deref", "ref", "copy"):
            u = strip(u[1])
        while mir.is_call(u, "clone") or mir.is_call(u, "copied") or mir.is_call(u, "cloned"):
            u = strip(u[2][0])
            while isinstance(u, tuple) and u and u[0] in ("deref", "ref", "copy"):
                u = strip(u[1])
        if any(mir.is_call(x, "get") and len(x[2]) == 2 and strip(x[2][0])[0] in ("param", "mutref", "ref", "deref")
               and "HashMap" in (x[1].key() or "") for x in [u] + list(mir.subterms(u))) and not (u[0] == "agg"):
            errs.append("a returned pointer is read back from the visited table (%s): its complement flag is that of the edge that "
                        "first reached the node, not of the current one" % show(t)[:70])
    fn = prog.find1(name="serialize_helper", self_adt="serialize::ser_sdd::SDDSerializer", unit="rsdd-lib")
    out.append(inst("CP", "%s:compl-flag" % fn.npath, verdict_of(errs), fn, None,
                    errtext(errs) if errs else "every emitted pointer carries compl = complement bit of the pointer"))
    # the roots are what the helper returned for them.  An entry point that builds a root pointer itself (to box a terminal
    # root into a node, say) must take the complement bit from the helper's result: a terminal (False, a negative literal)
    # already carries its negation, and a flag derived again from the SddPtr negates it a second time
    for ent, adt_ in (("from_sdd", "serialize::ser_sdd::SDDSerializer"), ("from_bdd", "serialize::ser_bdd::BDDSerializer")):
        # the entry point, or the sibling it hands its argument to (`from_bdd(b)` = `from_bdds(&[b])`): whichever calls the helper
        es = [f for f in prog.lib_fns if f.impl_self == adt_ and f.name != "serialize_helper" and "{closure" not in f.npath and
              any(cs.callee.name == "serialize_helper" for g in [f] + [h for h in prog.lib_fns if h.npath.startswith(f.npath + "::{closure")]
                  for cs in g.terms.calls)]
        if len(es) != 1:
            out.append(inst("CP", "%s::%s:root-is-helper-result" % (adt_, ent), UNDECIDED, None, None,
                            "%d functions of the serialiser call serialize_helper" % len(es)))
            continue
        e = es[0]
        ent = e.name
        errs_r = []
        for bb, t, line in e.terms.aggs:
            if t[3] == "Ptr" and t[5] and "compl" in t[5]:
                fl = strip(t[4][t[5].index("compl")])
                from_helper = any(mir.is_call(x, "serialize_helper") for x in mir.subterms(fl))
                if fl[0] == "const" and str(fl[2]) in ("0", "false"):
                    continue
                if not from_helper:
                    errs_r.append("%s builds a root pointer with compl = %s, derived again from the diagram pointer instead of taken from "
                                  "what serialize_helper returned for the root: a root the helper serialises as a terminal (False, a "
                                  "negative literal) already carries its negation and is negated a second time" % (ent, show(fl)[:50]))
        out.append(inst("CP", "%s:root-is-helper-result" % e.npath, verdict_of(errs_r), e, None,
                        errtext(errs_r) if errs_r else "the root pointers are the helper's results (no complement bit derived again)"))
    return out
