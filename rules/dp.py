"""DP — dispatch-table agreement.

A `match` that translates one enumeration into operations of another must map each variant
to its namesake with children in order.  Each table row gives, for a variant of the scrutinee,
the expected result as a term pattern over that variant's fields.  The function's return value
is reconstructed as a gated term  γ(discr(scrutinee); variant -> value)  and every arm is
compared with its row.  Exhaustiveness is checked against the enum definition.
"""
from . import mir, tdctx, canon
from .base import Mentions, verdict_of, errtext
from .base import (inst, OK, VIOLATION, UNDECIDED, P, C, F, K, ANY, Agg, AggV, VF, T, match, strip,
                   gamma_arms, bool_arms, callee_is)
from .facts import CheckerError
from .mir import show

BB = "builder::BottomUpBuilder"


class REC:
    """pattern: recursive call of the function under analysis with (…fixed args…, sub)"""
    def __init__(self, sub, pos=-1):
        self.sub = sub


def _rec(fnname, self_first, sub, trailing=()):
    args = ([P(1)] if self_first else []) + [sub] + list(trailing)
    return C(fnname, *args)


def table_compile_logical_expr():
    R = lambda f: _rec("compile_logical_expr", True, VF(2, f[0], f[1]))
    return {
        "Literal": C(BB + "::var", P(1), C("VarLabel::new", VF(2, "Literal", 0)), VF(2, "Literal", 1)),
        "Not": C(BB + "::negate", P(1), R(("Not", 0))),
        "And": C(BB + "::and", P(1), R(("And", 0)), R(("And", 1)), comm=True),
        "Or": C(BB + "::or", P(1), R(("Or", 0)), R(("Or", 1)), comm=True),
        "Iff": C(BB + "::iff", P(1), R(("Iff", 0)), R(("Iff", 1)), comm=True),
        "Xor": C(BB + "::xor", P(1), R(("Xor", 0)), R(("Xor", 1)), comm=True),
        "Ite": C(BB + "::ite", P(1), R(("Ite", "guard")), R(("Ite", "thn")), R(("Ite", "els"))),
    }


def table_compile_plan():
    R = lambda f: _rec("compile_plan", True, VF(2, f[0], f[1]))
    return {
        "And": C(BB + "::and", P(1), R(("And", 0)), R(("And", 1)), comm=True),
        "Or": C(BB + "::or", P(1), R(("Or", 0)), R(("Or", 1)), comm=True),
        "Iff": C(BB + "::iff", P(1), R(("Iff", 0)), R(("Iff", 1)), comm=True),
        "Ite": C(BB + "::ite", P(1), R(("Ite", 0)), R(("Ite", 1)), R(("Ite", 2))),
        "Not": C(BB + "::negate", P(1), R(("Not", 0))),
        "ConstTrue": C(BB + "::true_ptr", P(1)),
        "ConstFalse": C(BB + "::false_ptr", P(1)),
        "Literal": C(BB + "::var", P(1), VF(2, "Literal", 0), VF(2, "Literal", 1)),
    }


def table_from_sexpr(w="helper"):
    R = lambda v, i: C(w, VF(1, v, i), P(2))
    # the label is looked up for the variable's own name in the mapping the worker was given (any spelling of the lookup)
    lit = lambda inner, pol: AggV("Literal", Mentions(inner, P(2)), K(pol))
    return {
        "Var": lit(VF(1, "Var", 0), 1),
        "Or": AggV("Or", R("Or", 0), R("Or", 1)),
        "And": AggV("And", R("And", 0), R("And", 1)),
        "Iff": AggV("Iff", R("Iff", 0), R("Iff", 1)),
        "Xor": AggV("Xor", R("Xor", 0), R("Xor", 1)),
        "Ite": AggV("Ite", R("Ite", 0), R("Ite", 1), R("Ite", 2)),
        # Not is checked separately (nested match)
    }


def table_ser_vtree(w="helper"):
    return {
        "Leaf": AggV("Leaf", C("value_usize", VF(1, "Leaf", 0))),
        "Node": AggV("Node", C(w, VF(1, "Node", 1)), C(w, VF(1, "Node", 2))),
    }


PLAN_CTORS = {
    "and": AggV("And", P(1), P(2)), "or": AggV("Or", P(1), P(2)), "iff": AggV("Iff", P(1), P(2)),
    "ite": AggV("Ite", P(1), P(2), P(3)), "not": AggV("Not", P(1)), "literal": AggV("Literal", P(1), P(2)),
}


def check_table(rule, fn, te, ret, table, enum_variants, diverging=(), extra_strip=("new",), elsewhere=()):
    """`elsewhere`: variants checked by a dedicated sub-rule rather than by a table row"""
    out = []
    arms = gamma_arms(te, ret)
    if arms is None:
        return [inst(rule, "%s:match" % fn.npath, UNDECIDED, fn, None,
                     "return value is not a match on the scrutinee: %s" % show(ret)[:200])]
    for v in enum_variants:
        key = "%s:%s" % (fn.npath, v)
        if v in diverging:
            if v in arms:
                out.append(inst(rule, key, UNDECIDED, fn, None, "variant documented as unsupported now returns a value"))
            continue
        if v not in table:
            if v not in elsewhere:
                # a variant the table has no row for (added after the table was written): say so instead of passing
                # over it silently
                out.append(inst(rule, key, UNDECIDED, fn, None, "variant %s has no row in this rule's table: its arm is not checked" % v))
            continue
        if v not in arms:
            # may be folded into a 'rest' arm
            rest = [k for k in arms if isinstance(k, tuple) and k[0] == "rest" and v in k[1]]
            if rest:
                t = arms[rest[0]]
            else:
                out.append(inst(rule, key, VIOLATION, fn, None,
                                "variant %s has no arm that returns a value (diverges or falls through)" % v))
                continue
        else:
            t = arms[v]
        err = match(table[v], t, extra_strip)
        if err and mir.CURRENT is not None:
            # the arm may build its result through a private helper that is handed the constructor as a function item
            t2 = canon.apply_fn_items(mir.CURRENT, te, t)
            if t2 is not t:
                t2 = _inline_plain_helpers(mir.CURRENT, te, t2)
                err = match(table[v], t2, extra_strip)
        out.append(inst(rule, key, VIOLATION if err else OK, fn, None,
                        ("%s arm: %s" % (v, err)) if err else "%s ↦ %r" % (v, table[v])))
    return out


def _inline_plain_helpers(prog, te, t, depth=3):
    """operands wrapped by small private helpers (`boxed(x, m)` = Box::new(helper(x, m))): the helper bodies in place"""
    if not isinstance(t, tuple) or not t or depth <= 0:
        return t
    if t[0] == "call":
        args = tuple(_inline_plain_helpers(prog, te, a, depth) for a in t[2])
        t = ("call", t[1], args) + tuple(t[3:])
        if t[1].local or getattr(t[1], "res_local", False):
            u = canon.inline_top(prog, te, t, ok=lambda h: h is not te.fn, depth=1)
            if u is not t and strip(u) != strip(t):
                return _inline_plain_helpers(prog, te, u, depth - 1)
        return t
    if t[0] == "agg":
        return t[:4] + (tuple(_inline_plain_helpers(prog, te, a, depth) for a in t[4]),) + tuple(t[5:])
    return t


def variants_of(prog, adt_suffix):
    for p, a in prog.adts.items():
        if p.endswith(adt_suffix):
            return [v["name"] for v in a["variants"]]
    raise CheckerError("enum %s not found" % adt_suffix)


def run(prog):
    out = []
    # 1/2: trait default compilers
    for name, table, enum in (("compile_logical_expr", table_compile_logical_expr(), "logical_expr::LogicalExpr"),
                              ("compile_plan", table_compile_plan(), "bottom_up_plan::BottomUpPlan")):
        fn = prog.find1(name=name, in_trait=BB, unit="rsdd-lib")
        out += check_table("DP", fn, fn.terms, fn.terms.ret, table, variants_of(prog, enum), extra_strip=())
    # plan constructors build their namesake variant
    for nm, pat in PLAN_CTORS.items():
        fn = prog.find1(name=nm, self_adt="plan::bottom_up_plan::BottomUpPlan", unit="rsdd-lib")
        err = match(pat, fn.terms.ret, ("new",))
        out.append(inst("DP", "%s:ctor" % fn.npath, VIOLATION if err else OK, fn, None,
                        err or "builds %r" % pat))
    out += from_dtree(prog)
    out += from_sexpr(prog)
    # vtree mirror
    fn = _worker(prog, "from_vtree", "VTreeSerializer")
    out += check_table("DP", fn, fn.terms, fn.terms.ret, table_ser_vtree(fn.name), ["Leaf", "Node"])
    out += wmc_homomorphism(prog)
    out += evaluate_encoding(prog)
    out += topdown_unsat(prog)
    out += dimacs_sign(prog)
    out += string_sign(prog)
    return out


def from_dtree(prog):
    fn = prog.find1(name="from_dtree", self_adt="plan::bottom_up_plan::BottomUpPlan", unit="rsdd-lib")
    te = fn.terms
    out = []
    arms = gamma_arms(te, te.ret)
    key = fn.npath
    if not arms or "Node" not in arms or "Leaf" not in arms:
        return [inst("DP", key + ":match", UNDECIDED, fn, None, "not a match on the dtree")]
    rec = lambda f: C("from_dtree", VF(1, "Node", f))
    err = match(C("BottomUpPlan::and", rec("l"), rec("r"), comm=True), arms["Node"])
    out.append(inst("DP", key + ":Node", VIOLATION if err else OK, fn, None, err or "Node ↦ and(from_dtree(l), from_dtree(r))"))
    # Leaf: is_empty -> ConstFalse ; len == 1 -> literal(c[0]) ; else fold or
    leaf = arms["Leaf"]
    clause = VF(1, "Leaf", "clause")
    lit0 = C("BottomUpPlan::literal", C("label", C("index", clause, K(0))), C("polarity", C("index", clause, K(0))))
    ba = bool_arms(leaf)
    ok_empty = ok_unit = ok_fold = "?shape not recognised"
    # second skeleton: match clause.split_first() { None => ConstFalse, Some((first, rest)) => loop-folded `or` }
    lf = strip(leaf)
    if lf[0] == "gamma" and show(strip(lf[1])).startswith("discr(split_first(") and "clause" in show(lf[1]):
        arms2 = {lab: strip(v) for lab, v in lf[2]}
        none_arm, some_arm = arms2.get("0"), arms2.get("1")
        ok_empty = match(AggV("ConstFalse"), none_arm) if none_arm is not None else "?no arm for the empty clause"
        ok_unit = ok_fold = "?loop form not recognised"
        if some_arm is not None and some_arm[0] == "mu":
            init = strip(te.mu_init.get((some_arm[1], some_arm[2]), ("top",)))
            ups = te.mu_update.get((some_arm[1], some_arm[2]), [])

            def is_lit_of(t, src_pred):
                t = strip(t)
                if not (mir.is_call(t, "literal") and len(t[2]) == 2):
                    return False
                a, b = strip(t[2][0]), strip(t[2][1])
                return mir.is_call(a, "label") and mir.is_call(b, "polarity") and strip(a[2][0]) == strip(b[2][0]) and src_pred(show(strip(a[2][0])))
            ok_unit = None if is_lit_of(init, lambda s_: "split_first" in s_ and s_.endswith(".0.0")) else \
                "the accumulator starts as %s, not as the literal of the first element" % show(init)[:80]
            ok_fold = None
            if len(ups) != 1:
                ok_fold = "?accumulator update not recognised"
            else:
                u = strip(ups[0])
                if not (mir.is_call(u, "or") and any(strip(x) == some_arm for x in u[2]) and
                        any(is_lit_of(x, lambda s_: "next(" in s_) for x in u[2])):
                    ok_fold = "the accumulator is updated by %s, not by or(acc, literal(label(l), polarity(l)))" % show(u)[:90]
    elif ba and match(C("is_empty", clause), ba[0]) is None:
        ok_empty = match(AggV("ConstFalse"), ba[2])
        inner = bool_arms(ba[1])
        if inner:
            cond = inner[0]
            is_len1 = (isinstance(cond, tuple) and cond[0] == "bin" and cond[1] == "Eq"
                       and match(C("len", clause), cond[2]) is None and match(K(1), cond[3]) is None)
            if not is_len1 and isinstance(cond, tuple) and cond[0] == "bin" and cond[1] == "Eq" and "len(" in show(cond):
                ok_unit = ok_fold = "the unit-clause case tests %s, not the number of literals of the clause" % show(cond)[:60]
            if is_len1:
                ok_unit = match(lit0, inner[2])
                ok_fold = match(C("fold", C("skip", clause, K(1)), lit0, ANY()), inner[1])
                kids = [k for k in prog.children(fn)]
                if ok_fold is None:
                    if len(kids) != 1:
                        ok_fold = "expected one fold closure"
                    else:
                        ok_fold = match(C("BottomUpPlan::or", P(2),
                                          C("BottomUpPlan::literal", C("label", P(3)), C("polarity", P(3))),
                                          comm=True), kids[0].terms.ret)
    def v_(e):
        return OK if not e else (UNDECIDED if str(e).startswith("?") else VIOLATION)
    out.append(inst("DP", key + ":Leaf-empty", v_(ok_empty), fn, None,
                    (ok_empty or "").lstrip("?") or "empty clause ↦ ConstFalse"))
    out.append(inst("DP", key + ":Leaf-unit", v_(ok_unit), fn, None,
                    (ok_unit or "").lstrip("?") or "unit clause ↦ literal(label, polarity) of its literal"))
    out.append(inst("DP", key + ":Leaf-fold", v_(ok_fold), fn, None,
                    (ok_fold or "").lstrip("?") or "clause ↦ fold of `or` over literal(label, polarity), seeded with the first literal"))
    return out


def _worker(prog, entry, owner):
    """the self-recursive function that does the work of `owner::entry`: a nested fn, or a private associated function
    the entry point hands its argument to — whatever it is called"""
    es = [f for f in prog.lib_fns if f.name == entry and owner in f.npath and "{closure" not in f.npath and
          not f.npath.split("::" + entry)[1]]
    if len(es) != 1:
        raise CheckerError("anchor %s::%s matched %d functions" % (owner, entry, len(es)))
    e = prog.default_args_worker(es[0])       # `from_sexpr(s)` as the default path of `from_sexpr_with_mapping(s, &s.variable_mapping())`
    if e is not es[0]:
        # the entry point's default path *is* the recursive worker (`from_sexpr(s)` = `from_sexpr_with(s, &s.variable_mapping())`)
        bodies_e = [e] + [g for g in prog.lib_fns if g.npath.startswith(e.npath + "::{closure")]
        if any(e in prog.resolve(cs.callee) for g in bodies_e for cs in g.terms.calls
               if cs.callee.name == e.name and (cs.callee.local or getattr(cs.callee, "res_local", False))):
            return e
    cands = []
    for f in prog.lib_fns:
        if f is e or "{closure" in f.npath:
            continue
        nested = f.npath.startswith(e.npath + "::")
        called = any(f in prog.resolve(cs.callee) for cs in e.terms.calls if cs.callee.local or getattr(cs.callee, "res_local", False))
        bodies = [f] + [g for g in prog.lib_fns if g.npath.startswith(f.npath + "::{closure")]
        def _calls(g_):
            return [h for b_ in [g_] + [c_ for c_ in prog.lib_fns if c_.npath.startswith(g_.npath + "::{closure")]
                    for cs in b_.terms.calls if cs.callee.local or getattr(cs.callee, "res_local", False)
                    for h in prog.resolve(cs.callee) if "{closure" not in h.npath]
        direct = any(f in prog.resolve(cs.callee) for g in bodies for cs in g.terms.calls
                     if cs.callee.name == f.name and (cs.callee.local or getattr(cs.callee, "res_local", False)))
        # ... or through a sibling nested in the same entry point (`helper` -> `binary` -> `helper`)
        via = (nested or called) and not direct and any(
            h is not f and h.npath.startswith(e.npath + "::") and f in _calls(h) for h in _calls(f))
        if (nested or called) and (direct or via):
            cands.append(f)
    if len(cands) > 1:
        # several recursive helpers (the entry may also call a recursive query such as `unique_variables`): the worker is
        # the one whose result type is the entry point's own
        same = [f for f in cands if f.locals and e.locals and f.locals[0]["s"] == e.locals[0]["s"]]
        if len(same) == 1:
            cands = same
    if len(cands) != 1:
        raise CheckerError("anchor lookup: the recursive worker of %s::%s matched %d functions: %s"
                           % (owner, entry, len(cands), [c.npath for c in cands][:4]))
    return cands[0]


def from_sexpr(prog):
    fn = _worker(prog, "from_sexpr", "LogicalExpr")
    te = fn.terms
    variants = variants_of(prog, "ser_logical_expr::LogicalSExpr")
    W = fn.name
    out = check_table("DP", fn, te, te.ret, table_from_sexpr(W), variants, diverging=("True", "False"), elsewhere=("Not",))
    arms = gamma_arms(te, te.ret) or {}
    key = fn.npath + ":Not"
    n = arms.get("Not")
    err = "Not arm missing"
    if n is not None:
        inner = gamma_arms(te, n)
        if inner and "Var" in inner:
            # Not(Var s) ↦ Literal(map[s], false); otherwise Not(helper(inner))
            v = inner["Var"]
            e1 = None
            if not (isinstance(strip(v), tuple) and strip(v)[0] == "agg"):
                v = canon.inline_top(prog, te, v)      # the literal may be built by a private helper
            if not (isinstance(strip(v), tuple) and strip(v)[0] == "agg"):
                from .base import expand               # ... or by a local closure shared with the Var arm
                for _ in range(3):
                    e_ = expand(v)
                    if e_ is None:
                        break
                    v = strip(e_)
                    if v[0] == "agg":
                        break
                if not (isinstance(v, tuple) and v and v[0] == "agg"):
                    e1 = "?Not(Var) is built by %s, which is not read here" % show(v)[:50]
            ok = (isinstance(v, tuple) and v[0] == "agg" and v[3] == "Literal" and len(v[4]) == 2
                  and match(K(0), v[4][1]) is None)
            if not ok and e1 is None:
                e1 = "Not(Var) must become a negative literal, found %s" % show(v)
            else:
                idx = strip(v[4][0])
                name = ("field", ("as", ("field", ("as", ("param", 1), "Not"), "0"), "Var"), "0")
                inside = [show(u) for u in [idx] + list(mir.subterms(idx))]
                if not (any("as Var).0" in u and "as Not)" in u for u in inside) and "arg2" in show(idx)):
                    e1 = "the label of Not(Var s) is not looked up for s in the mapping: %s" % show(idx)
            rest = [inner[k] for k in inner if isinstance(k, tuple) and k[0] == "rest"]
            e2 = None
            if not rest:
                e2 = "no general Not arm"
            else:
                e2 = match(AggV("Not", C(W, VF(1, "Not", 0), P(2))), rest[0], ("new",))
            # any further special case of the operand must still denote the negation of the operand
            for k, t in inner.items():
                if k == "Var" or (isinstance(k, tuple) and k[0] == "rest"):
                    continue
                e3 = match(AggV("Not", C(W, VF(1, "Not", 0), P(2))), t, ("new",))
                if e3 and k == "Not" and _is_double_neg_shortcut(t, W):
                    e3 = None  # Not(Not e) ↦ helper(e) is the one sound shortcut
                if e3:
                    e2 = e2 or ("Not(%s ..) arm: %s" % (k, e3))
            err = e1 or e2
        else:
            err = match(AggV("Not", C(W, VF(1, "Not", 0), P(2))), n, ("new",))
    out.append(inst("DP", key, VIOLATION if err else OK, fn, None,
                    err or "Not(Var s) ↦ Literal(map[s], false); Not(e) ↦ Not(helper(e))"))
    out += _numbering_source(prog, fn)
    return out


def _numbering_source(prog, worker):
    """The table the worker looks names up in is the documented numbering: the entry point hands it
    `sexpr.variable_mapping()` (or a numbering it derives from `unique_variables()`, which MP compares with
    variable_mapping's, or its own caller's table).  A table that starts empty and is filled as names are met numbers the
    variables by first mention: the formula is then compiled with other labels than the ones weights and configured
    orders are attached through."""
    es = [f for f in prog.lib_fns if f.name == "from_sexpr" and "LogicalExpr" in f.npath and "{closure" not in f.npath and
          not f.npath.split("::from_sexpr")[1]]
    if len(es) != 1:
        return []
    e = prog.default_args_worker(es[0])
    key = es[0].npath + ":labels-from-variable-mapping"
    if e is worker and es[0] is not worker:
        e = es[0]               # the entry point forwards to the worker directly
    sites = [cs for cs in e.terms.calls if (cs.callee.local or getattr(cs.callee, "res_local", False)) and worker in prog.resolve(cs.callee)]
    if e is worker:
        return [inst("DP", key, UNDECIDED, e, None, "?the entry point is its own worker")]
    if not sites:
        return [inst("DP", key, UNDECIDED, e, None, "?the entry point does not call the worker %s directly" % worker.name)]
    errs, und, ok = [], [], []
    for cs in sites:
        for a in cs.args:
            a0 = mir.strip_refs(a)
            if a0 == ("param", 1):
                continue
            if isinstance(a0, tuple) and a0 and a0[0] == "mutref" and isinstance(a0[1], int):
                v_ = e.terms.state_in.get(cs.bb, {}).get(a0[1])
                if v_ is not None:
                    a0 = mir.strip_refs(strip(v_))
            subs = [a0] + list(mir.subterms(a0)) if isinstance(a0, tuple) else []
            if any(mir.is_call(x) and x[1].name in ("variable_mapping", "unique_variables") for x in subs):
                ok.append("the worker is handed %s" % show(a0)[:60])
            elif any(isinstance(x, tuple) and x and x[0] == "param" and x[1] >= 2 for x in subs):
                ok.append("the worker is handed the entry point's own table")
            elif mir.is_call(a0) and a0[1].name in ("new", "default", "with_capacity", "with_hasher", "with_capacity_and_hasher") and \
                    any(k in a0[1].key() for k in ("HashMap", "BTreeMap", "Vec", "IndexMap")):
                errs.append("from_sexpr hands its worker a table that starts empty (%s): the names are numbered as the worker meets "
                            "them, not in the documented (lexicographic) numbering that variable_mapping(), the weights file and "
                            "a configured order use" % show(a0)[:40])
            else:
                und.append("?the table handed to the worker is %s" % show(a0)[:60])
    if not (errs or und or ok):
        und.append("?the worker takes no table")
    return [inst("DP", key, VIOLATION if errs else (UNDECIDED if und else OK), e, sites[0].line,
                 (errs or und or ok)[0])]


def _is_double_neg_shortcut(t, w="helper"):
    """helper(<operand of the inner Not>, mapping)"""
    t = strip(t)
    if not mir.is_call(t, w) or len(t[2]) != 2:
        return False
    a = strip(t[2][0])
    chain = []
    while isinstance(a, tuple) and a:
        if a[0] == "field" and isinstance(a[1], tuple) and a[1][0] == "as":
            chain.append((a[1][2], a[2]))
            a = strip(a[1][1])
        elif a[0] in ("deref", "ref"):
            a = strip(a[1])
        elif a[0] == "call" and a[1].name in ("as_ref", "deref", "borrow") and a[2]:
            a = strip(a[2][0])
        else:
            break
    return a == ("param", 1) and chain == [("Not", "0"), ("Not", "0")]


def wmc_homomorphism(prog):
    fn = prog.find1(name="unsmoothed_wmc", in_trait="repr::ddnnf::DDNNFPtr", unit="rsdd-lib")
    out = []
    err = match(C("DDNNFPtr::fold", P(1), ANY()), fn.terms.ret)
    out.append(inst("DP", fn.npath + ":fold", VIOLATION if err else OK, fn, None, err or "count = fold(self, algebra)"))
    kids = prog.children(fn)
    if len(kids) != 1:
        raise CheckerError("unsmoothed_wmc: expected one closure")
    cl = kids[0]
    te = cl.terms
    arms = gamma_arms(te, te.ret)
    if arms is None:
        # arms that are split further (`Lit(l, true) => .., Lit(l, false) => ..`) flatten into an ungated join: rebuild the
        # per-variant result from the alternatives and their facts
        from .fd import alts as _alts, key_of as _key
        adt = prog.adts.get("repr::ddnnf::DDNNF")
        names = [v["name"] for v in adt["variants"]] if adt else []
        groups = {}
        for leaf, facts in _alts(te, te.ret):
            vi, sub = None, None
            for c, v in facts:
                if _key(c) == "discr(arg2)" and str(v).isdigit() and int(v) < len(names):
                    vi = names[int(v)]
                elif isinstance(c, tuple) and c and c[0] == "field" and "arg2 as" in _key(c) and v in ("0", "1", ("not", ("0",)), ("not", ("1",))):
                    sub = (c, "0" if v in ("0", ("not", ("1",))) else ("not", ("0",)))
            if vi is not None:
                groups.setdefault(vi, []).append((sub, leaf))
        arms = {}
        for vi, lst in groups.items():
            if len(lst) == 1:
                arms[vi] = lst[0][1]
            elif all(s_ is not None for s_, _ in lst) and len({_key(s_[0]) for s_, _ in lst}) == 1:
                arms[vi] = ("gamma", lst[0][0][0], tuple((s_[1], leaf) for s_, leaf in lst))
        if len(arms) < 3:
            return out + [inst("DP", cl.npath + ":match", UNDECIDED, cl, None, "not a match on DDNNF")]
    U = lambda v, i: VF(2, v, i)
    exp = {
        "Or": ("bin", "Add", U("Or", 0), U("Or", 1)),
        "And": ("bin", "Mul", U("And", 0), U("And", 1)),
    }
    for v, (_, op, a, b) in exp.items():
        t = arms.get(v)
        e = None
        if t is None:
            out.append(inst("DP", "%s:%s" % (cl.npath, v), UNDECIDED, cl, None, "arm for %s not recognised" % v))
            continue
        if not (isinstance(t, tuple) and t[0] == "bin" and t[1] == op):
            e = "%s must be combined with %s, found %s" % (v, op, show(t))
        else:
            e1 = match(a, t[2]) or match(b, t[3])
            e2 = match(b, t[2]) or match(a, t[3])
            e = e1 and e2 and e1
        out.append(inst("DP", "%s:%s" % (cl.npath, v), VIOLATION if e else OK, cl, None, e or "%s ↦ %s of both children" % (v, op)))
    for v, fld in (("True", "one"), ("False", "zero")):
        t = arms.get(v)
        e = None
        if t is None:
            out.append(inst("DP", "%s:%s" % (cl.npath, v), UNDECIDED, cl, None, "arm for %s not recognised" % v))
            continue
        if not (isinstance(t, tuple) and t[0] == "field" and t[2] == fld and t[1] == ("upvar", "params")):
            # also accept T::one()/T::zero()
            if not (isinstance(t, tuple) and t[0] == "call" and t[1].name == fld):
                e = "%s must map to the semiring's %s, found %s" % (v, fld, show(t))
        out.append(inst("DP", "%s:%s" % (cl.npath, v), VIOLATION if e else OK, cl, None, e or "%s ↦ %s" % (v, fld)))
    t = arms.get("Lit")
    e = None
    ba = bool_arms(t) if t is not None else None
    if not ba and t is not None and mir.is_call(strip(t)) and (strip(t)[1].local or getattr(strip(t)[1], "res_local", False)):
        # the choice may live in an accessor of the weight table (`params.lit_weight(l, p)`): read it there if its body is a
        # plain term; an accessor with state of its own (a lazily built table) is not something this rule can read
        t2 = canon.inline_top(prog, te, t)
        ba = bool_arms(t2) if t2 is not None else None
        if not ba:
            e = "?Lit arm delegates to %s, whose body is not a plain choice on the polarity" % strip(t)[1].name
    if e:
        pass
    elif not ba:
        e = "Lit arm is not a choice on the polarity: %s" % show(t)
    else:
        cond, fv, tv = ba
        if match(VF(2, "Lit", 1), cond):
            e = "Lit arm branches on %s, not on the literal's polarity" % show(cond)
        else:
            w = C("WmcParams::var_weight", T(("upvar", "params")), VF(2, "Lit", 0))
            e = match(F(w, "0"), fv) or match(F(w, "1"), tv)
            if e:
                e = "polarity=false must take the low weight (.0), true the high weight (.1): " + e
    out.append(inst("DP", "%s:Lit" % cl.npath, VIOLATION if e else OK, cl, None,
                    e or "Lit(l, p) ↦ if p {high weight} else {low weight} of l"))
    return out


def evaluate_encoding(prog):
    fn = prog.find1(name="evaluate", in_trait="repr::ddnnf::DDNNFPtr", unit="rsdd-lib")
    out = []
    err = match(F(C("DDNNFPtr::unsmoothed_wmc", P(1), ANY()), "0"), fn.terms.ret)
    out.append(inst("DP", fn.npath + ":via-count", VIOLATION if err else OK, fn, None,
                    err or "evaluate = Boolean-semiring count"))
    kids = prog.children(fn)
    if len(kids) != 1:
        # the weight table filled in a loop: `params.set_weight(VarLabel::new(index), B(!p), B(p))` for (index, p) of the
        # enumerated assignment
        sw = [cs for cs in fn.terms.calls if cs.callee.name == "set_weight" and len(cs.args) == 4]
        if len(sw) != 1:
            out.append(inst("DP", fn.npath + ":encoding", UNDECIDED, fn, None, "?the encoding of the assignment as weights was not found"))
            return out
        lab, lo, hi = (strip(a) for a in sw[0].args[1:])

        def bval(x):
            x = strip(x)
            return strip(x[4][0]) if x[0] == "agg" and str(x[2]).endswith("BooleanSemiring") and len(x[4]) == 1 else None
        l_, h_ = bval(lo), bval(hi)
        e = None
        if l_ is None or h_ is None or not mir.is_call(lab, "new"):
            e = "?set_weight(%s, %s, %s)" % (show(lab)[:30], show(lo)[:30], show(hi)[:30])
        else:
            neg_lo = l_[0] == "un" and l_[1] == "Not" and strip(l_[2]) == h_
            neg_hi = h_[0] == "un" and h_[1] == "Not" and strip(h_[2]) == l_
            item_i = [x for x in mir.subterms(lab[2][0]) if x[0] == "field" and x[2] == "0"]
            item_p = [x for x in [h_] + list(mir.subterms(h_)) if x[0] == "field" and x[2] == "1"]
            if neg_hi and not neg_lo:
                e = "a variable assigned true gets low weight true and high weight false: the count evaluates the negated assignment"
            elif not neg_lo:
                e = "?low and high weight are %s and %s" % (show(l_)[:30], show(h_)[:30])
            elif not item_i or not item_p or strip(item_i[0][1]) != strip(item_p[0][1]):
                e = "?label and value do not come from one (index, value) item"
        out.append(inst("DP", fn.npath + ":encoding", verdict_of([e] if e else []), fn, sw[0].line,
                        (e or "").lstrip("?") or "(index, b) ↦ set_weight(label index, low = ¬b, high = b)"))
        return out
    cl = kids[0]
    t = cl.terms.ret
    pol = F(P(2), "1")
    pat = Agg("tuple", C("VarLabel::new", F(P(2), "0")),
              Agg("tuple", Agg("BooleanSemiring", T(("un", "Not", ("field", ("param", 2), "1", None)))),
                  Agg("BooleanSemiring", pol)))
    e = match(pat, t)
    out.append(inst("DP", cl.npath + ":encoding", VIOLATION if e else OK, cl, None,
                    e or "(index, b) ↦ (label index, (low = ¬b, high = b))"))
    return out


def topdown_unsat(prog):
    out = []
    fn = prog.find1(name="compile_cnf_topdown", in_trait="builder::decision_nnf::builder::DecisionNNFBuilder",
                    unit="rsdd-lib")
    te = fn.terms
    # every return alternative reached when SATSolver::new(..) is None must be the false constant
    found = []

    def collect(t, pb, conds):
        if isinstance(t, tuple) and t and t[0] == "phi":
            for p_, v in t[2]:
                collect(v, p_, conds)
        elif isinstance(t, tuple) and t and t[0] == "gamma":
            vm = te._discr_variants.get(t[1]) or {}
            for lab, v in t[2]:
                names = [vm.get(lab, lab)] if isinstance(lab, str) else (
                    [n_ for k_, n_ in vm.items() if k_ not in lab[1]] if isinstance(lab, tuple) and lab and lab[0] == "not" else [])
                collect(v, pb, conds + [(t[1], names)])
        else:
            facts = list(conds)
            if isinstance(pb, int) and pb >= 0:
                for c, val, vm, d in te.facts_at(pb):
                    if vm and isinstance(val, str):
                        facts.append((c, [vm.get(val, val)]))
            for c, names in facts:
                c = strip(c)
                if c[0] == "discr" and mir.is_call(strip(c[1]), "new") and "SATSolver" in strip(c[1])[1].key() and names == ["None"]:
                    found.append(t)
    for b, t in te.ret_by_block.items():
        collect(t, b, [])
    if not found:
        # the None edge may share its return block with other early returns: follow the edge in the CFG
        cfg = fn.cfg
        for d, (c, vm) in te.switch_term.items():
            c = strip(c)
            if c[0] == "discr" and mir.is_call(strip(c[1]), "new") and "SATSolver" in strip(c[1])[1].key() and vm:
                tt = fn.blocks[d]["term"]
                tgt = None
                for v, b in tt["targets"]:
                    if vm.get(v) == "None":
                        tgt = b
                if tgt is None and "None" in vm.values():
                    tgt = tt["otherwise"]
                if tgt is None:
                    continue
                for rb, t in te.ret_by_block.items():
                    alts = dict(t[2]) if isinstance(t, tuple) and t and t[0] == "phi" else {rb: t}
                    reach = cfg.reachable_from(tgt, avoid={rb})
                    for p_, v in alts.items():
                        if p_ in reach or p_ == tgt:
                            found.append(v)
    e = None
    if not found:
        e = "?no return path for SATSolver::new == None recognised"
    else:
        for t in found:
            e = e or match(C("false_ptr"), t)
    out.append(inst("DP", fn.npath + ":initially-unsat", VIOLATION if e else OK, fn, None,
                    e or "SATSolver::new == None ↦ false_ptr"))
    # the two children of the decision node are matches on decide(..) whose UNSAT arm is false_ptr
    top, ctxs = tdctx.contexts(prog)
    if len(ctxs) < 2:
        out.append(inst("DP", "%s:UNSAT@decide" % top.npath, UNDECIDED, top, None,
                        "expected one decide per polarity in topdown_h or in a helper it calls, found %d" % len(ctxs)))
    for ctx in ctxs:
        fn, te = ctx.fn, ctx.fn.terms
        key = "%s:UNSAT@decide(%s)" % (top.npath, ctx.pol)
        seen = []
        roots = [cs.term for cs in te.calls] + [a for cs in te.calls for a in cs.args] + ([te.ret] if te.ret is not None else [])
        for t in roots:
            for x in mir.subterms(t):
                if x[0] == "gamma" and x[1] == ("discr", ctx.cs.term) and x not in seen:
                    seen.append(x)
        # values selected under UNSAT: the UNSAT arm of a match on the result, or the alternative of a join that
        # comes from a block where the result is known to be UNSAT (an early `return` from that arm)
        under = []
        for x in seen:
            arms = gamma_arms(te, x) or {}
            if "UNSAT" in arms:
                under.append(arms["UNSAT"])
            for k2, v2 in arms.items():
                if isinstance(k2, tuple) and k2[0] == "rest" and "UNSAT" in k2[1]:
                    under.append(v2)
        for t in roots:
            for x in mir.subterms(t):
                if x[0] != "phi":
                    continue
                for pb, alt in x[2]:
                    pbn = int(str(pb).replace("bb", "")) if not isinstance(pb, int) else pb
                    if any(c == ("discr", ctx.cs.term) and vm and vm.get(v) == "UNSAT" for c, v, vm, _ in te.facts_at(pbn)):
                        if alt not in under:
                            under.append(alt)
        if not under:
            out.append(inst("DP", key, UNDECIDED, fn, ctx.cs.line, "no value is selected by the UNSAT result of this decide"))
            continue
        e = None
        for u in under:
            e = e or match(C("false_ptr"), u)
        out.append(inst("DP", key, VIOLATION if e else OK, fn, ctx.cs.line, e or "DecisionResult::UNSAT ↦ false_ptr"))
    return out


def string_sign(prog):
    """`Cnf::from_string` ("(-1 || 0 || 2) && (1)"): a literal is written as a signed *label* (no offset: label = |n|), so
    it is negative exactly when the number is negative — a strict comparison with zero, because 0 names variable 0."""
    fs_ = [f for f in prog.lib_fns if f.name == "from_string" and f.impl_self == "repr::cnf::Cnf" and f.kind != "Closure"]
    if len(fs_) != 1:
        return [inst("DP", "repr::cnf::Cnf::from_string:sign", UNDECIDED, None, None, "from_string not found")]
    fn = fs_[0]
    errs, n = [], 0
    for g in canon.local_bodies(prog, fn):
        for cs in g.terms.calls:
            if not (cs.callee.name == "new" and "Literal" in cs.callee.key() and len(cs.args) == 2):
                continue
            n += 1
            lab, pol = strip(cs.args[0]), strip(cs.args[1])
            num = None
            for x in mir.subterms(lab):
                x = strip(x)
                if mir.is_call(x, "abs") or mir.is_call(x, "unsigned_abs"):
                    num = strip(x[2][0])
            if num is None:
                errs.append("?the label is %s, not |n| of the parsed number" % show(lab)[:50])
                continue
            if any(strip(x)[0] == "bin" and strip(x)[1].startswith(("Sub", "Add")) for x in mir.subterms(lab)):
                errs.append("?the label is offset (%s): the sign convention of an offset format is not checked here" % show(lab)[:50])
                continue
            neg = False
            p = pol
            while p[0] == "un" and p[1] == "Not":
                neg = not neg
                p = strip(p[2])
            if not (p[0] == "bin" and p[1] in ("Lt", "Le", "Gt", "Ge") and (strip(p[2]) == num or strip(p[3]) == num)):
                errs.append("?the polarity is %s" % show(pol)[:50])
                continue
            op = p[1]
            zero_side = strip(p[3]) if strip(p[2]) == num else strip(p[2])
            if not (zero_side[0] == "const" and zero_side[2] == "0"):
                errs.append("?the polarity compares the number with %s" % show(zero_side)[:20])
                continue
            if strip(p[2]) != num:
                op = {"Lt": "Gt", "Gt": "Lt", "Le": "Ge", "Ge": "Le"}[op]
            if neg:
                op = {"Lt": "Ge", "Ge": "Lt", "Le": "Gt", "Gt": "Le"}[op]
            # op now reads: polarity = (n op 0)
            if op == "Ge":
                pass
            elif op == "Gt":
                errs.append("the literal is positive only for n > 0: `0`, which names variable 0 (label = |n|, no offset), is read "
                            "as the *negative* literal of variable 0, and its positive literal cannot be written at all")
            else:
                errs.append("the literal is positive for n %s 0: the sign convention is inverted" % {"Lt": "<", "Le": "<="}[op])
    if not n:
        errs.append("?no literal is built in from_string")
    return [inst("DP", "%s:sign" % fn.npath, verdict_of(errs), fn, None, errtext(errs) if errs else
                 "literal(|n|, n >= 0): negative exactly for negative numbers")]


def dimacs_sign(prog):
    out = []
    for self_adt in ("repr::cnf::Cnf", "repr::logical_expr::LogicalExpr"):
        fn = prog.find1(name="from_dimacs", self_adt=self_adt, unit="rsdd-lib")
        te = fn.terms
        found = []
        for g in canon.local_bodies(prog, fn):
            gt = g.terms
            allterms = [cs.term for cs in gt.calls] + [a for cs in gt.calls for a in cs.args] + \
                       [t for _, t, _ in gt.aggs] + ([gt.ret] if gt.ret is not None else [])
            for t in allterms:
                for x in mir.subterms(t):
                    if x[0] == "gamma" and x[1][0] == "discr" and mir.is_call(x[1][1], "sign"):
                        found.append((gt, x))
        if not found:
            # the polarity as a comparison with one of the two signs (`l.sign() != Sign::Neg`, `sign == Sign::Pos`), or
            # computed by a shared helper (`lit_polarity(l)`) whose body is the match / comparison
            cmp_ = None
            bodies = list(canon.local_bodies(prog, fn))
            for g in list(bodies):
                for cs in g.terms.calls:
                    if cs.callee.local and len(cs.args) == 1 and cs.callee.name not in ("from_dimacs",):
                        for h in prog.resolve(cs.callee):
                            if h not in bodies and h.terms.ret is not None and "sign(" in show(h.terms.ret):
                                bodies.append(h)
            for g in bodies:
                gt = g.terms
                allterms = [cs.term for cs in gt.calls] + [a for cs in gt.calls for a in cs.args] + \
                           [t for _, t, _ in gt.aggs] + ([gt.ret] if gt.ret is not None else [])
                for t in allterms:
                    for x in [t] + list(mir.subterms(t)):
                        if isinstance(x, tuple) and x and x[0] == "gamma" and x[1][0] == "discr" and mir.is_call(x[1][1], "sign"):
                            found.append((gt, x))
                        l = r = op = None
                        if isinstance(x, tuple) and x and x[0] == "bin" and x[1] in ("Eq", "Ne"):
                            l, r, op = strip(x[2]), strip(x[3]), x[1]
                        elif mir.is_call(x) and x[1].name in ("eq", "ne") and len(x[2]) == 2:
                            l, r, op = strip(x[2][0]), strip(x[2][1]), "Eq" if x[1].name == "eq" else "Ne"
                        if op:
                            if r[0] != "const":
                                l, r = r, l
                            if r[0] == "const" and mir.is_call(l, "sign") and isinstance(r[2], str) and r[2].endswith(("Sign::Neg", "Sign::Pos")):
                                cmp_ = (op, r[2].rsplit("::", 1)[1])
            if not found and cmp_:
                op, which = cmp_
                pos_true = (which == "Pos") == (op == "Eq")
                out.append(inst("DP", fn.npath + ":sign", OK if pos_true else VIOLATION, fn, None,
                                "polarity = (sign %s Sign::%s): Neg ↦ false, Pos ↦ true" % ("==" if op == "Eq" else "!=", which) if pos_true else
                                "the polarity is (sign %s Sign::%s): Sign::Neg maps to true and Sign::Pos to false" % ("==" if op == "Eq" else "!=", which)))
                continue
        if not found:
            out.append(inst("DP", fn.npath + ":sign", UNDECIDED, fn, None, "no match on the literal's sign found"))
            continue
        gt, x = found[0]
        arms = gamma_arms(gt, x) or {}

        def arm_of(v):
            if v in arms:
                return arms[v]
            for k_ in arms:                      # `matches!(sign, Sign::Pos)`: one named arm and a catch-all
                if isinstance(k_, tuple) and k_ and k_[0] == "rest" and (len(k_) < 2 or v in k_[1]):
                    return arms[k_]
            return None
        an, ap = arm_of("Neg"), arm_of("Pos")
        e = None
        if an is None or ap is None:
            out.append(inst("DP", fn.npath + ":sign", UNDECIDED, fn, None, "? the match on the literal's sign has no arm for Neg or for Pos: %s" % show(x)[:80]))
            continue
        if not (match(K(0), an) is None and match(K(1), ap) is None):
            e = "Sign::Neg must map to false and Sign::Pos to true, found %s" % show(x)
        out.append(inst("DP", fn.npath + ":sign", VIOLATION if e else OK, fn, None, e or "Neg ↦ false, Pos ↦ true"))
    # the printer is the inverse of the parser: a negative literal gets the minus sign, the number is label + 1
    fn = prog.find1(name="to_dimacs", self_adt="repr::cnf::Cnf", unit="rsdd-lib")
    signs, nums = [], []
    for cs in [c for g in canon.local_bodies(prog, fn) for c in g.terms.calls]:
        for a in cs.args:
            for x in mir.subterms(a):
                if x[0] == "gamma" and mir.is_call(strip(x[1]), "polarity") and all(strip(v)[0] == "const" and strip(v)[1] == "&str" for _, v in x[2]):
                    signs.append(x)
                if x[0] == "bin" and x[1] in ("Add", "AddWithOverflow", "Sub", "SubWithOverflow") and "label(" in show(x[2]) and strip(x[3])[0] == "const":
                    nums.append(x)
    errs = []
    if not signs:
        errs.append("?no sign text chosen by the literal's polarity")
    else:
        arms = {("F" if lab == "0" else "T"): strip(v)[2].strip('"') for lab, v in signs[0][2]}
        if arms.get("F") != "-" or arms.get("T", "") not in ("", "+"):
            errs.append("a negative literal is printed with sign %r and a positive one with %r" % (arms.get("F"), arms.get("T")))
    if not nums:
        errs.append("the printed number is not label + 1")
    elif not (nums[0][1].startswith("Add") and strip(nums[0][3])[2] == "1"):
        errs.append("the printed number is %s, expected label + 1 (DIMACS variables start at 1)" % show(nums[0])[:50])
    out.append(inst("DP", fn.npath + ":sign-and-number", VIOLATION if errs else OK, fn, None,
                    "; ".join(errs) if errs else "prints '-' for a negative literal and label + 1"))
    return out
