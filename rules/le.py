"""LE — LogicalExpr::eval gives every connective its truth table.

`eval` is the library's own semantics of formulas (the brute-force side of every comparison, and what "the formula the
text denotes" means for the parsers).  Each arm of its match is interpreted over all Boolean values of the
sub-formula evaluations (and of the looked-up variable / stored polarity for literals) and compared with the
connective named by the variant: Literal(x,p) ↦ x==p, Not ↦ ¬, And ↦ ∧, Or ↦ ∨, Iff ↦ =, Xor ↦ ≠, Ite ↦ g?t:e.
"""
import itertools
from . import mir, canon
from .base import inst, OK, VIOLATION, UNDECIDED, strip
from .facts import CheckerError
from .mir import show

SPEC = {
    "Not": (1, lambda a: not a), "And": (2, lambda a, b: a and b), "Or": (2, lambda a, b: a or b),
    "Iff": (2, lambda a, b: a == b), "Xor": (2, lambda a, b: a != b), "Ite": (3, lambda g, t, e: t if g else e),
}
ITE_FIELDS = {"guard": 0, "thn": 1, "els": 2}


class Und(Exception):
    pass


def run(prog):
    fn = prog.find1(name="eval", self_adt="repr::logical_expr::LogicalExpr", unit="rsdd-lib")
    te = fn.terms
    r = strip(te.ret)
    a = prog.adts.get("repr::logical_expr::LogicalExpr")
    vnames = [v["name"] for v in a["variants"]]
    if r[0] != "gamma" or show(strip(r[1])) != "discr(arg1)":
        raise CheckerError("LE: eval is not a match on the expression")

    def ev(t, env):
        t = strip(t)
        k = t[0]
        if k in ("call", "field"):
            # a pair of sub-evaluations produced by a local closure (`let both = |a, b| (a.eval(v), b.eval(v))`)
            t2 = canon.project(canon.beta(prog, t))
            if t2 != t:
                t = strip(t2)
                k = t[0]
        if k == "const":
            return bool(int(t[2]))
        if k == "un" and t[1] == "Not":
            return not ev(t[2], env)
        if k == "bin" and t[1] in ("Eq", "Ne", "BitAnd", "BitOr", "BitXor"):
            x, y = ev(t[2], env), ev(t[3], env)
            return {"Eq": x == y, "Ne": x != y, "BitAnd": x and y, "BitOr": x or y, "BitXor": x != y}[t[1]]
        if k == "call" and t[1].name == "eval":
            for x in mir.subterms(t[2][0]):
                if x[0] == "field" and isinstance(x[1], tuple) and x[1][0] == "as" and strip(x[1][1]) == ("param", 1):
                    f = x[2]
                    i = ITE_FIELDS.get(f, int(f) if f.isdigit() else None)
                    if i is None:
                        raise Und("field %s" % f)
                    return env["sub"][i]
            raise Und("eval of %s" % show(t[2][0])[:40])
        if k == "field" and t[2] == "0" and isinstance(t[1], tuple) and t[1][0] == "as" and "get(" in show(t):
            return env["var"]          # the looked-up value of the literal's variable
        if k == "field" and t[2] == "1" and isinstance(t[1], tuple) and t[1][0] == "as" and t[1][2] == "Literal":
            return env["pol"]
        if k == "deref":
            return ev(t[1], env)
        if k == "gamma":
            c = ev(t[1], env)
            for lab, v in t[2]:
                if (lab == "0") == (not c) and lab in ("0", "1"):
                    return ev(v, env)
            for lab, v in t[2]:
                if isinstance(lab, tuple) and lab[0] == "not" and (("0" in lab[1]) == bool(c)):
                    return ev(v, env)
            raise Und("gamma arm")
        if k == "phi":
            # pick the alternative whose predecessor's dominating facts hold in env
            cands = []
            for pb, v in t[2]:
                pbn = int(str(pb).replace("bb", "")) if not isinstance(pb, int) else pb
                ok, spec = True, 0
                for c, val, _, _ in te.facts_at(pbn):
                    sc = show(strip(c))
                    if sc.startswith("discr("):
                        continue
                    try:
                        if ev(c, env) != (val != "0"):
                            ok = False
                        spec += 1
                    except Und:
                        pass
                if ok:
                    cands.append((spec, v))
            if not cands:
                raise Und("no alternative of a join applies")
            # the alternative reached through the most specific satisfied conditions is the path taken; an alternative
            # without conditions stands for "all other paths"
            best = max(c[0] for c in cands)
            vals = {ev(v, env) for sp, v in cands if sp == best}
            if len(vals) == 1:
                return vals.pop()
            raise Und("ambiguous join")
        raise Und("term %s" % show(t)[:50])
    out = []
    n = 0
    for lab, arm in r[2]:
        if not (isinstance(lab, str) and lab.isdigit()):
            continue
        vn = vnames[int(lab)]
        key = "%s:%s" % (fn.npath, vn)
        n += 1
        try:
            errs = []
            if vn == "Literal":
                for var, pol in itertools.product((False, True), repeat=2):
                    got = ev(arm, {"var": var, "pol": pol, "sub": []})
                    if got != (var == pol):
                        errs.append("a literal of polarity %s evaluates to %s when its variable is %s" % (pol, got, var))
            elif vn in SPEC:
                ar, f = SPEC[vn]
                for vals in itertools.product((False, True), repeat=ar):
                    got = ev(arm, {"sub": list(vals)})
                    if got != f(*vals):
                        errs.append("%s%s evaluates to %s, expected %s" % (vn, tuple(vals), got, f(*vals)))
            else:
                out.append(inst("LE", key, UNDECIDED, fn, None, "no truth table for variant %s" % vn))
                continue
            out.append(inst("LE", key, VIOLATION if errs else OK, fn, None, errs[0] if errs else "%s evaluates per its truth table" % vn))
        except Und as e:
            out.append(inst("LE", key, UNDECIDED, fn, None, "arm not interpretable: %s" % e))
    if n < 7:
        raise CheckerError("LE: only %d arms of LogicalExpr::eval found" % n)
    return out
