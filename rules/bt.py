"""BT — tree walks that define the vtree index spaces.

The vtree manager numbers nodes twice: in-order depth-first (the index the prime/sub relation `l < r` is read off)
and breadth-first (the index the LCA structure works in), and converts between the two.  Checked:

  BT1 in-order   dfs_recurse on a node visits left subtree, then the node, then the right subtree (call order on the
                 CFG: every path through the Node arm executes exactly that sequence); a leaf is pushed itself
  BT2 level      the breadth-first iterator enqueues the left child before the right child and dequeues from the front
  BT3 pairing    dfs_to_bfs_mapping walks the in-order iterator and looks up the *breadth-first* labelling;
                 bfs_to_dfs_mapping walks the breadth-first iterator and looks up the *in-order* labelling; each
                 labelling enumerates its own iterator
  BT4 euler      build_euler_vec records the node before, between and after its two subtrees (left first)
  BT5 lca        equal arguments answer themselves; otherwise the two first-occurrence positions are ordered before
                 the range-minimum query
"""
from . import mir
from .base import verdict_of, errtext, inst, OK, VIOLATION, UNDECIDED, strip
from .facts import CheckerError
from .mir import show


def ordered_calls(fn, pred):
    """calls satisfying pred in an order consistent with dominance (None if not totally ordered)"""
    cs = [c for c in fn.terms.calls if pred(c)]
    cfg = fn.cfg
    import functools

    def cmp(a, b):
        if a.bb == b.bb:
            return 0
        if cfg.dominates(a.bb, b.bb):
            return -1
        if cfg.dominates(b.bb, a.bb):
            return 1
        return 0
    cs = sorted(cs, key=functools.cmp_to_key(cmp))
    for x, y in zip(cs, cs[1:]):
        if not cfg.dominates(x.bb, y.bb):
            return None
    return cs


def child(t):
    """((arg1 as Node).k ...) -> k"""
    for x in mir.subterms(t):
        if x[0] == "field" and isinstance(x[1], tuple) and x[1][0] == "as" and x[1][2] == "Node" and strip(x[1][1]) == ("param", 1):
            return x[2]
    return None


def run(prog):
    out = []
    B = "util::btree::"

    def find(name, owner):
        fs = [f for f in prog.lib_fns if f.name == name and owner in f.npath and "{closure" not in f.npath]
        if len(fs) != 1:
            raise CheckerError("BT: %s%s not found (%d)" % (owner, name, len(fs)))
        return fs[0]
    # BT1
    fn = find("dfs_recurse", "BTree")
    node_calls = ordered_calls(fn, lambda c: c.callee.name in ("dfs_recurse", "push_back") and
                               any(show(cc) == "discr(arg1)" and v == "1" for cc, v, _, _ in fn.terms.facts_at(c.bb)))
    errs = []
    if node_calls is None or len(node_calls) != 3:
        errs.append("?the Node arm is not a straight sequence of three steps")
    else:
        seq = [(c.callee.name, child(c.args[0]) if c.callee.name == "dfs_recurse" else "self") for c in node_calls]
        if seq != [("dfs_recurse", "1"), ("push_back", "self"), ("dfs_recurse", "2")]:
            errs.append("a node is walked as %s, expected left subtree, node, right subtree (the in-order index is what makes "
                        "`left descendant < node < right descendant` true)" % seq)
    out.append(inst("BT", "%s:BT1:in-order" % fn.npath, verdict_of(errs), fn, None,
                    errtext(errs) if errs else "left subtree, node, right subtree"))
    # BT2
    fn = [f for f in prog.lib_fns if f.name == "next" and "BreadthFirstIter" in f.npath][0]
    pushes = ordered_calls(fn, lambda c: c.callee.name == "push_back")
    pops = [c for c in fn.terms.calls if c.callee.name in ("pop_front", "pop_back")]
    errs = []
    if pushes is None or len(pushes) != 2:
        errs.append("?expected two enqueues on the node arm")
    else:
        ks = []
        for c in pushes:
            k = None
            for x in mir.subterms(c.args[1]):
                if x[0] == "field" and isinstance(x[1], tuple) and x[1][0] == "as" and x[1][2] == "Node":
                    k = x[2]
            ks.append(k)
        if ks != ["1", "2"]:
            errs.append("children are enqueued in the order %s, expected left then right" % ks)
    if [c.callee.name for c in pops] != ["pop_front"]:
        errs.append("the queue is not consumed from the front")
    out.append(inst("BT", "%s:BT2:level-order" % fn.npath, verdict_of(errs), fn, None,
                    errtext(errs) if errs else "pop_front; enqueue left, then right"))
    # BT3
    for name, it, lab in (("dfs_to_bfs_mapping", "inorder_dfs_iter", "bfs_labeling"), ("bfs_to_dfs_mapping", "bfs_iter", "dfs_labeling")):
        fn = find(name, "BTree")
        names = [c.callee.name for c in fn.terms.calls]
        errs = []
        if it not in names or any(o in names for o in ({"inorder_dfs_iter", "bfs_iter"} - {it})):
            errs.append("walks %s, expected %s" % ([n for n in names if n.endswith("_iter")], it))
        if lab not in names or any(o in names for o in ({"bfs_labeling", "dfs_labeling"} - {lab})):
            errs.append("looks up %s, expected %s" % ([n for n in names if n.endswith("labeling")], lab))
        out.append(inst("BT", "%s:BT3:pairing" % fn.npath, VIOLATION if errs else OK, fn, None,
                        "; ".join(errs) if errs else "walks %s, looks up %s" % (it, lab)))
    for name, it in (("bfs_labeling", "bfs_iter"), ("dfs_labeling", "inorder_dfs_iter")):
        fn = find(name, "BTree")
        names = [c.callee.name for c in fn.terms.calls]
        ins = [c for c in fn.terms.calls if c.callee.name == "insert"]
        errs = []
        if it not in names or any(o in names for o in ({"inorder_dfs_iter", "bfs_iter"} - {it})):
            errs.append("enumerates %s, expected %s" % ([n for n in names if n.endswith("_iter")], it))
        if ins:
            if "enumerate" not in names or not show(ins[0].args[2]).endswith(".0.0"):
                errs.append("the label is not the enumeration index")
        else:
            # combinator form: it.enumerate().map(|(idx, node)| (ptr, idx)).collect()
            r = strip(fn.terms.ret)
            pair = None
            if mir.is_call(r, "collect") or mir.is_call(r, "from_iter"):
                m = strip(r[2][0])
                if mir.is_call(m, "map") and mir.is_call(strip(m[2][0]), "enumerate"):
                    clo = strip(m[2][1])
                    if isinstance(clo, tuple) and clo[0] == "agg" and clo[1] == "closure":
                        cf = [g for g in prog.lib_fns if g.npath == clo[2]]
                        cr = strip(cf[0].terms.ret) if len(cf) == 1 and cf[0].terms.ret is not None else None
                        if isinstance(cr, tuple) and cr[0] == "agg" and cr[1] == "tuple" and len(cr[4]) == 2:
                            pair = cr[4]
            if pair is None:
                errs.append("?neither an insert in a loop over enumerate() nor enumerate().map(..).collect()")
            elif show(strip(pair[1])) != "arg2.0":
                errs.append("the label is not the enumeration index")
        out.append(inst("BT", "%s:BT3:labelling" % fn.npath, verdict_of(errs), fn, None,
                        errtext(errs) if errs else "label = position in %s" % it))
    # BT4
    fn = find("build_euler_vec", "LeastCommonAncestor")
    seqc = ordered_calls(fn, lambda c: c.callee.name in ("build_euler_vec", "push") and
                         any(show(cc) == "discr(arg1)" and v == "1" for cc, v, _, _ in fn.terms.facts_at(c.bb)))
    errs = []
    if seqc is None or len(seqc) != 5:
        errs.append("?the Node arm is not a straight sequence of five steps")
    else:
        seq = [(c.callee.name, child(c.args[0]) if c.callee.name == "build_euler_vec" else "idx") for c in seqc]
        if seq != [("push", "idx"), ("build_euler_vec", "1"), ("push", "idx"), ("build_euler_vec", "2"), ("push", "idx")]:
            errs.append("the tour of a node is %s, expected node, left, node, right, node" % seq)
    out.append(inst("BT", "%s:BT4:euler-tour" % fn.npath, verdict_of(errs), fn, None,
                    errtext(errs) if errs else "node, left tour, node, right tour, node"))
    # BT5
    fn = find("lca", "LeastCommonAncestor")
    r = strip(fn.terms.ret)
    errs = []
    if not (r[0] == "gamma" and show(strip(r[1])) in ("(arg2 Eq arg3)", "(arg3 Eq arg2)")):
        errs.append("%sno equal-arguments case" % ("" if mir.is_call(r, "query") else "?"))
    else:
        arms = {("F" if lab == "0" else "T"): strip(v) for lab, v in r[2]}
        if arms.get("T") not in (("param", 2), ("param", 3)):
            errs.append("for equal arguments the answer is %s" % show(arms.get("T"))[:40])
        q = arms.get("F")
        if not mir.is_call(q, "query"):
            errs.append("the general case is not a range query")
        else:
            lo, hi = strip(q[2][1]), strip(q[2][2])
            # both are projections .0 / .1 of the same ordered pair
            ok = lo[0] == "field" and hi[0] == "field" and lo[2] == "0" and hi[2] == "1" and strip(lo[1]) == strip(hi[1])
            pair = strip(lo[1]) if ok else None
            if not ok or pair[0] != "gamma":
                errs.append("?the query endpoints are not the two components of one ordered pair")
            else:
                c = strip(pair[1])
                if not (c[0] == "bin" and c[1] in ("Lt", "Le", "Gt", "Ge")):
                    errs.append("endpoints are not ordered by a comparison")
                else:
                    for lab, v in pair[2]:
                        t = strip(v)
                        a, b = strip(t[4][0]), strip(t[4][1])
                        holds = lab != "0"
                        small_first = (c[1] in ("Lt", "Le")) == holds
                        first_is_left = (a == strip(c[2]))
                        if small_first != first_is_left or {a, b} != {strip(c[2]), strip(c[3])}:
                            errs.append("under `%s` = %s the query runs from %s to %s: the range is reversed (empty), so the "
                                        "answer is not the common ancestor" % (show(c)[:50], holds, show(a)[:30], show(b)[:30]))
            for e in (lo, hi):
                if "index_map" not in show(e):
                    errs.append("a query endpoint is %s, not a first-occurrence position from index_map" % show(e)[:40])
                    break
    out.append(inst("BT", "%s:BT5:lca" % fn.npath, VIOLATION if errs else OK, fn, None,
                    "; ".join(errs) if errs else "l == r ↦ l; else query(min(first(l), first(r)), max(..))"))
    # BT6: LeastCommonAncestor::new — index_map[v] is a position at which v occurs in the Euler tour of the breadth-first
    # labelling (first or last occurrence are equally good: any tour segment between u and v passes their common ancestor
    # and nothing above it), and the range structure takes minima
    fn = find("new", "LeastCommonAncestor")
    te = fn.terms
    errs = []
    ev = [c for c in te.calls if c.callee.name == "build_euler_vec"]
    if len(ev) != 1 or not mir.is_call(strip(ev[0].args[1]), "bfs_labeling"):
        errs.append("the Euler tour is not built over the breadth-first labelling")
    st = [x for x in te.stores if "Some{" in show(x[2])]
    if len(st) != 1:
        errs.append("?expected one store into the first-occurrence table, found %d" % len(st))
    else:
        tgt, val = strip(st[0][1]), strip(st[0][2])
        if not (show(tgt).endswith(".0.1)") and show(val).endswith(".0.0}")):
            errs.append("the table stores %s at %s, expected position i at [node of position i]" % (show(val)[:40], show(tgt)[:50]))
    b = [c for c in te.calls if c.callee.name == "build"]
    if len(b) != 1 or "Min" not in show(b[0].args[1]):
        errs.append("the range structure is not a minimum tree over the tour")
    out.append(inst("BT", "%s:BT6:occurrence" % fn.npath, verdict_of(errs), fn, None,
                    errtext(errs) if errs else "index_map[v] = a position of v in the Euler tour of the BFS labelling (any occurrence serves); range-minimum tree over the tour"))
    return out
