"""IC — index/count dimension analysis.

Integer values get a dimension: Index (a variable label's value), Count (a number of
variables / a length), OneBased (a DIMACS variable number).  Index+1 = Count, OneBased-1 = Index,
max preserves the dimension, casts and unwrap preserve it.  Sinks: whatever a function called
`num_vars` returns and whatever a field called `num_vars` is initialised with must be a Count;
label-indexed table sizes (linear_order, create_semantic_hash_map, PartialModel::new, vec![_; n])
must be Counts; VarLabel::new* takes an Index.
"""
from . import mir
from .base import inst, OK, VIOLATION, UNDECIDED, strip
from .facts import CheckerError
from .mir import show

COUNT_SINK_CALLS = {"linear_order": 0, "create_semantic_hash_map": 0, "new_with_linear_order": 0}


class Dim:
    def __init__(self, prog):
        self.prog = prog
        self.field_dims = None
        self.depth = 0

    def elem(self, t, fn):
        """dimension of the elements of an iterator/collection term"""
        t = strip(t)
        if not isinstance(t, tuple):
            return None
        if mir.is_call(t, "map") and len(t[2]) == 2:
            clo = t[2][1]
            if isinstance(clo, tuple) and clo[0] == "agg" and clo[1] == "closure":
                kids = [k for k in self.prog.by_npath.get(clo[2], [])]
                if kids:
                    return self.dim(kids[0].terms.ret, kids[0])
            return None
        if mir.is_call(t) and t[1].local and not t[1].name in ("map",):
            # collection-returning local function: dimension of what it puts into the collection
            dims = set()
            for g in self.prog.resolve(t[1]):
                te = g.terms
                for cs in te.calls:
                    if cs.callee.name == "from" and cs.args and strip(cs.args[0])[0] == "agg" and strip(cs.args[0])[1] == "array":
                        for o in strip(cs.args[0])[4]:
                            dims.add(self.dim(o, g))
                    if cs.callee.name == "insert" and len(cs.args) == 2 and not cs.callee.local:
                        dims.add(self.dim(cs.args[1], g))
            dims.discard(None)
            if len(dims) == 1:
                return dims.pop()
        return None

    def dim(self, t, fn):
        self.depth += 1
        try:
            if self.depth > 40:
                return None
            return self._dim(t, fn)
        finally:
            self.depth -= 1

    def _dim(self, t, fn):
        t = strip(t)
        if not isinstance(t, tuple) or not t:
            return None
        k = t[0]
        if k == "field" and t[2] == "0" and isinstance(t[1], tuple) and t[1][0] == "bin":
            return self.dim(t[1], fn)
        if k == "bin":
            op, a, b = t[1], t[2], t[3]
            one = lambda x: isinstance(x, tuple) and x[0] == "const" and x[2] == "1"
            if op in ("Add", "AddWithOverflow"):
                for x, y in ((a, b), (b, a)):
                    if one(y):
                        d = self.dim(x, fn)
                        return {"Index": "Count", "Count": None, "OneBased": None}.get(d)
                return None
            if op in ("Sub", "SubWithOverflow") and one(b):
                d = self.dim(a, fn)
                return {"OneBased": "Index", "Count": "Index"}.get(d)
            return None
        if k == "call":
            nm = t[1].name
            a = t[2]
            if nm in ("value", "value_usize") and ("VarLabel" in t[1].key()):
                return "Index"
            if nm == "to_u64" and "dimacs" in t[1].key():
                return "OneBased"
            if nm in ("len", "count"):
                # the number of entries of a map or set says nothing about the largest key it holds
                if any(m in t[1].key() for m in ("HashMap", "HashSet", "BTreeMap", "BTreeSet", "FxHashMap")):
                    return "Entries"
                return "Count"
            if nm == "num_vars":
                return "Count"
            if nm == "max" and len(a) == 2:
                d1, d2 = self.dim(a[0], fn), self.dim(a[1], fn)
                return d1 if d1 == d2 else None
            if nm == "max" and len(a) == 1:
                return self.elem(a[0], fn)
            if nm in ("unwrap", "expect", "unwrap_unchecked") and len(a) >= 1:
                return self.dim(a[0], fn)
            if nm in ("checked_add", "checked_sub", "saturating_add", "wrapping_add", "wrapping_sub") and len(a) == 2:
                # the checked spelling of `x + 1` / `x - 1`
                return self._dim(("bin", "Add" if "add" in nm else "Sub", a[0], a[1]), fn)
            if nm == "unwrap_or" and len(a) == 2:
                return self.dim(a[0], fn)
            if nm in ("ok_or", "ok_or_else", "branch", "ok", "map_err") and a and not t[1].local:
                # the `?` spelling of unwrap: the payload of the success case
                return self.dim(a[0], fn)
            if t[1].local or getattr(t[1], "res_local", False):
                # a private helper: the dimension of its body with the arguments in place of the parameters
                from . import canon
                hs = [h for h in self.prog.resolve(t[1]) if "{closure" not in h.npath]
                if len(hs) == 1 and hs[0].terms.ret is not None and not canon.has_unknown(hs[0].terms.ret):
                    return self.dim(canon.subst(hs[0].terms.ret, {i + 1: x for i, x in enumerate(a)}), hs[0])
            return None
        if k in ("gamma", "phi"):
            ds = {self.dim(v, fn) for _, v in t[2]}
            return ds.pop() if len(ds) == 1 else None
        if k == "field" and t[2] == "0" and isinstance(t[1], tuple) and t[1] and t[1][0] == "as" and \
                t[1][2] in ("Continue", "Some", "Ok"):
            return self.dim(t[1][1], fn)
        if k == "field" and t[2] == "num_vars":
            return "Count"
        if k == "mu":
            # a counter: starts at 0 and goes up by one per item visited.  It counts the items (leaves, entries) — the
            # number of *distinct* labels seen — which bounds the labels only when they happen to be 0..n-1.
            te = fn.terms
            init = strip(te.mu_init.get((t[1], t[2]), ("top",)))
            ups = te.mu_update.get((t[1], t[2]), [])
            if init[0] == "const" and init[2] == "0" and ups:
                def step(u):
                    u = strip(u)
                    if u[0] == "field" and u[2] == "0":
                        u = strip(u[1])
                    if u == t:
                        return True
                    if u[0] in ("gamma", "phi"):
                        return all(step(v) for _, v in u[2])
                    return u[0] == "bin" and u[1].startswith("Add") and ((strip(u[2]) == t and strip(u[3])[0] == "const" and strip(u[3])[2] == "1") or
                                                                         (strip(u[3]) == t and strip(u[2])[0] == "const" and strip(u[2])[2] == "1"))
                if all(step(u) for u in ups):
                    return "Entries"
        return None


def run(prog):
    out = []
    D = Dim(prog)
    n = 0
    for fn in prog.lib_fns:
        if "::tests::" in fn.npath or fn.name.startswith("test_") or "::test::" in fn.npath or "util::hypergraph" in fn.npath:
            continue
        if fn.name == "num_vars" and fn.kind != "Closure":
            te = fn.terms
            d = D.dim(te.ret, fn)
            n += 1
            key = "%s:return" % fn.npath
            if d is None:
                out.append(inst("IC", key, UNDECIDED, fn, None, "dimension of %s not determined" % show(te.ret)[:100]))
            elif d != "Count":
                out.append(inst("IC", key, VIOLATION, fn, None,
                                "num_vars returns %s, which is a label %s, not a count of variables (off by one: tables "
                                "sized by it are one short)" % (show(te.ret), d)))
            else:
                out.append(inst("IC", key, OK, fn, None, "returns a Count: %s" % show(te.ret)[:100]))
    # struct literals with a num_vars field; count sinks; label sinks
    for fn in prog.lib_fns:
        if "::tests::" in fn.npath or fn.name.startswith("test_") or "::test::" in fn.npath or "util::hypergraph" in fn.npath:
            continue
        has_call = any(b["term"]["k"] == "call" for b in fn.blocks)
        if not has_call and not any(True for b in fn.blocks for s in b["stmts"] if s["k"] == "assign" and s["rv"]["k"] == "agg"):
            continue
        te = fn.terms
        for bb, t, line in te.aggs:
            if t[1] == "adt" and "num_vars" in t[5]:
                v = t[4][t[5].index("num_vars")]
                d = D.dim(v, fn)
                key = "%s:%s.num_vars" % (fn.npath, mir.last_seg(t[2]))
                n += 1
                if d is None:
                    out.append(inst("IC", key, UNDECIDED, fn, line, "dimension of %s not determined" % show(v)[:100]))
                else:
                    out.append(inst("IC", key, OK if d == "Count" else VIOLATION, fn, line,
                                    ("field num_vars initialised with a %s: %s" % (d, show(v)[:100])) if d != "Entries" else
                                    "field num_vars is a tally of the items visited (%s): the number of distinct variables, which is a "
                                    "bound on their labels only when these are 0..n-1; tables indexed by label are sized by num_vars"
                                    % show(v)[:40]))
        seen = {}
        for cs in te.calls:
            nm = cs.callee.name
            if cs.exp and nm != "from_elem":      # `vec![x; n]` is a std macro: its from_elem call is user code
                continue
            if nm in COUNT_SINK_CALLS and cs.callee.local or (nm == "new" and "PartialModel" in cs.callee.key()) \
                    or (nm == "from_elem" and len(cs.args) == 2):
                idx = 1 if nm == "from_elem" else 0
                if len(cs.args) <= idx:
                    continue
                d = D.dim(cs.args[idx], fn)
                if d is None:
                    continue
                key = "%s:%s(n)" % (fn.npath, nm if nm != "new" else "PartialModel::new")
                seen[key] = seen.get(key, 0) + 1
                if seen[key] > 1:
                    key += "#%d" % seen[key]
                n += 1
                if d == "Entries":
                    # only a definite error when the table is indexed by label in this very function
                    loc = cs.dest.get("l") if isinstance(cs.dest, dict) else None
                    by_label = [c2 for c2 in te.calls if c2.callee.name in ("index", "index_mut") and len(c2.args) == 2 and
                                D.dim(c2.args[1], fn) == "Index" and loc is not None and
                                strip(c2.args[0]) in (("mutref", loc), ("ref", loc), ("local", loc))]
                    if nm == "from_elem" and not by_label:
                        out.append(inst("IC", key, UNDECIDED, fn, cs.line, "table sized by a number of map entries; not seen indexed by label here"))
                    else:
                        out.append(inst("IC", key, VIOLATION, fn, cs.line,
                                        "a table indexed by variable label is sized by the number of entries of a map (%s): a map "
                                        "that does not cover the labels 0..len-1 — weights or values for some variables only — "
                                        "indexes past the end" % show(cs.args[idx])[:60]))
                    continue
                out.append(inst("IC", key, OK if d == "Count" else VIOLATION, fn, cs.line,
                                "table size / variable count argument is a %s: %s" % (d, show(cs.args[idx])[:100])))
            if nm in ("new", "new_usize") and "VarLabel" in cs.callee.key() and cs.args:
                d = D.dim(cs.args[0], fn)
                if d is None:
                    continue
                key = "%s:VarLabel::%s(x)" % (fn.npath, nm)
                seen[key] = seen.get(key, 0) + 1
                if seen[key] > 1:
                    key += "#%d" % seen[key]
                n += 1
                # a Count is a legitimate *fresh* label (the next free index); only a 1-based
                # DIMACS number used as a label is a definite off-by-one
                out.append(inst("IC", key, VIOLATION if d == "OneBased" else OK, fn, cs.line,
                                "label built from a %s: %s" % (d, show(cs.args[0])[:100])))
    if n < 8:
        raise CheckerError("IC: only %d sinks recognised" % n)
    return out
