"""MP — pipeline order in the command-line tools.

In each `main` the serialised / counted diagram flows from compile_plan / compile_logical_expr
on a builder created with the order computed from the *same* formula; the weighted counter builds
its weight table with the mapping returned by sexpr.variable_mapping() of the same s-expression
that LogicalExpr::from_sexpr translates.
"""
from . import mir
from .base import inst, OK, VIOLATION, UNDECIDED, strip
from .facts import CheckerError
from .mir import show


def one(te, name, qual=None):
    cs = [c for c in te.calls if c.callee.name == name and (qual is None or qual in c.callee.key())]
    if len(cs) != 1:
        raise CheckerError("MP: expected exactly one call to %s in %s, found %d" % (name, te.fn.npath, len(cs)))
    return cs[0]


def contains(t, sub):
    return any(x == sub for x in mir.subterms(t))


def calls_in(t, name):
    return [x for x in mir.subterms(t) if mir.is_call(x, name)]


def count_modulus(prog):
    """the unweighted model count is computed in a finite field and printed as a number: it is exact only while the
    count is below the modulus.  The counting functions of weighted_model_count must use a modulus at least as large
    as the largest 64-bit prime the library exports (U64_LARGEST): with a smaller one formulas with ≥ P models print
    the count modulo P."""
    import re
    out = []
    exported = {k.split("::")[-1]: int(v["val"]) for k, v in prog.consts.items() if "constants::primes::" in k and str(v.get("val", "")).isdigit()}
    if "U64_LARGEST" not in exported:
        raise CheckerError("MP: constants::primes::U64_LARGEST not found")
    need = exported["U64_LARGEST"]
    n = 0
    for f in prog.bin_fns:
        if f.name not in ("single_wmc", "partial_wmcs") or not any(b["term"]["k"] == "call" for b in f.blocks):
            continue
        mods = set()
        for cs in f.terms.calls:
            for m in re.findall(r"FiniteField<(\d+)>", str(cs.callee.targs) + str(cs.callee.res)):
                mods.add(int(m))
        if not mods:
            continue
        n += 1
        small = sorted(m for m in mods if m < need)
        names = {v: k for k, v in exported.items()}
        out.append(inst("MP", "%s:count-modulus" % f.npath, VIOLATION if small else OK, f, None,
                        ("the unweighted count is taken modulo %s (%s), smaller than the largest exported 64-bit prime: a formula with "
                         "that many models or more prints a wrapped count" % (small[0], names.get(small[0], "?"))) if small else
                        "count modulus %s ≥ U64_LARGEST" % sorted(mods)))
    if n < 2:
        raise CheckerError("MP: counting functions of weighted_model_count not found (%d)" % n)
    return out


def numbering_agreement(prog):
    """One numbering of the named variables.  `variable_mapping()` numbers the names by sorting `unique_variables()`;
    the counting tool keys weights and the configured order through it while the formula is compiled with the labels
    `from_sexpr` assigns.  Every function that derives a numbering by sorting the set of variable names must therefore
    sort it by the *same* ordering (siblings must agree): one by `Ord` of the name and another by a custom key is a
    stated disagreement, and the weights end up on other variables for the names the two orderings rank differently."""
    sites = []
    for f in prog.fns:
        if "::test" in f.npath or f.name.startswith("test") or not any(b["term"]["k"] == "call" for b in f.blocks):
            continue
        te = f.terms
        for cs in te.calls:
            # an ordered set is a sort by `Ord` of the element: `unique_variables().into_iter().collect::<BTreeSet<_>>()`
            # (the collection's type is visible at the call that iterates it)
            if cs.callee.name in ("into_iter", "iter", "first", "last", "range") and cs.args and \
                    "BTreeSet" in (cs.callee.res or "") and \
                    any(mir.is_call(x, "unique_variables") for x in mir.subterms(cs.args[0])):
                sites.append((f, cs, "Ord of the name"))
                continue
            if not cs.callee.name.startswith("sort") or not cs.args:
                continue
            r = strip(cs.args[0])
            src = None
            if r[0] == "mutref":
                src = te.state_in.get(cs.bb, {}).get(r[1]) or te.state_out.get(cs.bb, {}).get(r[1])
            src = src if src is not None else r
            if not any(mir.is_call(x, "unique_variables") for x in [strip(src)] + list(mir.subterms(src))):
                continue
            if cs.callee.name in ("sort", "sort_unstable"):
                sig = "Ord of the name"
            else:
                from . import canon
                g, _ = canon.closure_fn(prog, cs.args[1]) if len(cs.args) > 1 else (None, None)
                sig = "%s(%s)" % (cs.callee.name.replace("_unstable", "").replace("_cached", ""),
                                  show(g.terms.ret)[:120] if g is not None and g.terms.ret is not None else "?")
            sites.append((f, cs, sig))
    out = []
    if not sites:
        return [inst("MP", "variable-numbering:one-ordering", UNDECIDED, None, None,
                     "? no function sorts unique_variables(): the numbering of named variables was not found")]
    ref = [s_ for s_ in sites if s_[0].name == "variable_mapping"] or sites[:1]
    want = ref[0][2]
    # the numbering itself is documented: `variable_mapping` numbers the names in lexicographic order (its doc comment and
    # the suite's `..._is_lexicographic` test say so, and weights files / configured orders written against it rely on it)
    if ref[0][0].name == "variable_mapping" and "?" not in want and want != "Ord of the name":
        f, cs, sig = ref[0]
        out.append(inst("MP", "%s:variable-numbering:documented-order" % f.npath, VIOLATION, f, cs.line,
                        "variable_mapping numbers the variable names by %s; the documented numbering is the lexicographic order of the "
                        "names (`Ord` of the String): names that the two orders rank differently (x2 / x10) get other labels than "
                        "the text's documented numbering says" % sig[:100]))
    elif ref[0][0].name == "variable_mapping" and want == "Ord of the name":
        out.append(inst("MP", "%s:variable-numbering:documented-order" % ref[0][0].npath, OK, ref[0][0], ref[0][1].line,
                        "names are numbered in lexicographic order, as documented"))
    for f, cs, sig in sites:
        bad = sig != want
        und = "?" in sig or "?" in want
        out.append(inst("MP", "%s:variable-numbering:one-ordering" % f.npath,
                        UNDECIDED if (bad and und) else (VIOLATION if bad else OK), f, cs.line,
                        "%s numbers the variable names by %s, but %s numbers them by %s: weights and configured orders are "
                        "attached through one numbering and the formula is compiled with the other"
                        % (f.name, sig, ref[0][0].name, want) if bad else "variable names are numbered by %s" % sig))
    return out


def run(prog):
    out = count_modulus(prog)
    out += numbering_agreement(prog)
    # ---- bottomup_cnf_to_bdd
    fn = prog.find1(name="main", unit="bottomup_cnf_to_bdd-bin")
    te = fn.terms
    cnf = one(te, "from_dimacs").term
    cp = one(te, "compile_plan")
    errs = []
    from . import canon
    # helpers of the binary itself (`order_for_heuristic(&cnf, ..)`, `plan_for_strategy(&cnf, ..)`) are looked through
    look = lambda t: canon.inline_local(prog, t, lambda h: h.unit == fn.unit and "{closure" not in h.npath)
    b = strip(look(cp.args[0]))
    plan = strip(look(cp.args[1]))
    if not (mir.is_call(b, "new") and "RobddBuilder" in b[1].key()):
        errs.append("compile_plan receiver is not a fresh RobddBuilder")
    else:
        order = strip(b[2][0])
        for nm in ("min_fill_order", "force_order"):
            for x in calls_in(order, nm):
                if strip(x[2][0]) != cnf:
                    errs.append("%s is computed from a different formula than the one compiled" % nm)
        if not calls_in(order, "min_fill_order") and not calls_in(order, "force_order"):
            errs.append("builder order is not derived from the CNF")
        if not (mir.is_call(plan, "from_dtree") and mir.is_call(strip(plan[2][0]), "from_cnf")):
            errs.append("plan is not from_dtree(from_cnf(..))")
        else:
            fc = strip(plan[2][0])
            if strip(fc[2][0]) != cnf:
                errs.append("dtree is built from a different formula")
            if strip(fc[2][1]) != order:
                errs.append("dtree elimination order differs from the builder's order")
    fb = one(te, "from_bdd")
    if strip(fb.args[0]) != cp.term:
        errs.append("the serialised diagram is not the compiled one")
    ts_ = one(te, "to_string", "serde_json")
    if strip(ts_.args[0]) != fb.term:
        errs.append("the printed JSON is not the serialisation of the compiled diagram")
    out.append(inst("MP", "bottomup_cnf_to_bdd::main:pipeline", VIOLATION if errs else OK, fn, cp.line,
                    "; ".join(errs) if errs else "json(from_bdd(compile_plan(builder(order(cnf)), from_dtree(from_cnf(cnf, order)))))"))
    # ---- bottomup_formula_to_bdd
    fn = prog.find1(name="main", unit="bottomup_formula_to_bdd-bin")
    te = fn.terms
    fs = one(te, "from_sexpr")
    sx = strip(fs.args[0])
    cl = one(te, "compile_logical_expr")
    errs = []
    if strip(cl.args[1]) != fs.term:
        errs.append("the compiled expression is not from_sexpr(sexpr)")
    b = strip(cl.args[0])
    if not (mir.is_call(b, "new") and "RobddBuilder" in b[1].key()):
        errs.append("receiver is not a fresh RobddBuilder")
    else:
        order = b[2][0]
        for nm in ("unique_variables", "variable_mapping"):
            for x in calls_in(order, nm):
                if strip(x[2][0]) != sx:
                    errs.append("order uses %s of a different s-expression" % nm)
        if not calls_in(order, "unique_variables") and not calls_in(order, "variable_mapping"):
            errs.append("order is not derived from the s-expression's variables")
    fb = one(te, "from_bdd")
    if strip(fb.args[0]) != cl.term:
        errs.append("the serialised diagram is not the compiled one")
    ts_ = one(te, "to_string", "serde_json")
    if strip(ts_.args[0]) != fb.term:
        errs.append("the printed JSON is not the serialisation of the compiled diagram")
    out.append(inst("MP", "bottomup_formula_to_bdd::main:pipeline", VIOLATION if errs else OK, fn, cl.line,
                    "; ".join(errs) if errs else "json(from_bdd(compile_logical_expr(builder(order(vars(sexpr))), from_sexpr(sexpr))))"))
    # ---- weighted_model_count
    fn = prog.find1(name="single_wmc", unit="weighted_model_count-bin")
    te = fn.terms
    cl = one(te, "compile_logical_expr")
    errs = []
    if strip(cl.args[1]) != ("param", 1):
        errs.append("single_wmc compiles something other than its expression argument")
    b = strip(cl.args[0])
    if not (mir.is_call(b, "new") and strip(b[2][0]) == ("param", 3)):
        errs.append("builder is not created from the order argument")
    sm = [c for c in te.calls if c.callee.name == "smooth"]
    if not sm or strip(sm[0].args[1]) != cl.term:
        errs.append("the smoothed diagram is not the compiled one")
    wm = [c for c in te.calls if c.callee.name == "unsmoothed_wmc"]
    weighted = [c for c in wm if strip(c.args[1]) == ("param", 4)]
    if len(weighted) != 1:
        errs.append("the weighted count does not use the params argument exactly once")
    out.append(inst("MP", "weighted_model_count::single_wmc:pipeline", VIOLATION if errs else OK, fn, cl.line,
                    "; ".join(errs) if errs else "wmc(smooth(compile(expr, order), n), params)"))
    fn = prog.find1(name="main", unit="weighted_model_count-bin")
    te = fn.terms
    fs = one(te, "from_sexpr")
    sx = strip(fs.args[0])
    errs = []
    for nm in ("variable_mapping", "unique_variables"):
        for c in te.calls:
            if c.callee.name == nm and strip(c.args[0]) != sx:
                errs.append("%s is taken from a different s-expression than the one compiled" % nm)
    sw = one(te, "single_wmc")
    if strip(sw.args[0]) != fs.term:
        errs.append("single_wmc is not given from_sexpr(sexpr)")
    out.append(inst("MP", "weighted_model_count::main:same-sexpr", VIOLATION if errs else OK, fn, sw.line,
                    "; ".join(errs) if errs else "expression, variable count and mapping all come from the one parsed s-expression"))
    # the weights closure looks labels up in that mapping
    errs = []
    kids = prog.children(fn)
    used = False

    def from_vm(t, depth=0):
        for x in [strip(t)] + list(mir.subterms(t)):
            if mir.is_call(x, "variable_mapping"):
                return True
            if isinstance(x, tuple) and x and x[0] == "mu" and depth < 3:      # a map that is extended inside a loop
                init = te.mu_init.get((x[1], x[2]))
                if init is not None and from_vm(init, depth + 1):
                    return True
        return False
    for c in te.calls:                       # a lookup written in main itself (a `for` loop over the weights)
        if c.callee.name == "get" and c.args and from_vm(c.args[0]):
            used = True
    for k in kids:
        caps = {}
        for a in te.aggs:
            t_ = a[1]
            if isinstance(t_, tuple) and t_[0] == "agg" and t_[1] == "closure" and t_[2] == k.npath and len(t_) > 5 and t_[5]:
                caps = dict(zip(t_[5], t_[4]))
        for c in k.terms.calls:
            if c.callee.name == "get" and c.args:
                r0 = strip(c.args[0])
                while isinstance(r0, tuple) and r0 and r0[0] in ("ref", "deref"):
                    r0 = strip(r0[1])
                if r0 == ("upvar", "mapping") or (isinstance(r0, tuple) and r0 and r0[0] == "upvar" and r0[1] in caps and from_vm(caps[r0[1]])):
                    used = True
    if not used:
        errs.append("?no weight is keyed through `mapping` (sexpr.variable_mapping())")
    # mapping local must be initialised from variable_mapping(sexpr)
    ok_map = False
    for d in fn.debug:
        if d["name"] == "mapping" and not d["place"]["proj"]:
            for bb, st in te.state_out.items():
                v = st.get(d["place"]["l"])
                if v is not None and any(mir.is_call(x, "variable_mapping") and strip(x[2][0]) == sx for x in mir.subterms(v)):
                    ok_map = True
    if not ok_map:
        errs.append("`mapping` is not sexpr.variable_mapping()")
    out.append(inst("MP", "weighted_model_count::main:weights-mapping", VIOLATION if errs else OK, fn, None,
                    "; ".join(errs) if errs else "weights are keyed by the expression's own lexicographic variable mapping"))
    ord_ok = []
    o = strip(sw.args[2])
    has_cfg = any(mir.is_call(x, "to_var_order") for x in mir.subterms(o))
    errs = []
    if not has_cfg:
        errs.append("order passed to single_wmc does not come from the config / linear default")
    out.append(inst("MP", "weighted_model_count::main:order", VIOLATION if errs else OK, fn, None,
                    "; ".join(errs) if errs else "order = config.to_var_order(mapping) or linear default"))
    return out
