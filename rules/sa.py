"""SA — the SDD apply (`and`): base cases and vtree dispatch.

SA1  every early return of `and` is a valid conjunction under the tests that guard it: the
     returned value is evaluated for all truth values of (a, b) that are consistent with the
     dominating tests (is_true(x) ⇒ x = ⊤, is_false(x) ⇒ x = ⊥, eq(x, y) ⇒ x = y, eq(x, ¬y) ⇒ x ≠ y)
     and must equal a ∧ b.
SA2  the operands are normalised so that the first has the smaller (prime-side) vtree index — they
     are swapped exactly when neither `index(a) == index(b)` nor `is_prime_index(index(a), index(b))`
     holds — and the four cases are dispatched on the relation of the two vtree nodes:
       same node ↦ and_cartesian(A, B, lca);  lca = node(A) ↦ and_sub_desc(A, B);
       lca = node(B) ↦ and_prime_desc(B, A);  otherwise ↦ and_indep(A, B, lca).
"""
import itertools
from . import mir
from .base import inst, OK, VIOLATION, UNDECIDED, strip
from .facts import CheckerError
from .mir import show


def run(prog):
    fns = [f for f in prog.find(name="and", impl_trait="builder::BottomUpBuilder", unit="rsdd-lib") if "SddPtr" in f.npath]
    if len(fns) != 1:
        raise CheckerError("SA: SDD and not found")
    fn = fns[0]
    te = fn.terms
    a, b = ("param", 2), ("param", 3)
    out = []

    def val(t, s):
        t = strip(t)
        if t == a:
            return s[0]
        if t == b:
            return s[1]
        if mir.is_call(t, "neg"):
            v = val(t[2][0], s)
            return None if v is None else (not v)
        if mir.is_call(t, "false_ptr") or (t[0] == "agg" and t[3] == "PtrFalse"):
            return False
        if mir.is_call(t, "true_ptr") or (t[0] == "agg" and t[3] == "PtrTrue"):
            return True
        return None

    # ---- SA1: early returns = phi alternatives whose value is a, b or a constant
    alts = []

    def collect(t, pb):
        if isinstance(t, tuple) and t and t[0] == "phi":
            for p_, v in t[2]:
                collect(v, p_)
        else:
            alts.append((pb, t))
    for rb, t in te.ret_by_block.items():
        collect(t, rb)
    n1 = 0
    for pb, t in alts:
        if val(t, (True, True)) is None:
            continue   # the computed / cached result
        n1 += 1
        # one fact list per way of reaching the return (`if is_false(a) || is_false(b) { return ⊥ }` has two)
        ways = te.entry_guards(pb) if isinstance(pb, int) and pb >= 0 else [[]]
        facts = []
        bad = None
        feasible = 0
        for way in ways:
            wf = [(strip(c), v != "0") for c, v, _, d in way]
            if any((c_, not tr_) in wf for c_, tr_ in wf):
                continue      # this way of reaching the return tests one condition both ways: dead
            facts += [f for f in wf if f not in facts]
            for s in itertools.product([False, True], repeat=2):
                ok = True
                for c, truth in wf:
                    if not truth:
                        continue      # `!is_true(a)` says a is not the constant, nothing about its value at a point
                    if mir.is_call(c, "is_true"):
                        ok = ok and val(c[2][-1], s) is True
                    elif mir.is_call(c, "is_false"):
                        ok = ok and val(c[2][-1], s) is False
                    elif mir.is_call(c, "eq") or mir.is_call(c, "sdd_eq"):
                        x, y = val(c[2][-2], s), val(c[2][-1], s)
                        ok = ok and x is not None and y is not None and x == y
                if not ok:
                    continue
                feasible += 1
                if val(t, s) != (s[0] and s[1]):
                    bad = s
        key = "%s:SA1:%s" % (fn.npath, mir.stable(t, fn)[:30] + "@" + "&".join(show(c)[:24] for c, tr in facts if tr)[-60:])
        if feasible == 0:
            out.append(inst("SA", key, UNDECIDED, fn, None, "guards not interpretable"))
        else:
            out.append(inst("SA", key, VIOLATION if bad else OK, fn, None,
                            "early return %s is a ∧ b under its guards" % show(t) if not bad else
                            "early return %s is not a ∧ b: for (a, b) = %s, which its guards allow, a ∧ b = %s"
                            % (show(t), bad, bad[0] and bad[1])))
    if n1 < 5:
        raise CheckerError("SA1: expected >= 5 early returns in the SDD and, found %d" % n1)
    # ---- SA2: normalisation + dispatch
    calls = {cs.callee.name: cs for cs in te.calls if cs.callee.name in ("and_cartesian", "and_sub_desc", "and_prime_desc", "and_indep")}
    if len(calls) != 4:
        raise CheckerError("SA2: expected the four apply helpers, found %s" % sorted(calls))
    A = B = None
    c0 = calls["and_cartesian"]
    A, B = strip(c0.args[1]), strip(c0.args[2])
    errs = []
    # A/B are the two components of one swapped-or-not pair
    def comp(t):
        return (t[2], t[1]) if t[0] == "field" and t[1][0] in ("phi", "gamma") else (None, None)
    ia, pa = comp(A)
    ib, pb_ = comp(B)
    if pa is None and A[0] == "phi" and B[0] == "phi" and A[1] == B[1] and [p for p, _ in A[2]] == [p for p, _ in B[2]]:
        # the pair kept in two variables that are exchanged by std::mem::swap: two joins at one block
        pa = pb_ = ("phi", A[1], tuple((p, ("agg", "tuple", None, None, (va_, vb_), ())) for (p, va_), (_, vb_) in zip(A[2], B[2])))
        ia, ib = "0", "1"
    shape_known = True
    gamma_form = None
    if pa is None and A[0] == "gamma" and B[0] == "gamma" and A[1] == B[1] and len(A[2]) == 2 and len(B[2]) == 2 and \
            [l for l, _ in A[2]] == [l for l, _ in B[2]]:
        # `let (a, b) = if keep { (a, b) } else { (b, a) }` folded into two choices on one condition
        gamma_form = [(lab, strip(va_), strip(vb_)) for (lab, va_), (_, vb_) in zip(A[2], B[2])]
    if gamma_form is not None:
        cond = strip(A[1])
        sc = show(cond)
        keep_labs = [lab for lab, va_, vb_ in gamma_form if (va_, vb_) == (a, b)]
        swap_labs = [lab for lab, va_, vb_ in gamma_form if (va_, vb_) == (b, a)]
        if len(keep_labs) != 1 or len(swap_labs) != 1:
            errs.append("normalised pair is chosen among %s" % [(show(x), show(y)) for _, x, y in gamma_form])
        else:
            is_or = cond[0] == "gamma" and any(strip(v_)[0] == "const" and str(strip(v_)[2]) in ("1", "true") for _, v_ in cond[2]) and \
                "is_prime_index(" in sc and " Eq " in sc
            prime_ok = "is_prime_index(vtree_manager(arg1), vtree_index(arg1, arg2), vtree_index(arg1, arg3))" in sc
            if not is_or or not prime_ok:
                errs.append("?the condition that keeps the operand order is %s, not `index(a) == index(b) || is_prime_index(index(a), index(b))`" % sc[:80])
            elif keep_labs[0] == "0":
                errs.append("the operands keep their order exactly when a is *not* on the prime side of b")
    elif not (ia == "0" and ib == "1" and pa == pb_ and pa is not None):
        errs.append("?operands of the helpers are not the two components of one normalised pair")
        shape_known = False
    else:
        tuples = [strip(v) for _, v in pa[2]]
        forms = sorted(show(x) for x in tuples)
        if forms != ["tuple{arg2, arg3}", "tuple{arg3, arg2}"]:
            errs.append("normalised pair is chosen among %s" % forms)
        else:
            # which predecessor keeps the order?  it must be the one under index(a)==index(b) || is_prime_index(ia, ib)
            for p_, v in pa[2]:
                keep = show(strip(v)) == "tuple{arg2, arg3}"
                facts = [(strip(c), val_ != "0") for c, val_, _, d in te.facts_at(p_)]
                prime_true = any(mir.is_call(c, "is_prime_index") and tr and show(c[2][-2]).endswith("arg2)") for c, tr in facts)
                eq_true = any(c[0] == "bin" and c[1] == "Eq" and tr and "vtree_index" in show(c) for c, tr in facts)
                prime_false = any(mir.is_call(c, "is_prime_index") and not tr for c, tr in facts)
                if keep and prime_false:
                    errs.append("the operands keep their order although a is not on the prime side of b")
                if not keep and (prime_true or eq_true):
                    errs.append("the operands are swapped although a already has the smaller vtree index")
    out.append(inst("SA", "%s:SA2:normalise" % fn.npath, VIOLATION if errs else OK, fn, None,
                    "; ".join(errs) if errs else "(A, B) = (a, b) if index(a) == index(b) or a is prime-side of b, else (b, a)"))
    lca_t = strip(c0.args[3])
    va = ("call", "vtree_index", A)
    def is_vi(t, X):
        t = strip(t)
        if mir.is_call(t, "vtree_index") and strip(t[2][-1]) == X:
            return True
        # index(join of operands) written as join of index(operand): the same join, alternative by alternative
        if t[0] == "phi" and X[0] == "phi" and t[1] == X[1] and len(t[2]) == len(X[2]):
            return all(p1 == p2 and mir.is_call(strip(v1), "vtree_index") and strip(strip(v1)[2][-1]) == strip(v2)
                       for (p1, v1), (p2, v2) in zip(t[2], X[2]))
        return False
    def fact_eq(cs, x_is, y_is, truth):
        for c, val_, _, d in te.facts_at(cs.bb):
            c = strip(c)
            if c[0] == "bin" and c[1] == "Eq" and ((val_ != "0") == truth):
                l, r = strip(c[2]), strip(c[3])
                if (x_is(l) and y_is(r)) or (x_is(r) and y_is(l)):
                    return True
        return False
    is_lca = lambda t: strip(t) == lca_t
    table = [
        ("and_cartesian", [A, B, lca_t], lambda cs: fact_eq(cs, lambda t: is_vi(t, A), lambda t: is_vi(t, B), True), "index(A) == index(B)"),
        ("and_sub_desc", [A, B], lambda cs: fact_eq(cs, is_lca, lambda t: is_vi(t, A), True), "lca == index(A)"),
        ("and_prime_desc", [B, A], lambda cs: fact_eq(cs, is_lca, lambda t: is_vi(t, B), True), "lca == index(B)"),
        ("and_indep", [A, B, lca_t], lambda cs: fact_eq(cs, is_lca, lambda t: is_vi(t, A), False) and fact_eq(cs, is_lca, lambda t: is_vi(t, B), False), "lca is neither"),
    ]
    if not (mir.is_call(lca_t, "lca") and is_vi(lca_t[2][-2], A) and is_vi(lca_t[2][-1], B)):
        out.append(inst("SA", "%s:SA2:lca" % fn.npath, VIOLATION if shape_known else UNDECIDED, fn, None, "lca is not lca(index(A), index(B)): %s" % show(lca_t)[:80]))
    else:
        out.append(inst("SA", "%s:SA2:lca" % fn.npath, OK, fn, None, "lca = lca(index(A), index(B))"))
    for name, want_args, guard, desc in table:
        cs = calls[name]
        errs = []
        got = [strip(x) for x in cs.args[1:]]
        if got != want_args:
            errs.append("%s is called with (%s)" % (name, ", ".join(show(x)[-28:] for x in got)))
        if not guard(cs):
            errs.append("%s is not reached under `%s`" % (name, desc))
        out.append(inst("SA", "%s:SA2:%s" % (fn.npath, name), (VIOLATION if shape_known else UNDECIDED) if errs else OK, fn, cs.line,
                        "; ".join(errs) if errs else "%s ↦ %s" % (desc, name)))
    return out
