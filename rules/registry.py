"""Rule registry and the property -> rules map (DESIGN.md §3/§4)."""
from . import wf

RULES = {
    "WF": {"run": wf.run, "needs": ["ffi"]},
}

PROPS = {
    "C18": {
        "level": "proof",
        "rules": [("WF", 66)],
        "explanation": "Wrapper faithfulness of all 65 #[no_mangle] extern \"C\" exports: the value each wrapper "
                       "returns (or the one effect call it makes), reconstructed from its MIR as a term over its "
                       "parameters with marshalling stripped, equals the native operation and argument "
                       "correspondence frozen in the WF table; marshalling copies are bounded by min(len, cap). "
                       "Decides that the wrapper returns what the native operation returns for the same arguments; "
                       "does not decide anything about the native operations themselves.",
        "assumptions": ["the WF table (rules/wf.py) states the intended native operation of each export",
                        "Box/pointer casts and robdd_builder_from_ptr are value-preserving marshalling"],
    },
}
