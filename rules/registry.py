"""Rule registry and the property -> rules map (DESIGN.md §3/§4).

PROPS[pid]["rules"] = [(rule id, floor of decided instances, selector over instances or None)].
Floors are the numbers counted on the tree the rules were written against: a rule that suddenly
matches fewer sites is a broken check (exit 2), never a silent pass.
"""
from . import tr, di, ug, em, wt, mf, lp, wc, mk, nc, lt, td, pm, hs, ws, tf, ec, se, bb, lc, cm, vt, bt, sr, le, wf, dp, dt, he, gl, ts, ee, sl, wp, fs, ic, nb, im, rn, mp, sp, ms, cp, sh, st, rh, vo, wi, law, cn, pr, dtr, sa, vx, fd, uv, tx, df, dn, pa, ul, bs


def _k(r):
    """the instance key, together with its spelling under the panicking face of a checked worker (`X::try_f` is `X::f`)"""
    k = r["key"]
    return k + " " + k.replace("::try_", "::") if "::try_" in k else k


def has(*subs):
    return lambda r: any(s in _k(r) for s in subs)


def hasnot(*subs):
    return lambda r: not any(s in _k(r) for s in subs)


def vo_sel(*mods, only_label_order=False):
    """VO instances for a property: the index-space instances (unless only_label_order) plus the label-order
    instances of the named modules (and the zero-count control instance)"""
    def sel(r):
        k = r["key"]
        if "label-order" in k:
            return "none-outside" in k or any(m in k for m in mods)
        return not only_label_order and "::sdd::" not in k and ("force_order" not in k or "force_order" in mods)
    return sel


RULES = {
    "LP": {"run": lp.run},
    "UG": {"run": ug.run},
    "UL": {"run": ul.run},
    "BS": {"run": bs.run},
    "DI": {"run": di.run},
    "TR": {"run": tr.run},
    "EM": {"run": em.run},
    "WT": {"run": wt.run},
    "MF": {"run": mf.run},
    "WF": {"run": wf.run, "needs": ["ffi"]},
    "DP": {"run": dp.run},
    "DT": {"run": dt.run},
    "HE": {"run": he.run},
    "GL": {"run": gl.run},
    "TS": {"run": ts.run},
    "EE": {"run": ee.run},
    "SL": {"run": sl.run, "needs": ["ffi", "cli"]},
    "WP": {"run": wp.run},
    "FS": {"run": fs.run},
    "IC": {"run": ic.run},
    "NB": {"run": nb.run},
    "IM": {"run": im.run},
    "RN": {"run": rn.run},
    "MP": {"run": mp.run, "needs": ["cli"]},
    "SP": {"run": sp.run},
    "MS": {"run": ms.run},
    "CP": {"run": cp.run},
    "SH": {"run": sh.run},
    "ST": {"run": st.run},
    "RH": {"run": rh.run},
    "VO": {"run": vo.run},
    "WI": {"run": wi.run},
    "LAW": {"run": law.run},
    "CN": {"run": cn.run},
    "PR": {"run": pr.run},
    "DTR": {"run": dtr.run},
    "SA": {"run": sa.run},
    "VX": {"run": vx.run},
    "LT": {"run": lt.run},
    "TD": {"run": td.run},
    "PM": {"run": pm.run},
    "HS": {"run": hs.run},
    "WS": {"run": ws.run},
    "TF": {"run": tf.run},
    "EC": {"run": ec.run},
    "SE": {"run": se.run},
    "BB": {"run": bb.run},
    "LC": {"run": lc.run},
    "CM": {"run": cm.run},
    "VT": {"run": vt.run},
    "BT": {"run": bt.run},
    "SR": {"run": sr.run},
    "LE": {"run": le.run},
    "NC": {"run": nc.run},
    "MK": {"run": mk.run},
    "WC": {"run": wc.run},
    "FD": {"run": fd.run},
    "UV": {"run": uv.run},
    "TX": {"run": tx.run},
    "DF": {"run": df.run},
    "DN": {"run": dn.run},
    "PA": {"run": pa.run},
}

BDD_T = ("BddNode", "BddPtr")
SDD_T = ("BinarySDD", "SddOr", "SddAnd", "SddPtr")

PROPS = {
    "C01": {
        "level": "other",
        "rules": [("WC", 0, has("bdd-edges")), ("PA", 1, None), ("DI", 0, None), ("DF", 1, has("VarOrder", "label-tables")), ("CP", 19, has("builder::bdd::", "repr::bdd::BddPtr", "cache::all_app", "cache::lru_app")),
                  ("IM", 14, has("IM2", "IM3")), ("HE", 2, has("BddNode:scratch", "BddNode:fields")),
                  ("DT", 7, has("BddPtr", "BottomUpBuilder::or:", "BottomUpBuilder::compose:")),
                  ("FS", 2, has("or_lst", "and_lst")), ("ST", 2, None), ("GL", 1, has("GL6")), ("VO", 14, vo_sel("::bdd::", "var_order")),
                  ("GL", 11, has(":GL1:", ":GL2:", "ite_helper:GL4", ":GL5:", ":GL8:", ":GL13:", "ite_helper:GL11")),
                  ("PM", 2, has("::set:", "assignment_iter")),
                  ("SH", 6, has("RobddBuilder", "BottomUpBuilder<repr::bdd::BddPtr> for T>::var")),
                  ("MK", 1, has("::bdd::")), ("WC", 4, has("bdd-node"))],
        "explanation": "Six structural clauses of BDD operation correctness. (e) the standard-triple normalisation Ite::new "
                       "preserves ite(f,g,h) on every path for every truth assignment (ST: exhaustive abstract interpretation over "
                       "the 8-value pointer domain); (f) the Shannon node is node(top, ite of false-cofactors, ite of "
                       "true-cofactors), conditioning selects high for true, literals are node(l,F,T) (SH). (a) complement-edge coherence: parity "
                       "abstraction (CP) of condition_essential, cond_with_alloc incl. its per-call memo, smooth_helper, the "
                       "BddPtr accessors/neg/is_neg against their contracts, and the two ITE-cache adapters; (b) history "
                       "immunity: no &mut / store / transmute reaches an interned node, unsafe = RefCell::as_ptr only, arena "
                       "only new+alloc (IM2, IM3), node fields Freeze except the two private cells (HE); (c) derived operators "
                       "and/iff/xor/exists/negate/or/compose evaluate to their names' truth tables (DT); (d) list operations "
                       "are seeded with the neutral element (FS). Not decided: Shannon expansion, the standard-triple "
                       "rewriting in Ite::new, order handling — most of the property. Added: the apply cache cannot change a result (Lru get/insert/grow keep key, value and hash together, the BDD ite cache uses one key and one hash: GL1, GL2, GL4, GL5); label numbering never decides an ordering question (VO label-order). Added after the fourth seeding round: every function that looks a pointer up in a pointer-valued memo, returns the hit and inserts into the same memo applies the argument's sign the same way going in and coming out (MK1: hit returned as neg^r(X) means stored V and returned R on a miss satisfy R = neg^r(V), for each sign), and a memo entry shared by a node and its complement without sign adjustment is only allowed for a function that never returns its argument itself (MK2). Today's only instance is cond_with_alloc; the rule ranges over all functions, so a memo added to another traversal is checked too. Added: WC bdd-node — only var, ite_helper, cond_with_alloc and smooth_helper hand nodes to the BDD unique table: they are what establishes the variable order of an interned node, and a mis-ordered node makes later conditioning/quantification wrong. Added (round 9): DF - a label-indexed table (order positions, weights, watch lists, occurrence lists, vtree index) has no default entry: a checked lookup `get(label)` may refuse, but its missing case may not be papered over with a made-up entry shared by every unknown label (defaulting combinators; a `None` edge that reaches a normal return). Added (round 10): DI - a field initialised with a function of a sibling field (eagerly derived) is stored again by every method that changes the sibling, also through interior mutability; PA - a call that opens a scope (enter/begin/open/...) whose counterpart exists in the crate is followed by the counterpart on every path to a return. FS empty-list: or_lst / and_lst written through a combining helper give the neutral element for the empty list. SH6: condition_model may pass a literal over only when the diagram is constant or the variable is strictly before the root. Added (round 10, second half): GL13 - a key an ITE table computes from the triple (operands re-oriented to merge the entries of a commutative connective) denotes the same function as the triple under the very conditions of the rewriting: ite(f,g,false) may be re-oriented, ite(f,g,true) may not.",
    },
    "C03": {
        "level": "other",
        "rules": [("PA", 1, None), ("DI", 0, None), ("DF", 1, has("VTreeManager", "label-tables")), ("TR", 0, has("repr::sdd", "builder::sdd")), ("CP", 28, has("builder::sdd::", "repr::sdd::SddPtr", "cache::all_app::AllIteTable:compl-flag")), ("DT", 7, has("SddPtr", "BottomUpBuilder::or:", "BottomUpBuilder::compose:")),
                  ("IM", 14, has("IM2", "IM3")), ("HE", 4, has("BinarySDD:scratch", "SddOr:scratch", "BinarySDD:fields", "SddOr:fields")),
                  ("ST", 2, None), ("SH", 1, has("SddPtr> for T>::condition")), ("SA", 10, None), ("VX", 11, None),
                  ("VO", 1, vo_sel("::sdd::", only_label_order=True)),
                  ("GL", 13, has(":GL1:", ":GL2:", "SddPtr> for T>::ite:GL4", "SddPtr> for T>::and:GL4", "AllIteTable:GL8", "AllIteTable:GL13", ":GL10:", "SddPtr> for T>::ite:GL11", "SddPtr> for T>::and:GL11")),
                  ("BT", 9, None), ("MK", 0, has("::sdd::")), ("WC", 4, has("sdd-")), ("WC", 6, has("sdd-node")), ("CM", 8, None), ("RN", 3, has("exhaustive-primes"))],
        "explanation": "Complement coherence of every place the SDD code touches subs/children of a possibly complemented node "
                       "(and_sub_desc, and_prime_desc, and_cartesian, condition, SddPtr::{low,high,neg,is_neg}): operands of "
                       "and/ite/..., elements of result nodes and traversal recursion denote the same thing for a regular and "
                       "a complemented pointer; primes are never sign-dependent (CP). Derived operators ite/iff/xor/exists/"
                       "negate/or/compose match their truth tables (DT); the standard-triple normalisation used by the SDD ite preserves "
                       "ite(f,g,h) (ST); a literal conditioned on its own variable is True iff polarity == value (SH). History immunity (IM, HE). Not decided: the vtree "
                       "case analysis of and, cartesian-product shortcuts, conditioning's element recursion. Added: no ordering comparison of variable labels in SDD code - vtree positions decide (VO label-order); every implementor's compose satisfies the documented definition with g allowed to mention the variable (DT on overrides); the SDD ite/and caches use one key and one hash and the Lru keeps key/value/hash together (GL1, GL2, GL4). Added after the fourth seeding round: every function that looks a pointer up in a pointer-valued memo, returns the hit and inserts into the same memo applies the argument's sign the same way going in and coming out (MK1: hit returned as neg^r(X) means stored V and returned R on a miss satisfy R = neg^r(V), for each sign), and a memo entry shared by a node and its complement without sign adjustment is only allowed for a function that never returns its argument itself (MK2). There is no such memo in the SDD code today (floor 0); the rule ranges over all functions, so one that is added is checked. Ownership (WC sdd caches): the apply cache is keyed by the operands of a conjunction and the ite cache by a standard triple; neither key names the operation, so app_cache_* is used by `and` only and ite_cache_* by `ite` only (or by private helpers of those). A second operation filed under such keys is reported. Added: WC sdd-node — SDD decision nodes are built (unique_bdd / unique_or / canonicalize) only by the four and_* cases and condition, or by private helpers called only from those: they are what establishes that primes live under the left and subs under the right child of the node's vtree position; the constructors intern whatever they are handed. Added: CM — compression merges two elements only on equal subs and keeps the disjunction of *both* primes in the element that stays (a lost prime changes the function, not just the shape); RN3 exhaustive-primes — an operation leaves an element out only because its prime is empty, never on a test of its sub. Added (round 9): DF - a label-indexed table (order positions, weights, watch lists, occurrence lists, vtree index) has no default entry: a checked lookup `get(label)` may refuse, but its missing case may not be papered over with a made-up entry shared by every unknown label (defaulting combinators; a `None` edge that reaches a normal return). SH2 binary-case: a direct conditioning of a binary SDD node returns high(f) for value=true and low(f) for value=false for both signs (the accessors already apply the complement); the complement flag of the shared ITE tables (CP compl-flag) is part of this check because the SDD ite files its results there. Added (round 10): DI - a field initialised with a function of a sibling field (eagerly derived) is stored again by every method that changes the sibling, also through interior mutability; PA - a call that opens a scope (enter/begin/open/...) whose counterpart exists in the crate is followed by the counterpart on every path to a return. Added (round 10, second half): GL13 (see C01).",
    },
    "C06": {
        "level": "other",
        "rules": [("PA", 1, None), ("UL", 0, None), ("BS", 0, None), ("DN", 1, None), ("DI", 0, None), ("WC", 2, has("watch-tables")), ("DF", 1, has("UnitPropagate", "VarOrder", "label-tables")), ("CP", 4, has("decision_nnf::")), ("TS", 7, has("TS-BAL")), ("DP", 3, has("topdown")),
                  ("GL", 3, has("component-cache", "topdown_h:GL11")), ("SP", 10, has("SP1")),
                  ("GL", 1, has("GL3:return-found")), ("RH", 1, has("grow:rehome")),
                  ("SH", 6, has("decision_nnf::")), ("RN", 3, has("RN4")),
                  ("WP", 4, has("update_hash_and_sat_set")), ("PR", 1, has("SATSolver")),
                  ("TD", 4, None), ("VO", 1, vo_sel("decision_nnf", only_label_order=True)),
                  ("EC", 4, None), ("LP", 6, None), ("MK", 0, None), ("VO", 4, has("level-arg")), ("UG", 1, None), ("EM", 2, has("unit_prop"))],
        "explanation": "Conditioning of a possibly complemented d-DNNF pointer is sign-coherent (CP on cond_helper: return "
                       "contract, node-constructor parity, comparison parity); decide/pop balance on every path of topdown_h "
                       "(TS-BAL: one pop after SAT/Unknown, none after UNSAT, none before the first decide); UNSAT and an "
                       "initially unsatisfiable CNF map to the false constant (DP); one residual-hash key for cache lookup and "
                       "insert, taken before the level's decisions (GL4); no public function leaves scratch set (SP1). Not "
                       "decided: soundness of component caching by residual hash, that models are exactly the CNF's, "
                       "path-wise decomposability. Added: each branch conjoins all of difference_iter except the decided variable (TD); the solver constructor treats an empty clause as a conflict, a unit clause as one queued literal and a longer clause as two watches (EC); no label-order comparison in the top-down builder (VO label-order). Added: LP — the bit-field packing of Literal (known-bits/provenance analysis of the generated accessors): the label and polarity fields do not overlap, each setter writes exactly what its getter reads, label(new(l,p)) = l and polarity(new(l,p)) = p, and negated/implies_true/implies_false equal their definitions by truth table. Added: MK — any memo over signed pointers (a composite key with a pointer component included) applies the sign symmetrically on lookup and insert; VO level-arg — every `level` argument of the top-down recursion is a level of the variable order (a constant start, level + 1), never an index found in label space. Added: UG — an assignment made during unit propagation is made to an unassigned variable: every PartialModel::set(label(l), _) is dominated by get(label(l)) == None for the same literal, or l is a parameter and every call site passes a literal guarded that way or drawn from the clause's unassigned literals. Added: EM — the solver the top-down compiler starts from copes with an empty clause and with the empty formula. Added (round 9): DF - a label-indexed table (order positions, weights, watch lists, occurrence lists, vtree index) has no default entry: a checked lookup `get(label)` may refuse, but its missing case may not be papered over with a made-up entry shared by every unknown label (defaulting combinators; a `None` edge that reaches a normal return). WC watch-tables: only the propagation (UnitPropagate::new / decide and their private helpers) reads the watch tables - under two-literal watching `not watched` does not mean `unconstrained`, so an accessor that lets the compiler ask them is reported. Added (round 10): DI - a field initialised with a function of a sibling field (eagerly derived) is stored again by every method that changes the sibling, also through interior mutability; PA - a call that opens a scope (enter/begin/open/...) whose counterpart exists in the crate is followed by the counterpart on every path to a return. DN - conditioning a decision-DNNF has no order-based cut-off (the diagram is not ordered: implied literals sit above earlier variables). UG - a reachable entry point that assigns its literal without asking the model is reported.",
    },
    "C07": {
        "level": "other",
        "rules": [("WC", 0, has("bdd-edges")), ("WC", 4, has("hash-memo")), ("PA", 1, None), ("DF", 1, has("WmcParams", "label-tables")), ("DI", 0, None), ("DP", 8, has("unsmoothed_wmc", "evaluate")), ("CP", 8, has("fold", "bdd_fold_h", "BddPtr::low", "BddPtr::high")),
                  ("MS", 13, None), ("FS", 6, has("fold", "wmc", "assignment_weight", "bb_ub", "marginal_map")),
                  ("SH", 3, has("SH5")), ("LAW", 55, None), ("LT", 1, has("WmcParams")),
                  ("SP", 14, has("SP1", "SP2")), ("NB", 33, None), ("WT", 5, hasnot("from_litvec")), ("IC", 1, has("repr::wmc::")), ("WC", 4, has("bdd-node")), ("VO", 1, vo_sel("builder::bdd", only_label_order=True))],
        "explanation": "The generic count is the homomorphism Or->+, And->*, True->1, False->0, Lit->weight by polarity, and "
                       "evaluate encodes an assignment as (low=!b, high=b) (DP); the folds hand effective children to the "
                       "callback/recursion (CP on BddPtr::fold, bdd_fold_h, SddPtr::fold); the dual-polarity memo is written and "
                       "read in the slot of the pointer's own polarity (MS); accumulators are seeded with the semiring "
                       "identities (FS). Not decided: the numeric identity itself, order/vtree independence. Added: WmcParams.var_to_val, a table indexed by label, is only grown by push and updated through index_mut (LT). Added: WT — the weight table is filled and read entry-for-entry: WmcParams::new stores each key's own value, set_weight(l, low, high) stores (low, high) at l and pads with None exactly while the index is out of range, var_weight reads its label's entry, assignment_weight takes .1 for a true and .0 for a false literal of the literal's own label. Added: IC — the weight table, indexed by label, is sized by a label bound (largest label + 1), not by the number of entries of the map it is built from (defect D10, repaired). Added: counting assumes an ordered diagram (each variable at most once per path): only the operations that establish the order intern BDD nodes (WC bdd-node) and none of them orders variables by label (VO label-order) Added (round 9): DF - a label-indexed table (order positions, weights, watch lists, occurrence lists, vtree index) has no default entry: a checked lookup `get(label)` may refuse, but its missing case may not be papered over with a made-up entry shared by every unknown label (defaulting combinators; a `None` edge that reaches a normal return). MS derived-read: the fold never returns a value computed from the other polarity's memo entry (no function of f's value gives the value of not-f for every value type and weight). Added (round 10): DI - a field initialised with a function of a sibling field (eagerly derived) is stored again by every method that changes the sibling, also through interior mutability; PA - a call that opens a scope (enter/begin/open/...) whose counterpart exists in the crate is followed by the counterpart on every path to a return. LAW mul-pairs-complete: the polynomial product's loop bounds and guards, evaluated for concrete lengths, run the write for exactly the pairs i<len1, j<len2, i+j<MAX_COEFFS. WC hash-memo: the pure query semantic_hash does not go through the per-node cell.",
    },
    "C08": {
        "level": "other",
        "rules": [("PA", 1, None), ("VO", 3, has("iter-elements")), ("GL", 1, lambda r: "::bdd::" in r["key"] and (":GL9:" in r["key"] or ":GL6:" in r["key"] or ":GL12:" in r["key"])), ("DF", 1, has("WmcParams", "VarOrder", "label-tables")), ("DI", 0, None), ("SL", 7, None), ("CP", 2, has("smooth_helper")), ("VO", 3, has("var_at_level", "new_last", "VarOrder::new:inverse-by-construction")), ("LAW", 55, None), ("IC", 1, has("repr::wmc::")), ("LT", 1, has("WmcParams")), ("WT", 5, hasnot("from_litvec")), ("NB", 33, None),
                  ("SP", 14, has("SP1", "SP2")), ("MS", 13, None), ("SH", 1, has("BddPtr as repr::ddnnf::DDNNFPtr>::fold:SH5"))],
        "explanation": "Level bookkeeping of smooth_helper: every node built is labelled with var_at_level(current) or with a "
                       "node variable that a dominating test equates with it, children recurse one level down, smooth starts "
                       "at level 0 (SL); the complemented arm is sign-coherent (CP); callers count on smooth(_, num_vars) "
                       "(SL2). Not decided: equality of the count with the brute-force sum. Added: IC — the weight table, indexed by label, is sized by a label bound (largest label + 1), not by the number of entries of the map it is built from (defect D10, repaired). Added: LT/WT — the weight table the count of the smoothed diagram reads keeps its label indexing (growth only: a resize is guarded by, or takes the maximum with, the current length) and is filled and read entry-for-entry. Added: NB — finite-field weights stay inside u128 for every exported prime and, since the type is generic in its modulus, for every modulus its own addition supports (P <= 2^127), loop bodies and left shifts included. Added after the seventh seeding round: the count taken on the smoothed diagram is a fold over per-node memos, so the traversal discipline it rests on is part of this check — what the fold descends below is marked, so the clearing walk that stops at an unmarked node is complete (SP1, SP2), the two-polarity memo is read and written in the slot of the pointer's own polarity (MS), the literal weights are paired with the matching children (SH5): a second count of a smoothed diagram with other weights must not see the first one's values. Added (round 9): DF - a label-indexed table (order positions, weights, watch lists, occurrence lists, vtree index) has no default entry: a checked lookup `get(label)` may refuse, but its missing case may not be papered over with a made-up entry shared by every unknown label (defaulting combinators; a `None` edge that reaches a normal return). GL6/GL9 of the BDD code are part of this check: a memo on the smoothing path is fresh per call or keyed by everything the result depends on (level *and* width). Added (round 10): DI - a field initialised with a function of a sibling field (eagerly derived) is stored again by every method that changes the sibling, also through interior mutability; PA - a call that opens a scope (enter/begin/open/...) whose counterpart exists in the crate is followed by the counterpart on every path to a return. Added (round 10, second half): GL12 - a table of don't-care chains kept in the builder and indexed by the number of levels left is stale for another total; SL4 - the levels below a constant are counted from the caller's bound, not from the size of the order.",
    },
    "C10": {
        "level": "proof",
        "rules": [("PA", 1, None), ("WC", 4, has("hash-memo")), ("TR", 0, has("semantic_hash")), ("DI", 0, None), ("SP", 17, None), ("IM", 9, has("IM5")), ("HE", 3, has("scratch-private")), ("HE", 3, has(":fields")), ("GL", 8, has("GL6", "GL9", "GL12")),
                  ("DP", 2, has("unsmoothed_wmc:fold", "evaluate:via-count"))],
        "explanation": "Structural proof of 'every per-node scratch slot is empty again when a public call returns', for all "
                       "call sequences: the only per-node mutable state is the two private RefCell fields (HE), the scratch "
                       "cell is written only by set_scratch/clear_scratch and semantic_hash only by cached_semantic_hash (IM5); "
                       "no externally reachable function is leaky (SP1, interprocedural must-pass-through over the call "
                       "graph); what a BDD traversal descends below is marked, so the short-circuiting clear is complete "
                       "(SP2); memo read/write types agree (SP3). Trusted: unwinding ignored (a panicking user callback leaves "
                       "scratch set). Not decided: which answer is returned. Added: should an SDD clear_scratch start to short-circuit on its own slot, every SDD traversal must mark each node it descends from (SP2 extended; today the SDD clear descends unconditionally). Added after the fourth seeding round: the count and evaluate are *exactly* a fold of the diagram with a callback that reads only the weights (DP unsmoothed_wmc:fold, evaluate:via-count) — a count that first consults any other state (a last-result memo in the weight object) is not that term.",
        "assumptions": ["panics/unwinding are not modelled", "call-graph resolution by rustc Instance::try_resolve; generic trait calls dispatch to all local impls Added (round 9): WC hash-memo - the per-node hash cell behind cached_semantic_hash is keyed by nothing, so only its owners (the hash-identified builders with their one map, and the memoised recursion) may go through it; the pure query semantic_hash must not. Added (round 10): DI - a field initialised with a function of a sibling field (eagerly derived) is stored again by every method that changes the sibling, also through interior mutability; PA - a call that opens a scope (enter/begin/open/...) whose counterpart exists in the crate is followed by the counterpart on every path to a return."],
    },
    "C11": {
        "level": "other",
        "rules": [("PA", 1, None), ("GL", 1, has("component-cache")), ("DN", 1, None), ("DI", 0, None), ("WC", 4, has("hash-memo")), ("DF", 1, has("WmcParams", "label-tables")), ("TR", 0, has("semantic", "backing_store")), ("CM", 3, has("compress:CM")), ("CP", 4, has("cached_semantic_hash:sign", "check_cached_hash_and_neg")), ("IM", 3, has("IM5:semantic_hash")),
                  ("NB", 33, None), ("IC", 4, has("create_semantic_hash_map")), ("GL", 6, has("GL7", "GL3:return-found")), ("WC", 2, has("sdd-apply-cache")), ("RH", 1, has("grow:rehome")),
                  ("CP", 3, has("decision_nnf::builder::DecisionNNFBuilder::cond_helper")), ("SE", 11, None), ("WC", 6, has("sdd-node"))],
        "explanation": "Hash values follow the pointer's sign (complemented -> negate(hash of the regular pointer)) and a node "
                       "found under the negated hash is returned complemented, in both semantic builders (CP-hash); the per-node "
                       "hash cache has one writer (IM5); field arithmetic stays in range for every exported prime (NB); hash "
                       "maps are sized by variable counts (IC). Not decided: that the hash is determined by the function "
                       "(an algebraic identity over a random point), collision freedom, correctness of the semantic builders. Added: a hash hit is returned exactly as found and the semantic SDD builder decides equality by hashes on every path (SE1, SE2). Added after the fourth seeding round: the unique table compares the *whole* stored hash with the requested one before it returns a stored node (GL3 return-found); in by-hash mode that comparison is the only identity test the semantic builders have. Ownership (WC sdd caches): the apply cache is keyed by the operands of a conjunction and the ite cache by a standard triple; neither key names the operation, so app_cache_* is used by `and` only and ite_cache_* by `ite` only (or by private helpers of those). A second operation filed under such keys is reported. Added: WC sdd-node — the hash-identified SDD builder returns correct diagrams for quantification and conditioning only if decision nodes are built by the operations that establish which vtree side primes and subs live on. Added (round 9): DF - a label-indexed table (order positions, weights, watch lists, occurrence lists, vtree index) has no default entry: a checked lookup `get(label)` may refuse, but its missing case may not be papered over with a made-up entry shared by every unknown label (defaulting combinators; a `None` edge that reaches a normal return). WC hash-memo (see C10). Added (round 10): DI - a field initialised with a function of a sibling field (eagerly derived) is stored again by every method that changes the sibling, also through interior mutability; PA - a call that opens a scope (enter/begin/open/...) whose counterpart exists in the crate is followed by the counterpart on every path to a return. DN (see C06); GL4 - the component cache is per compilation.",
    },
    "C02": {
        "level": "other",
        "rules": [("PA", 1, None), ("DI", 0, None), ("DF", 1, has("VarOrder", "label-tables")), ("GL", 4, has("GL3", "GL2:slot-write", "GL2:grow")), ("TS", 2, has("TS-OCC")), ("HE", 4, has(*BDD_T)),
                  ("SH", 1, has("ite_helper:SH1")), ("WC", 4, has("bdd-node")),
                  ("RN", 4, has("RN1", "RN2")), ("IM", 37, has("IM3", "IM4", "IM2")), ("RH", 14, None),
                  ("VO", 14, vo_sel("::bdd::", "var_order")), ("ST", 2, None)],
        "explanation": "Structural necessary conditions of ROBDD canonicity: the unique table returns a stored node only "
                       "for an equal request (hash equal AND (by-hash OR structural equality), GL3) and must be able to "
                       "find every stored node (only occupied elements are re-inserted, re-homed with probe length 0, "
                       "TS-OCC); BddNode Hash/Eq read exactly the Freeze fields and BddPtr compares by address (HE); "
                       "logical operations reduce (low == high returns the child) and normalise the high edge before "
                       "interning (RN1, RN2); nodes enter only through the table and pointer variants are built only from "
                       "table results or existing nodes (IM3, IM4). Not decided: the iff between pointer and function "
                       "equality in general, order-respect on every path, robin-hood probe-length arithmetic. Added: the standard-triple normalisation denotes ite(f,g,h) on all 8-valuation paths (ST) - a wrong triple makes results of one function differ; BddNode's Ord pairs the structural fields (HE ord-fields). Added after the fourth seeding round: ite_helper splits on first_essential(f,g,h) — the earliest top variable of all three operands — and builds the node from the cofactors on that variable (SH1); the LRU apply cache writes key, value and hash of a slot together and re-inserts whole elements on growth (GL2), so an eviction cannot leave a key paired with another key's value. Ownership (WC bdd-node): BddBuilder::get_or_insert interns whatever it is handed; that a node respects the variable order is established only by its callers - var, ite_helper, cond_with_alloc, smooth_helper (or private helpers called only from them). Any other caller is reported: it would have to bring its own ordering argument. Added (round 9): DF - a label-indexed table (order positions, weights, watch lists, occurrence lists, vtree index) has no default entry: a checked lookup `get(label)` may refuse, but its missing case may not be papered over with a made-up entry shared by every unknown label (defaulting combinators; a `None` edge that reaches a normal return). RH also checks the probe length the evicted resident continues with (propagate's seed against its call sites) and propagate's first probed slot against the home slots grow hands in. Added (round 10): DI - a field initialised with a function of a sibling field (eagerly derived) is stored again by every method that changes the sibling, also through interior mutability; PA - a call that opens a scope (enter/begin/open/...) whose counterpart exists in the crate is followed by the counterpart on every path to a return. Added (round 10, second half): DI eager, arithmetic form and the masked home slot (see C04).",
    },
    "C04": {
        "level": "other",
        "rules": [("PA", 1, None), ("DI", 0, None), ("DF", 1, has("VTreeManager", "label-tables")), ("RN", 8, has("RN3")), ("HE", 7, has(*SDD_T)), ("GL", 2, has("GL3")), ("TS", 2, has("TS-OCC")),
                  ("IM", 22, has("IM4")), ("RH", 14, None), ("CM", 8, None), ("WC", 6, has("sdd-node"))],
        "explanation": "Order of SDD canonicalisation steps on every path to the unique tables (trim, compress, trim, sort, "
                       "sign-normalise, intern: RN3), Hash/Eq agreement of BinarySDD/SddOr/SddAnd and identity Hash/Eq of "
                       "SddPtr (HE), the shared unique-table rules (GL3, TS-OCC), nodes enter only through the tables (IM4). "
                       "Not decided: that primes form a partition, stay on their vtree side, that no smaller equivalent "
                       "exists — semantic facts about run-time element lists. Added: the hand-written Ord of BinarySDD/SddOr/SddAnd (the sort key of unique_or) pairs self.F with other.F for exactly the structural fields (HE ord-fields); only canonicalize implementations and and_indep may call unique_or, which neither trims nor compresses (RN3 unique_or-caller). Added: WC sdd-node — SDD decision nodes are built (unique_bdd / unique_or / canonicalize) only by the four and_* cases and condition, or by private helpers called only from those: they are what establishes that primes live under the left and subs under the right child of the node's vtree position; the constructors intern whatever they are handed. Added (round 9): DF - a label-indexed table (order positions, weights, watch lists, occurrence lists, vtree index) has no default entry: a checked lookup `get(label)` may refuse, but its missing case may not be papered over with a made-up entry shared by every unknown label (defaulting combinators; a `None` edge that reaches a normal return). RH displaced-keeps-length / grow vs propagate's start slot (see C02). Added (round 10): DI - a field initialised with a function of a sibling field (eagerly derived) is stored again by every method that changes the sibling, also through interior mutability; PA - a call that opens a scope (enter/begin/open/...) whose counterpart exists in the crate is followed by the counterpart on every path to a return. Added (round 10, second half): DI eager, arithmetic form - a field initialised by arithmetic on the value a sibling field stores (mask = cap - 1) is stored again by every method that changes the sibling (grow); RH leaves a masked home slot undecided.",
    },
    "C05": {
        "level": "other",
        "rules": [("PA", 1, None), ("DI", 0, None), ("DP", 21, has("compile_logical_expr", "compile_plan", "BottomUpPlan::")),
                  ("FS", 10, has("compile_cnf", "or_lst", "and_lst", "from_dtree", "compile_plan", "compile_logical_expr", "reduce<-")), ("DT", 1, has("BottomUpBuilder::or:")),
                  ("SH", 5, has(":CC:")), ("ST", 2, None), ("GL", 1, has("GL6")),
                  ("CP", 3, has("cond_with_alloc", "condition_essential")), ("LC", 1, has("compile_cnf_with_assignments")),
                  ("LE", 7, None), ("NC", 1, has("DTree::from_cnf")), ("WC", 4, has("bdd-node")), ("PM", 4, has("::set:", "::get:", "assignment_iter", "from_assignments")),
                  ("CN", 1, has("repr::cnf::")), ("VO", 1, has("first_essential")), ("LP", 6, None), ("GL", 1, has("SddPtr> for T>::ite")), ("VO", 1, vo_sel("builder::bdd", only_label_order=True)), ("EM", 3, has("DTree::from_cnf", "Cnf::new", "Cnf::eval"))],
        "explanation": "Every variant of LogicalExpr and BottomUpPlan is compiled by its namesake operation with operands in "
                       "order, a dtree becomes a conjunction of clause disjunctions of the literal's own label and polarity "
                       "with the empty clause false (DP; none of these arms is executed by the test-suite); empty-formula / "
                       "empty-clause / satisfied-literal shortcuts and accumulator seeds of the CNF compilers (FS); the "
                       "default `or` is De Morgan (DT). Not decided: that clause sorting and merge orders preserve the "
                       "function (and is AC, which is C01's business). Added: compile_cnf_with_assignments treats a literal by its status under the assignment only (satisfied: clause becomes true; falsified: dropped; unassigned: disjoined), checked over all (assignment, polarity) cases (LC). Added after the fourth seeding round: DTree::from_cnf turns every clause into a leaf (NC: every iteration of a loop over the items pushes onto its accumulator; an iterator chain from the items to collect() has no filter/skip/take/dedup) - a dropped clause gives the result extra models while everything downstream stays consistent. Ownership (WC bdd-node): BddBuilder::get_or_insert interns whatever it is handed; that a node respects the variable order is established only by its callers - var, ite_helper, cond_with_alloc, smooth_helper (or private helpers called only from them). Any other caller is reported: it would have to bring its own ordering argument. Added: LP — the bit-field packing of Literal (known-bits/provenance analysis of the generated accessors): the label and polarity fields do not overlap, each setter writes exactly what its getter reads, label(new(l,p)) = l and polarity(new(l,p)) = p, and negated/implies_true/implies_false equal their definitions by truth table. Added: the SDD ite that compile_logical_expr goes through stores in its cache what it returns (GL4/GL11), and no BDD-builder function orders variables by their labels (VO label-order; compiling under a partial assignment = compiling and conditioning relies on condition_model's early exits) Added: EM — empty cases by abstract evaluation under the assumption that one collection is empty (loops over it do not run, len = 0, pop/last/next = None): the empty formula and an empty clause through Cnf::new / eval, and the empty formula through DTree::from_cnf — the latter panics in DTree::balanced (known finding, not repaired: a DTree cannot represent 'no clauses'). Added (round 9): PM - the partial model handed to compile_cnf_with_assignments / condition_model keeps its two-set invariant (set clears the opposite polarity). Added (round 10): DI - a field initialised with a function of a sibling field (eagerly derived) is stored again by every method that changes the sibling, also through interior mutability; PA - a call that opens a scope (enter/begin/open/...) whose counterpart exists in the crate is followed by the counterpart on every path to a return.",
    },
    "C09": {
        "level": "other",
        "rules": [("PA", 1, None), ("UL", 0, None), ("BS", 0, None), ("DI", 0, None), ("WC", 2, has("watch-tables")), ("DF", 1, has("UnitPropagate", "label-tables")), ("WP", 14, has("unit_prop")), ("TS", 5, has("TS-STK")), ("WI", 1, None), ("PR", 1, has("SATSolver")),
                  ("LT", 2, has("UnitPropagate")), ("PM", 5, has("::get:", "::unset:", "::is_set:", "::lit_implied:", "::lit_neg_implied:")),
                  ("WS", 20, None), ("TF", 1, None), ("EC", 4, None), ("LC", 1, has("UnitPropagate::decide")), ("LP", 6, None), ("UG", 1, None), ("EM", 2, has("unit_prop"))],
        "explanation": "Every pos/neg watch-list / occurrence-table access in unit_prop.rs is selected by the polarity of "
                       "the same literal that indexes it, insertions go to the literal's own table, reads keyed by one "
                       "literal use one side (WP); SATSolver::decide pushes exactly one state on non-UNSAT paths and none on "
                       "UNSAT, pop pops one, new leaves two (TS-STK) — the structural half of 'pop restores the previous "
                       "state'. Not decided: soundness and fixpoint of propagation in general, the satisfied flag, hash "
                       "injectivity. Added: index spaces of the watch scheme - label / clause index / position in a watch list - are respected at all 32 uses (WS); the tautology filter ranges over all pairs because Literal's packed order is polarity-major (TF); clause-length cases of the constructor (EC); the PartialModel queries agree with the two-set definition (PM); watch tables keep their label indexing (LT). Added: the satisfied-clause scan of decide depends on the literal's status only (LC); the residual-hash update refers to one base state throughout (WP3). Added: LP — the bit-field packing of Literal (known-bits/provenance analysis of the generated accessors): the label and polarity fields do not overlap, each setter writes exactly what its getter reads, label(new(l,p)) = l and polarity(new(l,p)) = p, and negated/implies_true/implies_false equal their definitions by truth table. Added: UG — an assignment made during unit propagation is made to an unassigned variable: every PartialModel::set(label(l), _) is dominated by get(label(l)) == None for the same literal, or l is a parameter and every call site passes a literal guarded that way or drawn from the clause's unassigned literals. Added: EM — UnitPropagate::new on a CNF with an empty clause and SATSolver::new on the empty formula reach no panic, underflow or 0-divisor (abstract evaluation under the emptiness assumption). Added (round 9): DF - a label-indexed table (order positions, weights, watch lists, occurrence lists, vtree index) has no default entry: a checked lookup `get(label)` may refuse, but its missing case may not be papered over with a made-up entry shared by every unknown label (defaulting combinators; a `None` edge that reaches a normal return). UF - a clause the watcher scan finds with exactly one unassigned literal is propagated (recursion or work list) on every path before the scan goes on. WC watch-tables (see C06). Added (round 10): DI - a field initialised with a function of a sibling field (eagerly derived) is stored again by every method that changes the sibling, also through interior mutability; PA - a call that opens a scope (enter/begin/open/...) whose counterpart exists in the crate is followed by the counterpart on every path to a return. UG for reachable entry points (see C06).",
    },
    "C12": {
        "level": "other",
        "rules": [("PA", 1, None), ("DI", 0, None), ("TR", 0, has("repr::bdd::BddPtr")), ("BB", 22, None), ("LAW", 6, has(":join", ":meet", ":choose")), ("LAW", 2, has("RealSemiring:eq-is-value-equality", "ExpectedUtility:eq-is-value-equality")), ("VO", 1, vo_sel("repr::bdd", only_label_order=True)), ("LAW", 5, has("ExpectedUtility:mul", "ExpectedUtility:distrib", "ExpectedUtility:add", "ExpectedUtility:one", "ExpectedUtility:zero")),
                  ("FS", 2, lambda x: "repr::bdd::BddPtr::" in x["key"] and x["key"].endswith("<-Mul")), ("PM", 4, has("::set:", "::get:", "assignment_iter", "shared-model-restored"))],
        "explanation": "Decides the part of 'returns the optimum and an assignment attaining it' that is in the shape of the three "
                       "sibling searches (marginal_map_h, meu_h, bb_h), their bound functions and drivers, checked identically on "
                       "all three (BB1-BB7): value and witness always travel as a pair (leaf, running best, result); the two "
                       "branch models are cur_assgn+(x=true)/(x=false) for the first remaining variable; each order entry pairs a "
                       "model with the bound computed for that model over the remaining variables; recursion continues with the "
                       "running best pair, the remaining variables and the iterated model; a branch is skipped only when its upper "
                       "bound does not exceed a lower bound; the bound's fold follows assigned variables to the matching child, "
                       "relaxes exactly the unassigned query variables by max/join of both sides and sums weight-paired children "
                       "otherwise; assigned query variables are multiplied in with the weight of their polarity; the driver's initial "
                       "lower bound is the value of the very assignment passed as initial best. join/meet/choose return the larger/"
                       "smaller element on comparable values (LAW), accumulators start at one (FS), PartialModel set/get follow the "
                       "two-set definition (PM). NOT decided (and not claimed): that the bound is admissible and the result a true "
                       "optimum for given floating-point weights, MEU's side conditions on utilities and variable order - numerical "
                       "facts about run-time values. Added (round 10, second half): BB3 - a branch bound obtained by dividing by a literal weight is reported (a weight may be 0; NaN compares false with everything and both branches are pruned).",
        "assumptions": ["the weights satisfy the property's stated domain; admissibility of the bound is not analysed Added (round 9): BB7 also covers returns of the drivers that do not come from the search (a shortcut for a constant diagram): the pair must be (value of the assignment, that assignment). Added (round 10): DI - a field initialised with a function of a sibling field (eagerly derived) is stored again by every method that changes the sibling, also through interior mutability; PA - a call that opens a scope (enter/begin/open/...) whose counterpart exists in the crate is followed by the counterpart on every path to a return."],
    },
    "C13": {
        "level": "other",
        "rules": [("PA", 1, None), ("DI", 0, None), ("GL", 0, has(":GL14:")), ("NB", 33, None), ("LAW", 55, None)],
        "explanation": "Interval analysis of FiniteField::{new,negate,add,mul,sub} for each of the 7 exported primes with the "
                       "type invariant v in [0,P-1]: no u128 overflow/underflow (NB); every FiniteField literal is reduced "
                       "(NB-inv); subtraction borrows the modulus (NB-mod); polynomial coefficient writes are bounded by "
                       "MAX_COEFFS (NB-poly). Not decided: associativity, commutativity, distributivity, lattice laws of "
                       "real/complex/Boolean/rational/expected-utility values. Added (round 9): MM - the double-and-add loop of mul_mod keeps the inductive invariant acc + mult*count = a*b (mod P): initial values, one iteration for either value of the low bit (count = 2q+bit, count' = q), exit with count = 0 returning acc - proved as polynomial identities on the loop's terms. Added (round 10): DI - a field initialised with a function of a sibling field (eagerly derived) is stored again by every method that changes the sibling, also through interior mutability; PA - a call that opens a scope (enter/begin/open/...) whose counterpart exists in the crate is followed by the counterpart on every path to a return. LAW mul-pairs-complete (see C07). Added (round 10, second half): GL14 - a static / thread-local memo declared inside the generic mul_mod is one table for every modulus: the compared key must carry P itself (residues modulo P do not). NB evaluates the arms of a join under the branch facts of the block each comes from.",
    },
    "C14": {
        "level": "other",
        "rules": [("PA", 1, None), ("DI", 0, None), ("DF", 1, has("VarOrder", "VTreeManager", "label-tables")), ("IC", 13, hasnot("repr::cnf::Cnf::from_dimacs")), ("VO", 15, vo_sel("var_order", "vtree", "dtree", "force_order")), ("DTR", 5, None), ("VX", 11, None),
                  ("LT", 2, has("VarOrder", "VTreeManager")), ("VT", 5, None), ("BT", 9, None),
                  ("NC", 1, has("DTree::from_cnf")), ("MF", 4, None), ("EM", 4, has("DTree::from_cnf", "force_order", "average_span", "interaction_graph")), ("FD", 2, None)],
        "explanation": "Dimension analysis (Index / Count / OneBased): every function called num_vars returns a count, every "
                       "num_vars field is initialised with a count, label-indexed table sizes are counts (IC). Not decided: "
                       "permutation-ness of heuristic orders, dtree cutsets, LCA / in-order index arithmetic. Added: FORCE re-positions every variable in every round (no element-dropping adaptor in the pipeline: VO force_order); var_to_pos and vtree_index keep their label indexing (LT). Added after the fourth seeding round: DTree::from_cnf turns every clause into a leaf (NC: every iteration of a loop over the items pushes onto its accumulator; an iterator chain from the items to collect() has no filter/skip/take/dedup) - a dropped clause gives the result extra models while everything downstream stays consistent. Added: MF — the min-fill order is a permutation by construction: every iteration of the elimination loop records the stored weight of exactly the node it eliminates (not the node's index, which the graph library re-uses), elimination removes exactly that node, the interaction graph has one node per variable 0..num_vars, and the order is built from the recorded sequence. Added: EM — empty cases by abstract evaluation under the assumption that one collection is empty (loops over it do not run, len = 0, pop/last/next = None): FORCE and min-fill inputs without clauses or with an empty clause (defects D13, repaired), and DTree::from_cnf on the empty formula (known finding). Added (round 9): DF - a label-indexed table (order positions, weights, watch lists, occurrence lists, vtree index) has no default entry: a checked lookup `get(label)` may refuse, but its missing case may not be papered over with a made-up entry shared by every unknown label (defaulting combinators; a `None` edge that reaches a normal return). FD - the vtree derived from a dtree is built, on every return path, from the node's cutset and from each child vtree that exists, each exactly once, and None is returned only when nothing is left; right_linear_c keeps its continuation. VT covers DTree::balanced (the halves tile the list of subtrees). NC leaves-are-clauses ranges over every function of the dtree module. IC: a tally of visited items (leaves) is a number of distinct variables, not a bound on their labels. Added (round 10): DI - a field initialised with a function of a sibling field (eagerly derived) is stored again by every method that changes the sibling, also through interior mutability; PA - a call that opens a scope (enter/begin/open/...) whose counterpart exists in the crate is followed by the counterpart on every path to a return.",
    },
    "C15": {
        "level": "other",
        "rules": [("PA", 1, None), ("UL", 0, None), ("BS", 0, None), ("DI", 0, None), ("DF", 1, has("CnfHasher", "label-tables")), ("EE", 3, None), ("IC", 5, has("repr::cnf::")), ("WP", 1, has("repr::cnf::")),
                  ("FS", 3, has("repr::cnf::", "assignment_weight")), ("CN", 2, None),
                  ("PR", 1, has("CnfHasher")), ("LT", 2, has("CnfHasher")),
                  ("PM", 9, None), ("HS", 5, None), ("LC", 2, has("is_sat_partial", "Cnf::eval", "Cnf::condition")), ("LP", 6, None), ("WT", 1, has("from_litvec")), ("DP", 1, has("from_string:sign")), ("EM", 6, has("repr::cnf::"))],
        "explanation": "Brute-force counting leaves its enumeration loop only when the assignment iterator is exhausted (EE); "
                       "Cnf's variable count is max label + 1 (IC); the residual hasher's pos/neg tables are selected and "
                       "indexed by the same literal (WP); counting accumulators are seeded with zero/one (FS). Not decided: "
                       "agreement of eval / condition / is_sat_partial / the hasher's 'only then' direction with their "
                       "definitions. Added: PartialModel set/unset/get/is_set/lit_implied/lit_neg_implied and its constructors/iterators follow the two-set definition (PM, abstract interpretation over membership pairs); CnfHasher::hash skips a satisfied clause entirely, skips a falsified literal, multiplies an unassigned literal's prime and accumulates every clause product (HS); pos_lits/neg_lits keep their label indexing (LT). Added: Cnf::eval and is_sat_partial mark a clause satisfied exactly for a true literal, Cnf::condition drops the clause for the conditioning literal, drops the literal for its complement and keeps every other literal - each interpreted over all (relation, polarity) cases (LC). Added: LP — the bit-field packing of Literal (known-bits/provenance analysis of the generated accessors): the label and polarity fields do not overlap, each setter writes exactly what its getter reads, label(new(l,p)) = l and polarity(new(l,p)) = p, and negated/implies_true/implies_false equal their definitions by truth table. Added: WT — PartialModel::from_litvec assigns every listed literal's variable that literal's own polarity. Added: DP from_string — the string format writes a literal as a signed label without offset, so it is negative exactly for negative numbers (`0` is the positive literal of variable 0; defect D11, repaired). Added: EM — empty cases by abstract evaluation under the assumption that one collection is empty (loops over it do not run, len = 0, pop/last/next = None): Cnf::new, eval, to_dimacs, interaction_graph, average_span, force_order for the empty formula and for an empty clause. Added (round 9): DF - a label-indexed table (order positions, weights, watch lists, occurrence lists, vtree index) has no default entry: a checked lookup `get(label)` may refuse, but its missing case may not be papered over with a made-up entry shared by every unknown label (defaulting combinators; a `None` edge that reaches a normal return). Added (round 10): DI - a field initialised with a function of a sibling field (eagerly derived) is stored again by every method that changes the sibling, also through interior mutability; PA - a call that opens a scope (enter/begin/open/...) whose counterpart exists in the crate is followed by the counterpart on every path to a return.",
    },
    "C16": {
        "level": "proof",
        "rules": [("PA", 1, None), ("DI", 0, None), ("TR", 0, has("util::lru", "builder::cache", "app_cache", "ite_cache")), ("GL", 26, hasnot("GL3", "component-cache", "GL6", "GL7")), ("CP", 2, has("IteTable:compl-flag")), ("ST", 2, None)],
        "explanation": "Complete structural argument for the first sentence: Lru::get returns Some(e.val) only under the "
                       "true edge of e.key == key (GL1); insert writes one Element{key,val,hash} of its own arguments into "
                       "the slot that get reads, grow re-inserts whole triples (GL2); the adapter's hash is a function of "
                       "(f,g,h) only (GL5); callers use one key and one hash for lookup and insert (GL4). Not decided: the "
                       "consequence for builder results (needs C01). Added: each ITE table files a result under the very key it looks it up by, for both Ite variants (GL8); a persistent memo is keyed by every parameter used (GL9); cache accessors store the result unchanged (GL10); what is stored is what is returned (GL11). Added (round 10): DI - a field initialised with a function of a sibling field (eagerly derived) is stored again by every method that changes the sibling, also through interior mutability; PA - a call that opens a scope (enter/begin/open/...) whose counterpart exists in the crate is followed by the counterpart on every path to a return. CP second-level memo: a remembered hit in front of an ITE table is keyed by, or adjusted for, the complement flag. Added (round 10, second half): GL12 - a table filled on demand in a field of the object is keyed by every parameter its entries are built from; GL13 - a rewritten ITE key denotes the triple; GL14 - a static memo inside a generic function carries the generic constant in its key.",
    },
    "C17": {
        "level": "other",
        "rules": [("PA", 1, None), ("DI", 0, None), ("MP", 1, has("variable-numbering")), ("DP", 12, has("from_sexpr", "VTreeSerializer", "ser_vtree", "from_dimacs", "to_dimacs")), ("IC", 1, has("from_dimacs")),
                  ("CP", 8, has("serialize::")), ("CN", 1, has("repr::cnf::")), ("SR", 3, None), ("LE", 7, None),
                  ("NC", 5, has("from_dimacs", "to_dimacs")), ("SP", 0, has("SP1:serialize", "SP1:ffi::bdd::bdd_to_json")), ("LP", 6, None), ("DP", 1, has("from_string:sign")), ("EM", 3, has("from_dimacs", "to_dimacs")), ("UV", 1, None), ("TX", 2, None)],
        "explanation": "The s-expression translation and the vtree mirror map each variant to its namesake with children in "
                       "order (DP); DIMACS signs map Neg to false and Pos to true in both parsers (DP); the CNF parser "
                       "subtracts one from the 1-based DIMACS variable (IC OneBased -> Index). Not decided: model-level "
                       "equality of parsed formulas; JSON well-formedness (serde). Added: in the s-expression parser every special case of a negated operand still denotes the negation (Not(Not e) may only shortcut to e). Added after the fourth seeding round: the DIMACS readers keep every clause and every literal of the text (NC: every iteration of a loop over the items pushes onto its accumulator; an iterator chain from the items to collect() has no filter/skip/take/dedup) - a dropped clause gives the result extra models while everything downstream stays consistent. The serialisers keep their node-to-row table in a per-call map; should one of them start to use the per-node scratch slot instead, it falls under the leak rule of C10 (SP1: every externally reachable function that sets scratch clears it on every path to return) - row indices that survive a call refer to the previous call's table (floor 0: no such instance today). Added: LP — the bit-field packing of Literal (known-bits/provenance analysis of the generated accessors): the label and polarity fields do not overlap, each setter writes exactly what its getter reads, label(new(l,p)) = l and polarity(new(l,p)) = p, and negated/implies_true/implies_false equal their definitions by truth table. Added: DP from_string — the string format writes a literal as a signed label without offset, so it is negative exactly for negative numbers (`0` is the positive literal of variable 0; defect D11, repaired). Added: EM — empty cases by abstract evaluation under the assumption that one collection is empty (loops over it do not run, len = 0, pop/last/next = None): the DIMACS readers and the printer on an empty clause / no clause; LogicalExpr::from_dimacs unwraps None on both (known findings, not repaired: LogicalExpr has no constants). Added (round 9): UV - the s-expression variable collector visits every sub-formula and unites the sets (by return value or through an accumulator worker). TX - the text handed to the DIMACS parser is not thinned by a content test that formula text can meet (a line that is just `0` is a clause terminator / the empty clause). MP documented-order: variable_mapping numbers the names in the documented lexicographic order. Added (round 10): DI - a field initialised with a function of a sibling field (eagerly derived) is stored again by every method that changes the sibling, also through interior mutability; PA - a call that opens a scope (enter/begin/open/...) whose counterpart exists in the crate is followed by the counterpart on every path to a return. Added (round 10, second half): CP root-is-helper-result - a serialiser entry point that builds a root pointer itself takes the complement bit from the helper's result (a terminal root already carries its negation); the flag predicate is read through a private helper.",
    },
    "C18": {
        "level": "proof",
        "rules": [("PA", 1, None), ("DI", 0, None), ("TR", 0, has("ffi::")), ("WF", 56, None)],
        "explanation": "Wrapper faithfulness of all 65 #[no_mangle] extern \"C\" exports: the value each wrapper "
                       "returns (or the one effect call it makes), reconstructed from its MIR as a term over its "
                       "parameters with marshalling stripped, equals the native operation and argument "
                       "correspondence frozen in the WF table; marshalling copies are bounded by min(len, cap). "
                       "Decides that the wrapper returns what the native operation returns for the same arguments; "
                       "does not decide anything about the native operations themselves.",
        "assumptions": ["the WF table (rules/wf.py) states the intended native operation of each export",
                        "Box/pointer casts and robdd_builder_from_ptr are value-preserving marshalling Added (round 10): DI - a field initialised with a function of a sibling field (eagerly derived) is stored again by every method that changes the sibling, also through interior mutability; PA - a call that opens a scope (enter/begin/open/...) whose counterpart exists in the crate is followed by the counterpart on every path to a return."],
    },
    "C19": {
        "level": "other",
        "rules": [("PA", 1, None), ("VO", 3, has("iter-elements")), ("DF", 1, has("VarOrder", "label-tables")), ("DI", 0, None), ("GL", 1, lambda r: "::bdd::" in r["key"] and (":GL9:" in r["key"] or ":GL6:" in r["key"] or ":GL12:" in r["key"])), ("MP", 8, hasnot("documented-order")), ("SL", 7, None), ("CP", 4, has("ser_bdd")), ("VO", 3, has("var_at_level", "VarOrder::new:inverse-by-construction")),
                  ("CN", 1, has("dedup")), ("DP", 9, has("from_dimacs:sign", "from_sexpr")), ("DP", 4, has("compile_logical_expr", "BottomUpPlan::from_dtree")), ("SR", 1, has("ser_bdd")),
                  ("NC", 4, has("Cnf::from_dimacs", "DTree::from_cnf")), ("MF", 4, None), ("EM", 3, has("DTree::from_cnf", "force_order", "average_span")), ("SH", 1, has("ite_helper:SH1")), ("UV", 1, None), ("TX", 1, has("Cnf::from_dimacs")), ("FS", 1, has("plan::bottom_up_plan::BottomUpPlan::"))],
        "explanation": "In each tool the counted / serialised diagram is the compiled one, compiled on a builder whose order "
                       "comes from the same formula; counts are taken on smooth(_, num_vars); weights are keyed by the "
                       "expression's own variable mapping (MP, SL2). Not decided: the printed numbers. Added after the fourth seeding round: VarOrder::new fills var_to_pos as the inverse of pos_to_var (VO inverse-by-construction); apply reads one table and smoothing the other. Added after the fourth seeding round: the DIMACS reader keeps every clause and every literal of the text (NC: every iteration of a loop over the items pushes onto its accumulator; an iterator chain from the items to collect() has no filter/skip/take/dedup) - a dropped clause gives the result extra models while everything downstream stays consistent. Added: MF — the `auto_minfill` order the tools compile under is a permutation of the variables by construction (see C14). Added: EM — empty cases by abstract evaluation under the assumption that one collection is empty (loops over it do not run, len = 0, pop/last/next = None): what the CNF tool's strategies (dtree plan, auto_force order) do on degenerate inputs: D13 repaired, the dtree of the empty formula is a known finding. Added: SH1 — the formula tool compiles Ite/Xor/Iff through ite_helper, whose decision node is node(first essential variable of (f,g,h), ite of the false-cofactors, ite of the true-cofactors). Added (round 9): UV, TX (see C17); GL6/GL9 of the BDD code (see C08). Added (round 10): DI - a field initialised with a function of a sibling field (eagerly derived) is stored again by every method that changes the sibling, also through interior mutability; PA - a call that opens a scope (enter/begin/open/...) whose counterpart exists in the crate is followed by the counterpart on every path to a return. Added (round 10, second half): FS reduce<-or of BottomUpPlan::from_dtree (an empty clause is false: the fall-back of reduce(or) is the identity of or); GL12, SL4 (see C08); CP root-is-helper-result for the BDD serialiser.",
    },
}


# Round 11: clauses added to the claims (kept apart from the long strings above; appended to each property's explanation)
_R11 = {
    "UL": "Added (round 11): UL - a type that undoes removals from a set through a log records a log entry only for a removal that removed something (the push depends on the result of `remove` or on a `contains`); an entry for a no-op removal makes the undo insert an element that was not there.",
    "NCC": "Added (round 11): NC carried - a working list the dtree builder pushes onto inside its elimination loop is read after the loop (what no step selected - an empty clause, a clause over unlisted variables - stays part of the tree).",
    "DPL": "Added (round 11): DP labels-from-variable-mapping - the table from_sexpr's worker looks names up in is variable_mapping(), a numbering derived from unique_variables(), or the caller's; a table that starts empty numbers the variables by first mention.",
    "EDG": "Added (round 11): WC bdd-edges - a function outside the accepted direct readers that follows a stored BddNode edge asks for that edge's sign.",
    "SPV": "Added (round 11): SP2 every-node-variant - an SDD clear_scratch that looks at the variant of a child clears or walks on for each of the four node-carrying variants.",
    "RNM": "Added (round 11): RN3 nonfalse-prime / exhaustive-primes also for elements built by a map chain; CP reads the item of a closure mapped over node_iter(captured pointer) as an element of that pointer; SH2 binary-case reads children fetched through the node behind the pointer (stored children carry no complement).",
    "BB5": "Added (round 11): BB5 - a pruning test behind a private predicate is evaluated at witness points: an upper bound above the incumbent by however little must be explored (a fixed tolerance prunes improving branches).",
    "GL2": "Added (round 11): GL2 slot-after-growth also through a private slot helper that is handed the table.",
    "RHD": "Added (round 11): RH displaced-from-own-slot takes the slot write on either side of the displacement.",
    "VOI": "Added (mini-round 12): VO iter-elements - an iterator of the order that yields labels walks pos_to_var (also through a range taken as a slice); the padding of a jump-and-pad smoothing reads such an iterator. DF for the order's tables.",
    "CPS": "Added (mini-round 12): CP sdd returns - every value the SDD condition returns on a path open to both polarities of the pointer denotes the same thing relative to what the pointer denotes (elements of a collected map over node_iter are read through the closure). DT decides an ite computed on the standard triple under the contract ST proves for Ite::new.",
    "BS": "Added (round 11): BS - a binary search in the methods of a type uses the ordering those methods sort by (a bisection by label over data sorted by Literal's polarity-major order is a stated contradiction).",
}
for _pid, _ks in {"C01": ("EDG", "GL2"), "C02": ("RHD",), "C03": ("RNM", "GL2", "CPS"), "C04": ("RNM", "RHD"), "C05": ("NCC",), "C06": ("UL", "BS"),
                  "C07": ("EDG", "SPV"), "C08": ("SPV", "VOI"), "C09": ("UL", "BS"), "C10": ("SPV",), "C12": ("BB5",), "C14": ("NCC",),
                  "C15": ("UL", "BS"), "C16": ("GL2",), "C17": ("DPL",), "C19": ("DPL", "NCC", "VOI")}.items():
    PROPS[_pid]["explanation"] = PROPS[_pid]["explanation"].rstrip() + " " + " ".join(_R11[k] for k in _ks)
