"""Rule registry and the property -> rules map (DESIGN.md §3/§4).

PROPS[pid]["rules"] = [(rule id, floor of decided instances, selector over instances or None)].
Floors are the numbers counted on the tree the rules were written against: a rule that suddenly
matches fewer sites is a broken check (exit 2), never a silent pass.
"""
from . import wf, dp, dt, he, gl, ts, ee, sl, wp


def has(*subs):
    return lambda r: any(s in r["key"] for s in subs)


def hasnot(*subs):
    return lambda r: not any(s in r["key"] for s in subs)


RULES = {
    "WF": {"run": wf.run, "needs": ["ffi"]},
    "DP": {"run": dp.run},
    "DT": {"run": dt.run},
    "HE": {"run": he.run},
    "GL": {"run": gl.run},
    "TS": {"run": ts.run},
    "EE": {"run": ee.run},
    "SL": {"run": sl.run, "needs": ["ffi", "cli"]},
    "WP": {"run": wp.run},
}

TB = ["rustc nightly front end + MIR construction", "rsdd-sa fact dump", "frozen rule tables"]

PROPS = {
    "C18": {
        "level": "proof",
        "rules": [("WF", 66, None)],
        "explanation": "Wrapper faithfulness of all 65 #[no_mangle] extern \"C\" exports: the value each wrapper "
                       "returns (or the one effect call it makes), reconstructed from its MIR as a term over its "
                       "parameters with marshalling stripped, equals the native operation and argument "
                       "correspondence frozen in the WF table; marshalling copies are bounded by min(len, cap). "
                       "Decides that the wrapper returns what the native operation returns for the same arguments; "
                       "does not decide anything about the native operations themselves.",
        "assumptions": ["the WF table (rules/wf.py) states the intended native operation of each export",
                        "Box/pointer casts and robdd_builder_from_ptr are value-preserving marshalling"],
    },
}
