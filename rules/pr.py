"""PR — prime weights of the residual-formula hashers are fresh draws (distinct by construction).

Both hashers (CnfHasher, SATSolver) identify a residual formula by the product of the primes of
its remaining literal *occurrences*; unique factorisation makes that injective only if every
(clause, literal) occurrence has its own prime.  The code gets this by construction: one
`primal::Primes::all()` generator created once, and exactly one `next()` per occurrence.  The rule
checks that shape: the weight component of every (weight, literal) pair built for the weighted
clause table is `unwrap(next(generator))` (possibly cast), the generator is a variable captured from
the enclosing function, and there it is `Primes::all()` created outside any loop.  A keyed or
recomputed weight (one prime per literal, per variable, …) loses the clause grouping.
Not decided: everything else about the hash (which occurrences are multiplied in when).
"""
from . import mir
from .base import inst, OK, VIOLATION, UNDECIDED, strip
from .facts import CheckerError
from .mir import show

SITES = [("repr::cnf::CnfHasher::new", "weighted_cnf"), ("repr::unit_prop::SATSolver::new", "clauses")]


def _mentions_param(t):
    """the term is computed from the closure's own argument (the literal)"""
    return any(isinstance(x, tuple) and x and x[0] == "param" for x in [strip(t)] + list(mir.subterms(t)))


def descend(prog, fn):
    out = []
    for k in prog.children(fn):
        out.append(k)
        out += descend(prog, k)
    return out


def run(prog):
    out = []
    for path, what in SITES:
        fns = [f for f in prog.by_npath.get(path, []) if f.unit.endswith("-lib.json")]
        if len(fns) != 1:
            raise CheckerError("PR: %s not found" % path)
        fn = prog.default_args_worker(fns[0])
        te = fn.terms
        gens = [cs for cs in te.calls if cs.callee.name == "all" and "Primes" in cs.callee.key()]
        errs = []
        if len(gens) != 1:
            errs.append("expected exactly one Primes::all() generator, found %d" % len(gens))
        elif any(gens[0].bb in body for body in fn.cfg.loop_headers.values()):
            errs.append("the prime generator is re-created inside a loop")
        pairs = []
        for k in descend(prog, fn):
            r = strip(k.terms.ret)
            if r[0] == "agg" and r[1] == "tuple" and len(r[4]) == 2:
                ops = [strip(o) for o in r[4]]
                lit = [o for o in ops if o[0] == "param" or (o[0] == "field" and strip(o[1])[0] == "param")]
                w = [o for o in ops if o not in lit]
                if len(lit) == 1 and len(w) == 1 and (any(mir.is_call(x, "next") or "prime" in show(x).lower() for x in mir.subterms(w[0]))
                                                      or _mentions_param(w[0]) or "u128" in (k.locals[0]["s"] if k.locals else "")):
                    pairs.append((k, w[0]))
        # pairing by `zip`: `clause.iter().copied().zip(primes.by_ref())` draws one fresh item of the shared generator per
        # literal occurrence, exactly like `next()` in a map closure
        zips = 0
        for k in [fn] + descend(prog, fn):
            for cs in k.terms.calls:
                if cs.callee.name != "zip" or len(cs.args) != 2:
                    continue
                g_ = strip(cs.args[1])
                while mir.is_call(g_, "by_ref") or (isinstance(g_, tuple) and g_ and g_[0] in ("ref", "deref", "mutref")) and len(g_) > 1 and isinstance(g_[1], tuple):
                    g_ = strip(g_[2][0] if g_[0] == "call" else g_[1])
                if isinstance(g_, tuple) and g_ and g_[0] == "upvar" and ("prime" in str(g_[1]).lower() or gens):
                    zips += 1
        if not pairs and zips:
            out.append(inst("PR", "%s:fresh-primes" % path, VIOLATION if errs else OK, fn, None,
                            "; ".join(errs) if errs else "one generator, zipped with the literal occurrences (%d site)" % zips))
            continue
        if not pairs:
            errs.append("?no (weight, literal) pair construction found for `%s`" % what)
        for k, w in pairs:
            w0 = w
            while isinstance(w0, tuple) and w0 and w0[0] == "cast":
                w0 = strip(w0[2])
            ok = mir.is_call(w0, "unwrap") and mir.is_call(strip(w0[2][0]), "next") and strip(strip(w0[2][0])[2][0])[0] == "upvar"
            if not ok and not _mentions_param(w) and not any(mir.is_call(x, "next") for x in mir.subterms(w)):
                errs.append("?the weight of a literal occurrence is %s: neither a draw from the generator nor a function of the literal" % show(w)[:70])
            elif not ok and _mentions_param(w):
                errs.append("the weight of a literal occurrence is computed from the literal itself (%s), not drawn fresh from the shared "
                            "prime generator: every occurrence of one literal gets the same prime, and the product of the primes no "
                            "longer says in which clauses the remaining literals are grouped" % show(w)[:70])
            elif not ok:
                errs.append("the weight of a literal occurrence is %s, not a fresh `next()` of the shared prime generator: two "
                            "occurrences can share a prime and the product no longer determines the residual clauses" % show(w)[:70])
        out.append(inst("PR", "%s:fresh-primes" % path, VIOLATION if errs else OK, fn, None,
                        "; ".join(errs) if errs else "one generator, one next() per literal occurrence (%d site)" % len(pairs)))
    return out
