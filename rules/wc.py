"""WC — who may call: construction of ordered nodes and use of the operation caches.

Two tables of the crate are only correct because of *who* fills them:

  BDD nodes      `BddBuilder::get_or_insert` interns whatever node it is handed.  That the node respects the
                 variable order is established by its callers and nowhere else: `var` (constant children),
                 `ite_helper` (splits on the first essential variable of its operands), `cond_with_alloc` and
                 `smooth_helper` (keep an existing node's variable over transformed children of that node).  A new
                 caller — a clause compiled as a hand-built chain, say — has to bring its own ordering argument.
  SDD nodes      `unique_bdd` / `unique_or` / `canonicalize` intern the element list they are handed.  That primes live
                 under the left and subs under the right child of the node's vtree position is established by the
                 callers: the four `and_*` cases (by the vtree case analysis of `and`) and `condition` (which only
                 removes variables).
  apply / ite    `app_cache_*` is keyed by the two operands of a conjunction and `ite_cache_*` by a standard triple;
  caches         the keys do not name the operation, so each table can serve exactly one: `and`, resp. `ite`.
                 A second operation filed "next to the conjunctions, under the same kind of key" returns the
                 other operation's result whenever the operands coincide.

Rule: every caller is in the table, or is a private helper all of whose own callers (two levels) are.  This is an
ownership rule in the sense of the brief ("only the journal module writes the log"): it reports the new caller, with
the reason the table exists; the accepted callers are listed here with theirs.
"""
from . import mir
from .base import inst, OK, VIOLATION, UNDECIDED, strip
from .mir import show

TABLES = [
    # (table name, callee names, predicate on the callee's definition path, allowed callers {name: reason}, floor)
    ("bdd-node", ("get_or_insert",), lambda k: "builder::bdd::" in k and "BddBuilder" in k,
     {"var": "children are the constants", "ite_helper": "splits on first_essential of its operands",
      "cond_with_alloc": "keeps a node's variable over the conditioned children of that node",
      "smooth_helper": "labels by level, children one level down", "get_or_insert": "the interning function itself"}, 4),
    ("sdd-node", ("unique_bdd", "canonicalize", "unique_or"), lambda k: "SddBuilder" in k or "sdd::builder" in k or "sdd::compression" in k or "sdd::semantic" in k,
     {"and_indep": "operands on the two sides of their lca: the prime left, the sub right",
      "and_sub_desc": "keeps the node's primes, conjoins its subs with a descendant of the right child",
      "and_prime_desc": "conjoins the primes with a descendant of the left child and keeps the partition exhaustive",
      "and_cartesian": "products of the primes and of the subs of two nodes of one vtree node",
      "condition": "restriction introduces no variable",
      "unique_or": "the binary special case of the node it was asked for",
      "canonicalize": "trimming/compression of the node it was asked for",
      "unique_bdd": "the interning function itself"}, 6),
    ("sdd-apply-cache", ("app_cache_insert", "app_cache_get"), lambda k: "SddBuilder" in k,
     {"and": "the conjunction the key is made of"}, 2),
    ("sdd-ite-cache", ("ite_cache_insert", "ite_cache_get"), lambda k: "SddBuilder" in k,
     {"ite": "the ite the standard triple is made of"}, 2),
]


def _callers(prog, names, pred):
    out = []
    for f in prog.lib_fns:
        if "::test" in f.npath or f.name.startswith("test") or not any(b["term"]["k"] == "call" for b in f.blocks):
            continue
        for cs in f.terms.calls:
            if cs.callee.name in names and (pred(cs.callee.key()) or pred(cs.callee.def_ or "") or pred(cs.callee.res or "")):
                out.append((f, cs))
    return out


def _who_calls(prog, g):
    out = []
    for f in prog.lib_fns:
        if f is g or not any(b["term"]["k"] == "call" for b in f.blocks):
            continue
        for cs in f.terms.calls:
            if cs.callee.name == g.name.split("::")[-1] and g in prog.resolve(cs.callee):
                out.append(f)
                break
    return out


def _independent_call(prog, w, g):
    """every call of g in w is dominated by `lca(X, Y) != X` and `lca(X, Y) != Y` for the vtree indices X, Y of two operands,
    and the operand passed as prime is the one `is_prime_index(X, Y)` selects: the contract and_indep itself is called under"""
    te = w.terms
    sites = [cs for cs in te.calls if cs.callee.name == g.name.split("::")[-1] and g in prog.resolve(cs.callee)]
    if not sites:
        return False
    for cs in sites:
        ne = []
        for c, val, _, _ in te.facts_at(cs.bb):
            c0 = strip(c)
            if c0[0] == "bin" and c0[1] in ("Ne", "Eq") and mir.is_call(strip(c0[2]), "lca") and ((c0[1] == "Ne") == (val != "0")):
                l = strip(c0[2])
                if strip(c0[3]) in [strip(a) for a in l[2][1:]]:
                    ne.append(strip(c0[3]))
        if len(set(map(repr, ne))) < 2:
            return False
        if "is_prime_index(" not in show(cs.args[1]) and not any(mir.is_call(strip(c), "is_prime_index") for c, _v, _a, _b in te.facts_at(cs.bb)):
            return False
    return True


def _root(f):
    """the function a closure belongs to"""
    return f.npath.split("::{closure")[0].split("::")[-1]


def run(prog):
    out = []
    for tname, names, pred, allowed, floor in TABLES:
        seen = {}
        n = 0
        for f, cs in _callers(prog, names, pred):
            caller = _root(f)
            # the accessor implementations themselves (a builder implementing app_cache_insert by a table insert) are not callers
            if caller in names:
                continue
            key = "%s:%s<-%s" % (tname, cs.callee.name, caller)
            if key in seen:
                continue
            seen[key] = 1
            n += 1
            if caller in allowed:
                out.append(inst("WC", key, OK, f, cs.line, "%s: %s" % (caller, allowed[caller])))
                continue
            # a private helper of accepted callers?
            ok_helper, level, frontier = True, 0, [f]
            chain = []
            while frontier and level < 2 and ok_helper:
                nxt = []
                for g in frontier:
                    if "{closure" in g.npath:
                        continue
                    ws = _who_calls(prog, g)
                    if not ws:
                        ok_helper = False      # an entry point of its own
                    for w in ws:
                        if _root(w) in allowed:
                            chain.append(_root(w))
                        elif tname == "sdd-node" and any(_root(w2) == "and_indep" for w2 in ws) and _independent_call(prog, w, g):
                            # the independent-operands constructor, called under its own precondition
                            chain.append(_root(w) + " (under the independence test)")
                        else:
                            nxt.append(w)
                frontier = nxt
                level += 1
            if frontier:
                ok_helper = False
            if ok_helper and chain:
                out.append(inst("WC", key, OK, f, cs.line, "helper called only from %s" % sorted(set(chain))))
            else:
                out.append(inst("WC", key, VIOLATION, f, cs.line,
                                {"bdd-node": "`%s` hands a node to the BDD unique table, but it is none of the operations that establish "
                                             "the variable order of what they build (%s): nothing places the children's variables after "
                                             "the node's own in the builder's order",
                                 "sdd-node": "`%s` builds an SDD decision node, but it is none of the operations that establish on which side "
                                             "of the vtree node the primes and the subs live (%s): the constructors intern what they are "
                                             "given, so a sub that mentions a left-hand variable (or a prime a right-hand one) yields a node "
                                             "that is not normalised for its vtree node — a second node for a function that already has one",
                                 "sdd-apply-cache": "`%s` uses the apply cache, which is keyed by the operands of a conjunction and can hold "
                                                    "only conjunctions (%s): another operation filed under such a key is returned as the "
                                                    "conjunction of the same operands, and the other way round",
                                 "sdd-ite-cache": "`%s` uses the ite cache, which is keyed by a standard triple and can hold only the ite of "
                                                  "that triple (%s)"}[tname] % (caller, ", ".join(sorted(allowed)))))
        if n < floor:
            out.append(inst("WC", "%s:callers" % tname, UNDECIDED, None, None, "only %d callers found (expected >= %d)" % (n, floor)))
    out += owned_state(prog)
    out += stored_edges(prog)
    return out


EDGE_READERS = {
    # functions that read the stored edges of a BddNode directly, and why that is all right
    "low": "the accessor: applies the pointer's complement", "high": "the accessor: applies the pointer's complement",
    "low_raw": "the raw accessor (named so)", "high_raw": "the raw accessor (named so)",
    "clear_scratch": "visits the node, sign-agnostic", "semantic_hash": "BddNode's own hash of the stored function",
    "get_or_insert": "normalises the stored high edge", "smooth_helper": "rebuilds the stored node",
    "print_bdd": "prints the stored node", "mut_fold_h": "folds the stored node and applies the sign at the pointer",
}


def stored_edges(prog):
    """A BddNode stores its two edges for the *regular* pointer to it, and either edge may itself be complemented.
    Everything outside the accessors that follows `node.low` / `node.high` itself has to look at that edge's sign (and at
    the sign of the pointer it came through).  A function outside the accepted readers that reads one of the two edges
    and never asks for its sign follows a possibly complemented edge as if it were regular."""
    out = []
    for fn in prog.lib_fns:
        if "::test" in fn.npath or fn.name.startswith("test_") or (fn.impl_trait or "").startswith(("std::", "core::", "serde::")):
            continue
        te = fn.terms
        terms = []
        for cs in te.calls:
            terms += list(cs.args)
        terms += [c for _, (c, _) in te.switch_term.items()]
        terms += [v for (_, _, v, _) in te.stores]
        if te.ret is not None:
            terms.append(te.ret)
        for ups in te.mu_update.values():
            terms += list(ups)
        reads = {}
        for t in terms:
            for x in [t] + list(mir.subterms(t)) if isinstance(t, tuple) else []:
                if isinstance(x, tuple) and x and x[0] == "field" and x[2] in ("low", "high") and len(x) > 3 and "BddNode" in str(x[3]):
                    reads.setdefault(x[2], x)
        if not reads:
            continue
        root = _root(fn)
        if root in EDGE_READERS or _only_from(prog, fn, lambda w: _root(w) in EDGE_READERS):
            continue
        for fld, ft in sorted(reads.items()):
            asked = False
            for cs in te.calls:
                if cs.callee.name in ("is_neg", "is_compl", "neg", "low", "high", "low_raw", "high_raw") and cs.args and \
                        any(isinstance(y, tuple) and y and y[0] == "field" and y[2] == fld and len(y) > 3 and "BddNode" in str(y[3])
                            for y in [strip(cs.args[0])] + list(mir.subterms(cs.args[0]))):
                    asked = True
            for _, (c, vm) in te.switch_term.items():
                c0 = strip(c)
                if c0[0] == "discr" and any(isinstance(y, tuple) and y and y[0] == "field" and y[2] == fld and len(y) > 3 and "BddNode" in str(y[3])
                                            for y in mir.subterms(c0)) and vm and len(set(vm.values())) > 2:
                    asked = True
            key = "bdd-edges:%s<-%s" % (fld, root)
            if asked:
                out.append(inst("WC", key, OK, fn, None, "%s reads the stored %s edge and asks for its sign" % (root, fld)))
            else:
                out.append(inst("WC", key, VIOLATION, fn, None,
                                "`%s` reads the stored `%s` edge of a BddNode and never asks whether that edge is complemented: "
                                "a stored edge may be complemented (the semantic d-DNNF store keeps nodes as given; low edges are "
                                "complemented everywhere), so the function follows ¬g as if it were g.  The accepted direct "
                                "readers are %s" % (root, fld, ", ".join(sorted(EDGE_READERS)))))
    return out


def _only_from(prog, f, ok_root, depth=4):
    """f is (a closure of) an accepted function, or a private helper all of whose callers, two levels up, are"""
    if ok_root(f):
        return True
    frontier, level = [f], 0
    while frontier and level < depth:
        nxt = []
        for g in frontier:
            if "{closure" in g.npath:
                parent = [h for h in prog.lib_fns if h.npath == g.npath.split("::{closure")[0]]
                ws = parent
            else:
                ws = _who_calls(prog, g)
            if not ws:
                return False
            for w in ws:
                if not ok_root(w):
                    nxt.append(w)
        frontier = nxt
        level += 1
    return not frontier


def owned_state(prog):
    """Two pieces of state that are only sound in the hands of their owner.

    hash-memo     the per-node cell behind `cached_semantic_hash` is keyed by nothing: it holds the hash for whichever field
                  and weight map the first caller used.  It is the cache of a builder that owns exactly one map (the
                  hash-identified builders); the pure query `semantic_hash`, which takes any map, must not go through it.
    watch-tables  under two-literal watching a watch list names *two* of the clauses' literals, not the clauses a variable
                  occurs in: "not watched" does not mean "unconstrained".  The tables mean something only to the
                  propagation itself (`UnitPropagate::new` / `decide`); an accessor that lets the compiler ask them is
                  reported with that reason."""
    out = []
    # ---- hash-memo
    def memo_owner(f):
        root = f.npath.split("::{closure")[0]
        return root.split("::")[-1] == "cached_semantic_hash" or "builder::sdd::semantic" in root or \
            "builder::decision_nnf::semantic" in root
    seen = set()
    for f in prog.lib_fns:
        if "::test" in f.npath or f.name.startswith("test") or not any(b["term"]["k"] == "call" for b in f.blocks):
            continue
        for cs in f.terms.calls:
            if cs.callee.name != "cached_semantic_hash":
                continue
            caller = f.npath.split("::{closure")[0]
            key = "hash-memo:cached_semantic_hash<-%s" % caller
            if key in seen:
                continue
            seen.add(key)
            ok = _only_from(prog, f, memo_owner)
            out.append(inst("WC", key, OK if ok else VIOLATION, f, cs.line,
                            "called by the memo's owner (a builder with one field and one weight map, or the memoised recursion)" if ok else
                            "`%s` answers from the per-node hash cell, which is not keyed by the field or the weight map: it returns "
                            "whatever hash was computed first for that node (another prime, another map), so the query is no longer "
                            "a function of its arguments; only the hash-identified builders, which own one map, may use the cell"
                            % caller.split("::")[-1]))
    if len(seen) < 4:
        out.append(inst("WC", "hash-memo:callers", UNDECIDED, None, None, "only %d callers of cached_semantic_hash found" % len(seen)))
    # ---- watch-tables
    import json as _json
    UP = "repr::unit_prop::UnitPropagate"

    def wl_owner(f):
        root = f.npath.split("::{closure")[0]
        nm = root.split("::")[-1]
        return (UP + "::") in root and (nm == "decide" or nm.startswith("new"))
    n = 0
    for f in prog.lib_fns:
        if "::test" in f.npath or f.name.startswith("test"):
            continue
        if (f.impl_trait or "").startswith(("std::", "core::", "serde::")):
            continue          # derived Debug / Clone / serialisation
        js = _json.dumps(f.blocks)
        if '"watch_list_pos"' not in js and '"watch_list_neg"' not in js:
            continue
        caller = f.npath.split("::{closure")[0]
        key = "watch-tables:access<-%s" % caller
        if any(r["key"] == "WC:" + key for r in out):
            continue
        n += 1
        ok = _only_from(prog, f, wl_owner)
        out.append(inst("WC", key, OK if ok else VIOLATION, f, None,
                        "the propagation itself (or a private helper of it)" if ok else
                        "`%s` reads the watch tables outside the propagation: a watch list holds the clauses that *watch* a literal "
                        "(two literals per clause), not the clauses the variable occurs in, so `no watcher` does not mean "
                        "`unconstrained` — a decision based on it skips variables that still matter" % caller.split("::")[-1]))
    if n < 2:
        out.append(inst("WC", "watch-tables:accessors", UNDECIDED, None, None, "only %d functions touching the watch tables found" % n))
    return out
