"""PA — paired calls: what is entered is left on every path.

A scope that is opened by a call and closed by its counterpart (`x_enter` / `x_leave`, `begin` / `end`, `open` / `close`,
`acquire` / `release`, `lock` / `unlock`, `start` / `finish`) holds state for exactly the span between the two: a frame
counter, a per-query memo that is dropped when the outermost frame returns.  A path that returns between the two calls —
an early `return` inside a loop is the usual one — leaves the scope open for good: the counter never gets back to zero
and the per-query state survives into the next query.  Rule: in every function that calls an opener whose counterpart
exists in the crate (same name with the other word), every path from the opener to a normal return passes a call of the
counterpart.  (`decide` / `pop` of the SAT solver is the one pair the code has today under other names; it is checked by
TS-BAL.)  Expected count today: zero; the self-test holds the positive example.
"""
import re
from . import mir
from .base import inst, OK, VIOLATION, UNDECIDED, strip
from .mir import show

PAIRS = [("enter", "leave"), ("enter", "exit"), ("begin", "end"), ("open", "close"), ("acquire", "release"), ("lock", "unlock"),
         ("start", "finish"), ("start", "stop")]


def counterpart(name):
    for a, b in PAIRS:
        m = re.search(r"(^|_)%s($|_)" % a, name)
        if m:
            yield name[:m.start()] + m.group(1) + b + m.group(2) + name[m.end():]


def run(prog):
    out = []
    local_names = {f.name for f in prog.lib_fns}
    for f in prog.lib_fns:
        if "::test" in f.npath or f.name.startswith("test") or not any(b["term"]["k"] == "call" for b in f.blocks):
            continue
        te, cfg = f.terms, f.cfg
        for cs in te.calls:
            if not (cs.callee.local or getattr(cs.callee, "res_local", False)):
                continue
            cps = [c for c in counterpart(cs.callee.name) if c in local_names]
            if not cps or cs.callee.name == f.name:
                continue
            closers = {c2.bb for c2 in te.calls if c2.callee.name in cps}
            key = "%s:%s/%s" % (f.npath, cs.callee.name, cps[0])
            if any(r["key"] == "PA:" + key for r in out):
                continue
            after = cfg.reachable_from(cs.bb, avoid=closers)
            open_ret = [r for r in cfg.returns if r in after or r == cs.bb]
            out.append(inst("PA", key, VIOLATION if open_ret else OK, f, cs.line,
                            ("after `%s` there is a path to a return that does not pass `%s`%s: the scope stays open, and what it "
                             "guards (a frame counter, a per-query memo) survives into the next call"
                             % (cs.callee.name, cps[0], "" if closers else " (which this function never calls)")) if open_ret else
                            "every path from `%s` to a return passes `%s`" % (cs.callee.name, cps[0])))
    out.append(inst("PA", "paired-calls:control", OK, None, None, "%d opener call(s) with a counterpart in the crate" % len(out),
                    loc="src/lib.rs:1"))
    return out
