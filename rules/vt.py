"""VT — vtree constructors consume their variable slice as a partition.

left_linear, right_linear, right_linear_c and even_split build a vtree over `order` by splitting the slice into
pieces (single elements that become leaves, sub-slices handed to recursive calls).  A vtree must mention every
variable of `order` exactly once, so on each recursive alternative the pieces must be pairwise disjoint and cover
the slice.  The pieces are read off the return term (constant indices, `[a..]`/`[..n-b]` sub-slice patterns,
`split_at(m)` halves) and the partition is checked for every slice length 2 ≤ n ≤ 8 — index arithmetic over a
finite range, nothing of rsdd is executed.  The base alternative (one element) must be the leaf of element 0.
"""
from . import mir
from .base import inst, OK, VIOLATION, UNDECIDED, strip
from .facts import CheckerError
from .mir import show
from .dt import leaves

NAMES = ("left_linear", "right_linear", "right_linear_c", "even_split", "balanced")
# `DTree::balanced` composes a slice of dtrees the same way: the halves handed to the two recursive calls must tile the
# slice, or a clause is no leaf of the dtree (or is one twice)
MODULE = {"balanced": "repr::dtree"}


class Und(Exception):
    pass


_TE = [None]      # the term engine of the constructor being read (for terms that refer to a call site)


def ival(t, n):
    """integer value of an index expression for slice length n"""
    t = strip(t)
    if t[0] == "const":
        v = t[2]
        if v.endswith("e"):
            return n - int(v[:-1])
        return int(v)
    if mir.is_call(t, "len") and strip(t[2][0]) == ("param", 1):
        return n
    if t[0] == "bin":
        a, b = ival(t[2], n), ival(t[3], n)
        op = t[1].replace("WithOverflow", "")
        if op == "Div":
            return a // b
        if op == "Add":
            return a + b
        if op == "Sub":
            return a - b
        if op == "Mul":
            return a * b
        if op in ("Shr",):
            return a >> b
    if t[0] == "field" and t[2] == "0":
        return ival(t[1], n)
    raise Und("index expression %s" % show(t)[:40])


def slice_iv(t, n):
    """interval of `order` denoted by a slice expression"""
    t = strip(t)
    if t == ("param", 1):
        return (0, n)
    if t[0] == "subslice":
        lo, hi = slice_iv(t[1], n)
        return (lo + t[2], (hi - t[3]) if t[4] else lo + t[3])
    if t[0] == "field" and t[2] in ("0", "1") and mir.is_call(strip(t[1]), "split_at"):
        lo, hi = slice_iv(strip(t[1])[2][0], n)
        m = lo + ival(strip(t[1])[2][1], hi - lo)
        return (lo, m) if t[2] == "0" else (m, hi)
    if (mir.is_call(t, "index") or mir.is_call(t, "index_mut")) and len(t[2]) == 2:
        lo, hi = slice_iv(t[2][0], n)
        r = strip(t[2][1])
        if r[0] == "agg" and "Range" in str(r[2]):
            kind = str(r[3])
            vals = [ival(x, hi - lo) for x in r[4]]
            if kind == "RangeFrom":
                return (lo + vals[0], hi)
            if kind == "RangeTo":
                return (lo, lo + vals[0])
            if kind == "Range":
                return (lo + vals[0], lo + vals[1])
            if kind == "RangeFull":
                return (lo, hi)
    if mir.is_call(t, "as_slice") or mir.is_call(t, "deref") or mir.is_call(t, "as_ref") or mir.is_call(t, "deref_mut") or \
            mir.is_call(t, "as_mut_slice"):
        return slice_iv(t[2][0], n)
    # an owned Vec cut in two: `let r = v.split_off(m)` leaves [0, m) in v and returns [m, len)
    if t[0] == "mut" and t[2].name == "split_off" and _TE[0] is not None:
        lo, hi = slice_iv(t[3], n)
        cs = _TE[0].calls_by_bb.get(t[1][0]) if isinstance(t[1], tuple) and t[1] else None
        if cs is not None and len(cs.args) == 2:
            return (lo, lo + ival(cs.args[1], hi - lo))
    if mir.is_call(t, "split_off") and len(t[2]) == 2 and _TE[0] is not None:
        base = t[2][0]
        if isinstance(base, tuple) and base and base[0] == "mutref":
            site = t[3][0] if len(t) > 3 and isinstance(t[3], tuple) and t[3] else None
            v = _TE[0].state_in.get(site, {}).get(base[1]) if site is not None else None
            if v is not None:
                lo, hi = slice_iv(v, n)
                return (lo + ival(t[2][1], hi - lo), hi)
    if t[0] == "mutref" and _TE[0] is not None:
        raise Und("slice expression through a mutable borrow")
    raise Und("slice expression %s" % show(t)[:50])


def pieces(alt, n, name):
    """intervals [lo, hi) of `order` used by one return alternative: slices given to recursive calls, elements made leaves"""
    out = []
    for x in mir.subterms(alt):
        if x[0] == "call" and x[1].name in (name, "right_linear", "left_linear", "even_split", "right_linear_c") and x[2]:
            lo, hi = slice_iv(x[2][0], n)
            out.append((lo, hi, "%s(%s)" % (x[1].name, show(strip(x[2][0])))))
        leafarg = None
        if x[0] == "agg" and x[3] == "Leaf" and x[4]:
            leafarg = strip(x[4][0])
        elif mir.is_call(x, "new_leaf") and x[2]:
            leafarg = strip(x[2][0])
        if leafarg is not None:
            if leafarg[0] == "index" and isinstance(leafarg[2], tuple) and strip(leafarg[2])[0] == "const":
                lo, hi = slice_iv(leafarg[1], n)
                k = ival(leafarg[2], hi - lo)
                out.append((lo + k, lo + k + 1, "leaf %s" % show(leafarg)))
            else:
                raise Und("leaf of %s" % show(leafarg)[:40])
    uniq = {}
    for p in out:
        uniq.setdefault(p[2], p)
    return sorted(uniq.values())


def run(prog):
    out = []
    for name in NAMES:
        fns = [g for g in prog.lib_fns if g.name == name and MODULE.get(name, "repr::vtree") in g.npath and "{closure" not in g.npath]
        if len(fns) != 1:
            raise CheckerError("VT: constructor %s not found" % name)
        fn = prog.default_args_worker(fns[0])     # `even_split` as the default path of `even_split_with(.., right_linear)`
        name = fn.name
        _TE[0] = fn.terms
        r = fn.terms.ret
        key = "%s:slice-partition" % fns[0].npath
        alts = [strip(a) for a in leaves(r)]
        rec = [a for a in alts if any(mir.is_call(x, name) for x in mir.subterms(a))]
        errs = []
        if not rec:
            out.append(inst("VT", key, UNDECIDED, fn, None, "no recursive alternative recognised"))
            continue
        try:
            for a in rec:
                for n in range(2, 9):
                    ps = pieces(a, n, name)
                    cur = 0
                    bad = None
                    for lo, hi, what in ps:
                        if lo > cur:
                            bad = "positions %d..%d of a %d-element order are in no piece" % (cur, lo, n)
                            break
                        if lo < cur:
                            bad = "position %d of a %d-element order is used twice (%s overlaps the previous piece)" % (lo, n, what)
                            break
                        cur = hi
                    if bad is None and cur != n:
                        bad = ("positions %d..%d of a %d-element order are in no piece" % (cur, n, n)) if cur < n else \
                            ("pieces reach past the end of a %d-element order" % n)
                    if bad:
                        errs.append("%s (pieces: %s)" % (bad, ", ".join(p[2][:50] for p in ps)))
                        break
        except Und as e:
            out.append(inst("VT", key, UNDECIDED, fn, None, str(e)))
            continue
        out.append(inst("VT", key, VIOLATION if errs else OK, fn, None,
                        ("%s: the vtree would omit or repeat a variable" % errs[0]) if errs else
                        "pieces partition the order for every length 2..8 (%d recursive alternative(s))" % len(rec)))
    return out
