"""MM — the double-and-add loop of the finite-field product keeps an inductive invariant (part of LAW).

`mul_mod::<P>(a, b)` multiplies two residues without leaving u128 when P > 2^64: a loop over the bits of `b` that adds
the current multiple of `a` to the accumulator for every set bit and doubles the multiple.  LAW's congruence check
covers the single-multiplication arm; a loop is not a polynomial.  It is, however, a three-variable transition system
whose correctness is the textbook invariant

        acc + mult · count  ≡  a · b   (mod P)

This rule *proves* the invariant on the source terms, as polynomial identities modulo P (`x % P` is x, P ≡ 0):
  init   with the loop-carried variables at their initial values the left side is a·b;
  step   writing count = 2q + bit (bit ∈ {0,1}), for each value of the bit test the updated variables satisfy
         acc' + mult'·q ≡ acc + mult·(2q + bit): the body is evaluated symbolically, the halving of `count` must be a
         `>> 1` / `/ 2`, the bit test `count & 1` / `count % 2`;
  exit   the loop is left only when count == 0 (its guard is `count > 0` / `count != 0`), and what the function returns
         on that arm is the accumulator (possibly reduced once more), hence ≡ a·b.
Ranges (no overflow, result < P) are NB's business.  Nothing is executed; the roles (accumulator, multiple, counter) are
found from the shape: the counter is the loop-carried variable that is halved, the accumulator the one returned.
"""
from . import mir
from .base import inst, OK, VIOLATION, UNDECIDED, strip
from .mir import show


class Und(Exception):
    pass


def run(prog):
    from .law import Poly, NotPoly
    from fractions import Fraction
    fns = [f for f in prog.lib_fns if f.name == "mul_mod" and "finitefield" in f.npath]
    if len(fns) != 1:
        # the helper is gone (or renamed beyond recognition): field_laws decides the product on its own terms
        return []
    fn = fns[0]
    te = fn.terms
    key = "%s:double-and-add" % fn.npath
    mus = {k: v for k, v in te.mu_init.items() if not (isinstance(v, tuple) and v and v[0] == "top")}
    if not mus:
        return [inst("LAW", key, UNDECIDED, fn, None, "?no loop in mul_mod: nothing to prove here")]
    headers = {k[0] for k in mus}
    if len(headers) != 1:
        return [inst("LAW", key, UNDECIDED, fn, None, "?more than one loop")]
    h = headers.pop()
    upd = {}
    for k in mus:
        u = te.mu_update.get(k)
        if not u or len(u) != 1:
            return [inst("LAW", key, UNDECIDED, fn, None, "?a loop-carried variable with several back edges")]
        upd[k] = u[0]

    def is_mu(t, k=None):
        t = strip(t)
        return isinstance(t, tuple) and t and t[0] == "mu" and (k is None or (t[1], t[2]) == k)

    # the counter: updated by `μ >> 1` or `μ / 2`
    counter = None
    for k, u in upd.items():
        u = strip(u)
        if u[0] == "bin" and is_mu(u[2], k) and strip(u[3])[0] == "const" and \
                ((u[1] == "Shr" and strip(u[3])[2] == "1") or (u[1] == "Div" and strip(u[3])[2] == "2")):
            counter = k
    if counter is None:
        bad = [show(u)[:50] for k, u in upd.items()]
        return [inst("LAW", key, VIOLATION, fn, None,
                     "no loop-carried variable is halved per iteration (`>> 1` / `/ 2`): updates are %s — the loop does not walk "
                     "the bits of an operand" % bad)]
    others = [k for k in mus if k != counter]
    # the accumulator: the loop-carried variable the function returns on the loop arm
    ret_mus = [x for x in mir.subterms(te.ret) if is_mu(x) and (x[1], x[2]) in mus]
    acc = None
    for x in ret_mus:
        if (x[1], x[2]) != counter:
            acc = (x[1], x[2])
    if acc is None or len(others) != 2:
        return [inst("LAW", key, UNDECIDED, fn, None, "?accumulator / multiple not recognised (%d other loop-carried variables)" % len(others))]
    mult = [k for k in others if k != acc][0]

    A, B, Q = Poly.var("a"), Poly.var("b"), Poly.var("q")
    R, M = Poly.var("r"), Poly.var("m")

    def is_bit_test(c):
        """-> polarity: True when the term is true for bit = 1, False when true for bit = 0, None otherwise"""
        c = strip(c)
        if c[0] != "bin" or c[1] not in ("Eq", "Ne"):
            return None
        l, r = strip(c[2]), strip(c[3])
        if r[0] != "const":
            l, r = r, l
        if r[0] != "const" or l[0] != "bin" or not is_mu(l[2], counter) or strip(l[3])[0] != "const":
            return None
        if not ((l[1] == "BitAnd" and strip(l[3])[2] == "1") or (l[1] == "Rem" and strip(l[3])[2] == "2")):
            return None
        if r[2] not in ("0", "1"):
            return None
        eq1 = (r[2] == "1") == (c[1] == "Eq")
        return eq1

    def ev(t, env, bit):
        t = strip(t)
        if t[0] == "mu":
            k = (t[1], t[2])
            if k in env:
                return env[k]
            raise Und("loop-carried value %s" % show(t))
        if t[0] == "param":
            return {1: A, 2: B}.get(t[1]) or (_ for _ in ()).throw(Und("parameter"))
        if t[0] == "const":
            try:
                return Poly.const(Fraction(int(t[2])))
            except ValueError:
                raise Und("constant %s" % (t[2],))
        if t[0] == "cparam":
            return Poly()        # P ≡ 0
        if t[0] == "field" and t[2] == "0" and strip(t[1])[0] == "bin":
            return ev(t[1], env, bit)
        if t[0] == "cast":
            return ev(t[2], env, bit)
        if t[0] == "bin":
            op = t[1].replace("WithOverflow", "").replace("Unchecked", "")
            if op == "Rem" and strip(t[3]) == ("cparam", "P"):
                return ev(t[2], env, bit)
            if op in ("Add", "Sub", "Mul"):
                a, b = ev(t[2], env, bit), ev(t[3], env, bit)
                return a + b if op == "Add" else a - b if op == "Sub" else a * b
            if op == "Shl" and strip(t[3])[0] == "const":
                return ev(t[2], env, bit) * Poly.const(2 ** int(strip(t[3])[2]))
            raise Und("operator %s" % op)
        if t[0] == "gamma":
            pol = is_bit_test(t[1])
            if pol is None:
                raise Und("a choice on %s" % show(t[1])[:40])
            truth = (bit == 1) == pol
            for lab, v in t[2]:
                lab_true = lab != "0"
                if lab_true == truth:
                    return ev(v, env, bit)
            raise Und("choice without the arm taken")
        if mir.is_call(t) and t[1].name in ("wrapping_add", "wrapping_mul", "wrapping_sub") and len(t[2]) == 2:
            a, b = ev(t[2][0], env, bit), ev(t[2][1], env, bit)
            return a + b if "add" in t[1].name else a - b if "sub" in t[1].name else a * b
        raise Und("term %s" % show(t)[:50])

    errs = []
    try:
        # init
        i_acc = ev(te.mu_init[acc], {}, None)
        i_mult = ev(te.mu_init[mult], {}, None)
        i_cnt = ev(te.mu_init[counter], {}, None)
        lhs = i_acc + i_mult * i_cnt
        if dict(lhs) != dict(A * B):
            errs.append("before the loop acc + mult·count is %s, not a·b" % fmt(lhs))
        # step
        for bit in (0, 1):
            env = {acc: R, mult: M, counter: Q * Poly.const(2) + Poly.const(bit)}
            r2 = ev(upd[acc], env, bit)
            m2 = ev(upd[mult], env, bit)
            before = R + M * (Q * Poly.const(2) + Poly.const(bit))
            after = r2 + m2 * Q
            if dict(before) != dict(after):
                errs.append("one iteration with the low bit %d turns acc + mult·count = %s into %s (count = 2q+%d, count' = q): "
                            "the invariant acc + mult·count ≡ a·b is not kept" % (bit, fmt(before), fmt(after), bit))
    except Und as e:
        return [inst("LAW", key, UNDECIDED, fn, None, "?%s" % e)]
    # exit: the header's test is on the counter and leaves the loop exactly when it is zero
    sw = te.switch_term.get(h)
    exit_ok = False
    if sw:
        c = strip(sw[0])
        if c[0] == "bin" and is_mu(c[2], counter) and strip(c[3])[0] == "const" and strip(c[3])[2] == "0" and c[1] in ("Gt", "Ne"):
            exit_ok = True
        elif c[0] == "bin" and is_mu(c[3], counter) and strip(c[2])[0] == "const" and strip(c[2])[2] == "0" and c[1] in ("Lt", "Ne"):
            exit_ok = True
        elif c[0] == "bin" and c[1] in ("Eq",) and ((is_mu(c[2], counter) and strip(c[3])[2:3] == ("0",)) or (is_mu(c[3], counter) and strip(c[2])[2:3] == ("0",))):
            exit_ok = True
    if not exit_ok:
        errs.append("?the loop guard is not a comparison of the counter with 0 (%s)" % (show(sw[0])[:40] if sw else "no test at the loop head"))
    # what is returned on the loop arm is the accumulator
    def ret_leaves(t):
        t = strip(t)
        if t[0] in ("gamma", "phi"):
            o = []
            for _, v in t[2]:
                o += ret_leaves(v)
            return o
        return [t]
    loop_rets = [x for x in ret_leaves(te.ret) if any(is_mu(y) for y in mir.subterms(x))]
    for x in loop_rets:
        try:
            v = ev(x, {acc: R, mult: M, counter: Poly()}, None)
            if dict(v) != dict(R):
                errs.append("after the loop the function returns %s, not the accumulator" % show(x)[:50])
        except Und as e:
            errs.append("?returned value %s: %s" % (show(x)[:40], e))
    return [inst("LAW", key, VIOLATION if errs else OK, fn, None,
                 "; ".join(errs) if errs else
                 "invariant acc + mult·count ≡ a·b (mod P) holds initially, is kept by an iteration for either value of the low bit "
                 "(count = 2q+bit, count' = q), and the loop is left with count = 0 returning acc")]


def fmt(p):
    if not p:
        return "0"
    out = []
    for m, c in sorted(p.items()):
        out.append("%s%s" % ("" if c == 1 and m else ("%s" % c) + ("·" if m else ""), "·".join(m)))
    return " + ".join(out)
