"""LP — literal packing: a known-bits / bit-provenance analysis of `Literal`.

A `Literal` packs a variable label and a polarity into one machine word through generated bit-field accessors.  Every
clause-level property (C05, C06, C09, C15, C17) reads literals only through `new`, `label`, `polarity` (and the public
helpers `negated`, `implies_true`, `implies_false`), so they all rest on

  label(new(l, p)) = l,   polarity(new(l, p)) = p,   the two fields do not overlap,

which is a statement about shifts and masks with constant amounts.  The analysis is the classical known-bits domain
extended with provenance: every bit of a word is 0, 1, a copy of a named input bit, a negated copy, or unknown.  Shifts
by constants, and/or/not, constant arithmetic and selections between the constants 0 and 1 are exact in that domain;
anything else gives unknown bits, and an obligation that needs an unknown bit is *undecided*, never a violation.  The
Boolean helpers are compared with their definitions by truth table over the atoms the domain produces (one polarity bit
per operand, one label-equality atom).  Nothing is executed: words are vectors of symbols.
"""
import itertools
from . import mir
from .base import inst, OK, VIOLATION, UNDECIDED, strip
from .facts import CheckerError
from .mir import show

LIT = "repr::var_label::Literal"
W = {"u64": 64, "usize": 64, "i64": 64, "isize": 64, "u32": 32, "i32": 32, "u8": 8, "u16": 16, "u128": 128}


class NotEval(Exception):
    pass


def bv_const(n, w):
    return ("bv", w, tuple((n >> i) & 1 for i in range(w)))


def bv_src(src, w=64):
    return ("bv", w, tuple(("c", src, i) for i in range(w)))


def as_int(v):
    if v[0] == "bv" and all(b in (0, 1) for b in v[2]):
        return sum(b << i for i, b in enumerate(v[2]))
    return None


def neg_bit(b):
    if b in (0, 1):
        return 1 - b
    if b is None:
        return None
    return ("n" if b[0] == "c" else "c", b[1], b[2])


def and_bit(a, b):
    if a == 0 or b == 0:
        return 0
    if a == 1:
        return b
    if b == 1:
        return a
    if a == b:
        return a
    if a is not None and b is not None and a == neg_bit(b):
        return 0
    return None


def or_bit(a, b):
    return neg_bit(and_bit(neg_bit(a), neg_bit(b)))


# ---- Boolean formulas over atoms -------------------------------------------------------------
def f_const(b):
    return ("k", bool(b))


def f_not(f):
    if f[0] == "k":
        return ("k", not f[1])
    if f[0] == "not":
        return f[1]
    return ("not", f)


def f_bit(b):
    if b in (0, 1):
        return f_const(b)
    if b is None:
        raise NotEval("unknown bit used as a truth value")
    a = ("atom", ("bit", b[1], b[2]))
    return a if b[0] == "c" else f_not(a)


def f_eq_bv(x, y):
    """equality of two words as a formula: identical bit pairs drop out; a definite difference decides it"""
    if x[1] != y[1]:
        raise NotEval("comparison of words of different width")
    pairs = []
    for a, b in zip(x[2], y[2]):
        if a is None or b is None:
            raise NotEval("comparison reads an unknown bit")
        if a == b:
            continue
        if (a in (0, 1) and b in (0, 1)) or (a not in (0, 1) and b not in (0, 1) and a == neg_bit(b)):
            return f_const(False)
        pairs.append((a, b))
    if not pairs:
        return f_const(True)
    if len(pairs) == 1 and (pairs[0][0] in (0, 1) or pairs[0][1] in (0, 1)):
        a, b = pairs[0]
        if a in (0, 1):
            a, b = b, a
        return f_bit(b if False else (a if b == 1 else neg_bit(a)))
    key = tuple(sorted((tuple(sorted(map(repr, p)))) for p in pairs))
    return ("atom", ("eq", key))


def f_atoms(f, acc):
    if f[0] == "atom":
        acc.add(f[1])
    elif f[0] != "k":
        for x in f[1:]:
            f_atoms(x, acc)
    return acc


def f_eval(f, val):
    k = f[0]
    if k == "k":
        return f[1]
    if k == "atom":
        return val[f[1]]
    if k == "not":
        return not f_eval(f[1], val)
    if k == "and":
        return f_eval(f[1], val) and f_eval(f[2], val)
    if k == "or":
        return f_eval(f[1], val) or f_eval(f[2], val)
    if k == "iff":
        return f_eval(f[1], val) == f_eval(f[2], val)
    if k == "ite":
        return f_eval(f[2], val) if f_eval(f[1], val) else f_eval(f[3], val)
    raise NotEval("formula %r" % (k,))


def f_same(f, g):
    atoms = sorted(f_atoms(f, f_atoms(g, set())), key=repr)
    if len(atoms) > 10:
        raise NotEval("too many atoms")
    for bits in itertools.product((False, True), repeat=len(atoms)):
        val = dict(zip(atoms, bits))
        if f_eval(f, val) != f_eval(g, val):
            return False, val
    return True, None


# ---- the evaluator ----------------------------------------------------------------------------
class Ev:
    def __init__(self, prog):
        self.prog = prog
        self.depth = 0

    def fn_of(self, callee):
        r = [f for f in self.prog.resolve(callee) if f.unit.endswith("-lib.json")]
        return r[0] if len(r) == 1 else None

    def call(self, fn, args):
        """value returned by fn for the argument values args (params 1..n)"""
        self.depth += 1
        if self.depth > 8:
            raise NotEval("call depth")
        try:
            env = {i + 1: a for i, a in enumerate(args)}
            return self.ev(fn.terms.ret, fn, env)
        finally:
            self.depth -= 1

    def apply(self, clo, args, fn, env):
        """value of a closure literal applied to argument values (its captures are evaluated in the caller's environment)"""
        c = clo
        while isinstance(c, tuple) and c and c[0] in ("ref", "deref", "copy", "move"):
            c = c[1]
        if not (isinstance(c, tuple) and c and c[0] == "agg" and c[1] == "closure"):
            raise NotEval("callback is not a closure literal")
        ks = [k for k in self.prog.fns if k.npath == c[2]]
        if not ks:
            raise NotEval("closure body not found")
        k = ks[0]
        caps = {}
        names = c[5] if len(c) > 5 and c[5] else ()
        for i, op in enumerate(c[4]):
            nm_ = names[i] if i < len(names) else str(i)
            caps[nm_] = self.ev(op, fn, env)
        kenv = {i + 2: a for i, a in enumerate(args)}
        kenv["upvars"] = caps
        self.depth += 1
        try:
            if self.depth > 8:
                raise NotEval("call depth")
            return self.ev(k.terms.ret, k, kenv)
        finally:
            self.depth -= 1

    def after_stores(self, fn, args):
        """value of *param1 after fn(param1 = &mut obj, ...) returned: its stores applied in program order"""
        if any(len(fn.cfg.succ[b]) > 1 and fn.blocks[b]["term"]["k"] == "switch" for b in range(len(fn.blocks))):
            raise NotEval("%s branches" % fn.name)
        env = {i + 1: a for i, a in enumerate(args)}
        obj = env[1]
        if obj[0] != "struct":
            raise NotEval("receiver is not a struct")
        for bb, place, val, _line in sorted(fn.terms.stores, key=lambda s: s[0]):
            p = strip(place)
            if not (p[0] == "field" and strip(p[1]) == ("param", 1)):
                raise NotEval("store to %s" % show(place)[:40])
            v = self.ev(val, fn, env)
            d = dict(obj[1])
            d[p[2]] = v
            obj = ("struct", d)
            env[1] = obj
        return obj

    def ev(self, t, fn, env):
        t0 = t
        while isinstance(t, tuple) and t and t[0] in ("ref", "deref", "copy", "move", "mutref_of"):
            t = t[1]
        k = t[0]
        if k == "const":
            ty, s = t[1], t[2]
            if ty == "bool":
                return ("bool", f_const(s in ("1", "true")))
            if ty in W and s.lstrip("-").isdigit():
                return bv_const(int(s) % (1 << W[ty]), W[ty])
            raise NotEval("constant %s" % (t,))
        if k == "param":
            if t[1] not in env:
                raise NotEval("param %r" % (t[1],))
            return env[t[1]]
        if k == "upvar":
            up = env.get("upvars", {})
            if t[1] not in up:
                raise NotEval("captured %r" % (t[1],))
            return up[t[1]]
        if k == "agg" and len(t) > 3 and t[3] == "Some" and len(t[4]) == 1:
            return ("opt", f_const(True), self.ev(t[4][0], fn, env))
        if k == "agg" and len(t) > 3 and t[3] == "None" and not t[4]:
            return ("opt", f_const(False), ("bool", f_const(False)))
        if k == "field":
            x = self.ev(t[1], fn, env)
            if x[0] == "tuple":
                return x[1][int(t[2])]
            if x[0] == "struct" and t[2] in x[1]:
                return x[1][t[2]]
            raise NotEval("field %s of %s" % (t[2], x[0]))
        if k == "agg" and t[1] == "adt":
            return ("struct", {n: self.ev(o, fn, env) for n, o in zip(t[5], t[4])})
        if k == "agg" and t[1] == "tuple":
            return ("tuple", [self.ev(o, fn, env) for o in t[4]])
        if k == "un" and t[1] == "Not":
            x = self.ev(t[2], fn, env)
            if x[0] == "bool":
                return ("bool", f_not(x[1]))
            return ("bv", x[1], tuple(neg_bit(b) for b in x[2]))
        if k == "cast":
            x = self.ev(t[2], fn, env)
            w = next((W[n] for n in W if t[3].strip() == n), None)
            if w is None:
                raise NotEval("cast to %s" % t[3])
            if x[0] == "bool":
                f = x[1]
                if f[0] == "k":
                    return bv_const(int(f[1]), w)
                if f[0] == "atom" and f[1][0] == "bit":
                    return ("bv", w, (("c", f[1][1], f[1][2]),) + (0,) * (w - 1))
                if f[0] == "not" and f[1][0] == "atom" and f[1][1][0] == "bit":
                    return ("bv", w, (("n", f[1][1][1], f[1][1][2]),) + (0,) * (w - 1))
                raise NotEval("cast of a compound truth value")
            bits = tuple(x[2][:w]) + (0,) * max(0, w - x[1])
            return ("bv", w, bits)
        if k == "bin":
            return self.binop(t[1], self.ev(t[2], fn, env), self.ev(t[3], fn, env))
        if k == "gamma":
            c = self.ev(t[1], fn, env)
            arms = {}
            for lab, v in t[2]:
                arms[lab if isinstance(lab, str) else "else"] = v
            if c[0] == "bool":
                tv = arms.get("1", arms.get("else"))
                fv = arms.get("0", arms.get("else"))
                if tv is None or fv is None:
                    raise NotEval("selection arms")
                if c[1][0] == "k":
                    return self.ev(tv if c[1][1] else fv, fn, env)
                a, b = self.ev(tv, fn, env), self.ev(fv, fn, env)
                if a[0] == "bool" and b[0] == "bool":
                    return ("bool", ("ite", c[1], a[1], b[1]))
                if a[0] == "bv" and b[0] == "bv" and a[1] == b[1]:
                    out = []
                    for x, y in zip(a[2], b[2]):
                        if x == y:
                            out.append(x)
                        elif (x, y) == (1, 0) or (x, y) == (0, 1):
                            f = c[1] if (x, y) == (1, 0) else f_not(c[1])
                            if f[0] == "atom" and f[1][0] == "bit":
                                out.append(("c", f[1][1], f[1][2]))
                            elif f[0] == "not" and f[1][0] == "atom" and f[1][1][0] == "bit":
                                out.append(("n", f[1][1][1], f[1][1][2]))
                            else:
                                out.append(None)
                        else:
                            out.append(None)
                    return ("bv", a[1], tuple(out))
                if a[0] == "struct" and b[0] == "struct":
                    raise NotEval("selection between structs")
            raise NotEval("selection on %s" % c[0])
        if k == "call":
            callee = t[1]
            nm = callee.name
            args = t[2]
            if nm == "size_of":
                ta = [x for x in callee.targs]
                for n in W:
                    if ta and ta[0].strip() == n:
                        return bv_const(W[n] // 8, 64)
                raise NotEval("size_of %s" % ta)
            if nm in ("eq", "ne") and len(args) == 2:
                a, b = self.ev(args[0], fn, env), self.ev(args[1], fn, env)
                r = self.binop("Eq", a, b)
                return r if nm == "eq" else ("bool", f_not(r[1]))
            if nm in ("not",) and len(args) == 1:
                x = self.ev(args[0], fn, env)
                return ("bool", f_not(x[1])) if x[0] == "bool" else ("bv", x[1], tuple(neg_bit(b) for b in x[2]))
            if nm in ("clone", "into", "from", "borrow", "deref") and len(args) == 1:
                return self.ev(args[0], fn, env)
            # Option-valued plumbing: ("opt", condition formula, payload) = Some(payload) iff condition
            if nm in ("then", "then_some") and len(args) == 2:
                c = self.ev(args[0], fn, env)
                if c[0] != "bool":
                    raise NotEval("then on %s" % c[0])
                pay = self.apply(args[1], [], fn, env) if nm == "then" else self.ev(args[1], fn, env)
                return ("opt", c[1], pay)
            if nm in ("unwrap_or", "unwrap_or_default", "is_some_and", "is_none_or", "map_or", "is_some", "is_none", "map", "filter") and args:
                o = self.ev(args[0], fn, env)
                if o[0] != "opt":
                    raise NotEval("%s on %s" % (nm, o[0]))
                cond, pay = o[1], o[2]
                if nm == "is_some":
                    return ("bool", cond)
                if nm == "is_none":
                    return ("bool", f_not(cond))
                if nm in ("unwrap_or", "unwrap_or_default"):
                    d = self.ev(args[1], fn, env) if nm == "unwrap_or" else ("bool", f_const(False))
                    if pay[0] == "bool" and d[0] == "bool":
                        return ("bool", ("ite", cond, pay[1], d[1]))
                    raise NotEval("unwrap_or of %s" % pay[0])
                if nm == "is_some_and":
                    r = self.apply(args[1], [pay], fn, env)
                    return ("bool", ("and", cond, r[1]))
                if nm == "is_none_or":
                    r = self.apply(args[1], [pay], fn, env)
                    return ("bool", ("or", f_not(cond), r[1]))
                if nm == "map_or" and len(args) == 3:
                    d = self.ev(args[1], fn, env)
                    r = self.apply(args[2], [pay], fn, env)
                    if d[0] == "bool" and r[0] == "bool":
                        return ("bool", ("ite", cond, r[1], d[1]))
                if nm == "map" and len(args) == 2:
                    return ("opt", cond, self.apply(args[1], [pay], fn, env))
                if nm == "filter" and len(args) == 2:
                    r = self.apply(args[1], [pay], fn, env)
                    return ("opt", ("and", cond, r[1]), pay)
                raise NotEval("option combinator %s" % nm)
            g = self.fn_of(callee)
            if g is None:
                raise NotEval("call of %s" % callee.key())
            return self.call(g, [self.ev(a, fn, env) for a in args])
        if k == "mut":
            # ('mut', (bb,), callee, inner): the object behind a &mut argument after the call in block bb
            bb, callee, inner = t[1][0], t[2], t[3]
            g = self.fn_of(callee)
            cs = [c for c in fn.terms.calls if c.bb == bb]
            if g is None or len(cs) != 1:
                raise NotEval("&mut call of %s" % callee.key())
            obj = self.ev(inner, fn, env)
            rest = [self.ev(a, fn, env) for a in cs[0].args[1:]]
            return self.after_stores(g, [obj] + rest)
        raise NotEval("term %s" % (show(t0)[:50],))

    def binop(self, op, a, b):
        ovf = op.endswith("WithOverflow")
        if ovf:
            op = op[:-len("WithOverflow")]
        if a[0] == "struct" and b[0] == "struct" and op in ("Eq", "Ne") and set(a[1]) == set(b[1]) and len(a[1]) == 1:
            n = next(iter(a[1]))
            return self.binop(op, a[1][n], b[1][n])
        if a[0] == "bool" and b[0] == "bool":
            if op == "Eq":
                return ("bool", ("iff", a[1], b[1]))
            if op in ("Ne", "BitXor"):
                return ("bool", f_not(("iff", a[1], b[1])))
            if op == "BitAnd":
                return ("bool", ("and", a[1], b[1]))
            if op == "BitOr":
                return ("bool", ("or", a[1], b[1]))
            raise NotEval("bool %s" % op)
        if a[0] != "bv" or b[0] != "bv":
            raise NotEval("%s on %s, %s" % (op, a[0], b[0]))
        w = a[1]
        ia, ib = as_int(a), as_int(b)
        if op in ("Shl", "Shr"):
            if ib is None:
                raise NotEval("shift by a non-constant")
            if ib >= w:
                raise NotEval("shift by %d in a %d-bit word" % (ib, w))
            if op == "Shl":
                return ("bv", w, (0,) * ib + a[2][:w - ib])
            return ("bv", w, a[2][ib:] + (0,) * ib)
        if op in ("BitAnd", "BitOr", "BitXor"):
            if b[1] != w:
                raise NotEval("width")
            if op == "BitAnd":
                return ("bv", w, tuple(and_bit(x, y) for x, y in zip(a[2], b[2])))
            if op == "BitOr":
                return ("bv", w, tuple(or_bit(x, y) for x, y in zip(a[2], b[2])))
            return ("bv", w, tuple(or_bit(and_bit(x, neg_bit(y)), and_bit(neg_bit(x), y)) for x, y in zip(a[2], b[2])))
        if op in ("Add", "Sub", "Mul", "Div", "Rem"):
            if ia is None or ib is None:
                return ("tuple", [("bv", w, (None,) * w), ("bool", f_const(False))]) if ovf else ("bv", w, (None,) * w)
            if op in ("Div", "Rem") and ib == 0:
                raise NotEval("division by zero")
            r = {"Add": ia + ib, "Sub": ia - ib, "Mul": ia * ib, "Div": ia // ib if ib else 0, "Rem": ia % ib if ib else 0}[op]
            v = bv_const(r % (1 << w), w)
            return ("tuple", [v, ("bool", f_const(not (0 <= r < (1 << w))))]) if ovf else v
        if op in ("Eq", "Ne"):
            f = f_eq_bv(a, b)
            return ("bool", f if op == "Eq" else f_not(f))
        if op in ("Gt", "Lt", "Ge", "Le"):
            if ia is not None and ib is not None:
                return ("bool", f_const({"Gt": ia > ib, "Lt": ia < ib, "Ge": ia >= ib, "Le": ia <= ib}[op]))
            # x > 0  /  x >= 1  /  0 < x  on a word whose only non-constant bit is one copy
            if (op, ib) in (("Gt", 0), ("Ge", 1)) or (op, ia) in (("Lt", 0), ("Le", 1)):
                x = a if ib is not None else b
                live = [bit for bit in x[2] if bit != 0]
                if len(live) == 1 and live[0] not in (1, None):
                    return ("bool", f_bit(live[0]))
            raise NotEval("ordering comparison")
        raise NotEval("operator %s" % op)


def field_range(v, src):
    """(start, width) if word v is `bits [start, start+width) of src, shifted down to bit 0`, zeros above"""
    bits = v[2]
    if bits[0] in (0, 1, None) or bits[0][0] != "c" or bits[0][1] != src:
        return None
    a = bits[0][2]
    w = 0
    while w < len(bits) and bits[w] == ("c", src, a + w):
        w += 1
    if any(b != 0 for b in bits[w:]):
        return None
    return a, w


def written_range(v, data_src, val_src):
    """(start, width) if v keeps data except for bits [start, start+width), which hold val bits 0.."""
    bits = v[2]
    idx = [i for i, b in enumerate(bits) if b != ("c", data_src, i)]
    if not idx:
        return None
    a, e = idx[0], idx[-1] + 1
    for i in range(a, e):
        if bits[i] != ("c", val_src, i - a):
            return None
    return a, e - a


def run(prog):
    out = []
    fns = {f.name: f for f in prog.lib_fns if f.impl_self == LIT and f.kind != "Closure" and not f.impl_trait}
    for need in ("new", "label", "polarity"):
        if need not in fns:
            raise CheckerError("LP: Literal::%s not found" % need)
    ev = Ev(prog)
    data = ("struct", {"data": bv_src("data1")})
    # ---- the fields: every getter (a word computed from self.data alone) and every setter (a store into self.data)
    getters, setters = {}, {}
    for nm, f in sorted(fns.items()):
        if f.argc == 1 and not f.terms.stores and f.locals[0]["s"].strip() in W:
            try:
                v = ev.call(f, [data])
            except NotEval as e:
                out.append(inst("LP", "%s:reads" % f.npath, UNDECIDED, f, None, "getter not interpretable: %s" % e))
                continue
            r = field_range(v, "data1") if v[0] == "bv" else None
            if r is None:
                out.append(inst("LP", "%s:reads" % f.npath, UNDECIDED, f, None, "result is not one contiguous bit range of the word"))
            else:
                getters[nm] = (f, r)
        elif f.argc == 2 and f.terms.stores and f.locals[2]["s"].strip() in W:
            try:
                obj = ev.after_stores(f, [data, bv_src("val2", W[f.locals[2]["s"].strip()])])
            except NotEval as e:
                out.append(inst("LP", "%s:writes" % f.npath, UNDECIDED, f, None, "setter not interpretable: %s" % e))
                continue
            r = written_range(obj[1]["data"], "data1", "val2")
            if r is None:
                out.append(inst("LP", "%s:writes" % f.npath, VIOLATION, f, None,
                                "after the call the word is not `old bits outside one range, the value's low bits inside it`: "
                                "a setter that disturbs other bits corrupts the other field of the literal"))
            else:
                setters[nm] = (f, r)
    # pair them by range
    paired = {}
    for sn, (sf, sr) in setters.items():
        g = [gn for gn, (gf, gr) in getters.items() if gr == sr]
        over = [gn for gn, (gf, gr) in getters.items() if gr != sr and gr[0] < sr[0] + sr[1] and sr[0] < gr[0] + gr[1]]
        errs = []
        if over:
            errs.append("%s writes bits [%d,%d) which overlap what %s reads [%d,%d) without being the same field: writing one "
                        "field changes the other" % (sn, sr[0], sr[0] + sr[1], over[0], getters[over[0]][1][0], sum(getters[over[0]][1])))
        if not g and not over:
            errs.append("?no getter reads exactly the range %s writes" % sn)
        for gn in g:
            paired[gn] = sn
        out.append(inst("LP", "%s:field-range" % sf.npath, VIOLATION if errs and not errs[0].startswith("?") else (UNDECIDED if errs else OK), sf, None,
                        "; ".join(errs) if errs else "%s writes exactly bits [%d,%d), which %s reads back" % (sn, sr[0], sr[0] + sr[1], ", ".join(g))))
    rs = sorted(r for _, r in setters.values())
    errs = ["bit ranges [%d,%d) and [%d,%d) overlap" % (a[0], sum(a), b[0], sum(b)) for a, b in zip(rs, rs[1:]) if a[0] + a[1] > b[0]]
    if len(rs) < 2:
        errs.append("?fewer than two packed fields found")
    out.append(inst("LP", "%s:fields-disjoint" % LIT, VIOLATION if errs and not errs[0].startswith("?") else (UNDECIDED if errs else OK), fns["new"], None,
                    "; ".join(errs) if errs else "fields %s do not overlap" % ", ".join("[%d,%d)" % (a, a + w) for a, w in rs)))

    # ---- new / label / polarity: label(new(l,p)) = l (as far as it fits), polarity(new(l,p)) = p
    lab_in = ("struct", {"0": bv_src("label")})
    pol_in = ("bool", ("atom", ("bit", "pol", 0)))
    try:
        made = ev.call(fns["new"], [lab_in, pol_in])
        l_back = ev.call(fns["label"], [made])
        p_back = ev.call(fns["polarity"], [made])
        errs = []
        lb = l_back[1]["0"] if l_back[0] == "struct" and "0" in l_back[1] else l_back
        r = field_range(lb, "label") if lb[0] == "bv" else None
        if r is None or r[0] != 0:
            errs.append("label(new(l, p)) is not l: the bits read back are %s" % ("not a prefix of l" if r is None else "l shifted by %d" % r[0]))
        elif r[1] < 32:
            errs.append("label(new(l, p)) keeps only %d bits of l" % r[1])
        same, cex = f_same(p_back[1], pol_in[1]) if p_back[0] == "bool" else (False, None)
        if not same:
            errs.append("polarity(new(l, p)) is not p")
        if any(b is None for b in made[1]["data"][2]):
            errs.append("?new leaves bits of the word undetermined")
        out.append(inst("LP", "%s:roundtrip" % fns["new"].npath, VIOLATION if [e for e in errs if not e.startswith("?")] else (UNDECIDED if errs else OK), fns["new"], None,
                        "; ".join(errs) if errs else "label(new(l,p)) = l on its low %d bits, polarity(new(l,p)) = p" % r[1]))
    except NotEval as e:
        out.append(inst("LP", "%s:roundtrip" % fns["new"].npath, UNDECIDED, fns["new"], None, "not interpretable: %s" % e))

    # ---- the public helpers against their definitions
    a_in = ("struct", {"data": bv_src("A")})
    b_in = ("struct", {"data": bv_src("B")})

    def lab(x):
        v = ev.call(fns["label"], [x])
        return v[1]["0"] if v[0] == "struct" else v

    def pol(x):
        return ev.call(fns["polarity"], [x])[1]
    specs = {
        "implies_true": lambda: ("and", f_eq_bv(lab(a_in), lab(b_in)), ("iff", pol(a_in), pol(b_in))),
        "implies_false": lambda: ("and", f_eq_bv(lab(a_in), lab(b_in)), f_not(("iff", pol(a_in), pol(b_in)))),
    }
    for nm, spec in specs.items():
        if nm not in fns:
            continue
        f = fns[nm]
        try:
            got = ev.call(f, [a_in, b_in])
            same, cex = f_same(got[1], spec())
            out.append(inst("LP", "%s:definition" % f.npath, OK if same else VIOLATION, f, None,
                            "same variable and %s polarity, by truth table over (labels equal, polarity of self, polarity of other)"
                            % ("equal" if nm == "implies_true" else "opposite") if same else
                            "%s differs from its definition (same variable and %s polarity) when %s" %
                            (nm, "equal" if nm == "implies_true" else "opposite",
                             ", ".join("%s=%s" % ("labels-equal" if k[0] == "eq" else "pol(%s)" % k[1], int(v)) for k, v in sorted(cex.items(), key=repr)))))
        except NotEval as e:
            out.append(inst("LP", "%s:definition" % f.npath, UNDECIDED, f, None, "not interpretable: %s" % e))
    if "negated" in fns:
        f = fns["negated"]
        try:
            n = ev.call(f, [a_in])
            errs = []
            if f_eq_bv(lab(n), lab(a_in)) != f_const(True):
                errs.append("negated() changes the variable")
            same, _ = f_same(pol(n), f_not(pol(a_in)))
            if not same:
                errs.append("negated() does not flip the polarity")
            out.append(inst("LP", "%s:definition" % f.npath, VIOLATION if errs else OK, f, None,
                            "; ".join(errs) if errs else "same variable, opposite polarity"))
        except NotEval as e:
            out.append(inst("LP", "%s:definition" % f.npath, UNDECIDED, f, None, "not interpretable: %s" % e))
    return out
