"""WF — wrapper faithfulness of the C ABI (property C18).

For every `#[no_mangle] extern "C"` function the frozen table below gives the native
operation and the argument correspondence.  The rule reconstructs the value the wrapper
returns (or the effect call it performs) as a term over its parameters, strips pure
marshalling (Box::new/into_raw/from_raw, pointer casts, the opaque-manager cast) and
compares it with the table row.  A wrapper missing from the table, or a row without a
wrapper, is a checker error (fail closed), not a verdict.
"""
from . import mir, canon
from .base import (inst, OK, VIOLATION, UNDECIDED, P, C, F, K, ANY, Agg, Alt, Contains, match, strip,
                   callee_is, fn_key, verdict_of, errtext)
from .facts import CheckerError
from .mir import show

B = "builder::BottomUpBuilder"
ROB = "robdd::RobddBuilder"
BDD = "repr::bdd::BddPtr"
DD = "repr::ddnnf::DDNNFPtr"
WP = "repr::wmc::WmcParams"
VL = C("repr::var_label::VarLabel::new", P(2))
PAYLOAD = P(99)   # in an `opt` row: the value carried by Some(..) of the row's scrutinee

# name -> dict(ret=pattern | None, effect=pattern | None, defaults=[patterns], closure=pattern)
TABLE = {
    # ---- bdd.rs
    "var_order_linear": dict(ret=C("VarOrder::linear_order", P(1))),
    "cnf_from_dimacs": dict(ret=C("Cnf::from_dimacs", Contains(1))),
    "robdd_builder_all_table": dict(ret=C(ROB + "::new", P(1))),
    "robdd_builder_compile_cnf": dict(ret=C(B + "::compile_cnf", P(1), P(2))),
    "robdd_model_count": dict(
        ret=C("FiniteField::value",
              C(DD + "::unsmoothed_wmc",
                Alt(C(ROB + "::smooth", P(1), P(2), C(ROB + "::num_vars", P(1))),
                    C(ROB + "::smooth_helper", P(1), P(2), K(0), C(ROB + "::num_vars", P(1)))), ANY())),
        entries=(C("VarLabel::new", ANY()), Agg("tuple", C("Semiring::one"), C("Semiring::one")))),
    "mk_bdd_manager_default_order": dict(ret=C(ROB + "::new", C("VarOrder::linear_order", P(1)))),
    "bdd_new_label": dict(ret=C("VarLabel::value", C(ROB + "::new_label", P(1)))),
    "bdd_var": dict(ret=C(B + "::var", P(1), VL, P(3))),
    "bdd_new_var": dict(ret=F(C(ROB + "::new_var", P(1), P(2)), "1")),
    "bdd_ite": dict(ret=C(B + "::ite", P(1), P(2), P(3), P(4))),
    "bdd_and": dict(ret=C(B + "::and", P(1), P(2), P(3), comm=True)),
    "bdd_or": dict(ret=C(B + "::or", P(1), P(2), P(3), comm=True)),
    "bdd_negate": dict(ret=C(B + "::negate", P(1), P(2))),
    "bdd_compose": dict(ret=C(B + "::compose", P(1), P(2), P(3), P(4))),
    "bdd_is_true": dict(ret=C(DD + "::is_true", P(1))),
    "bdd_is_false": dict(ret=C(DD + "::is_false", P(1))),
    "bdd_is_const": dict(ret=C(BDD + "::is_const", P(1))),
    "bdd_count_nodes": dict(ret=C(DD + "::count_nodes", P(1))),
    "bdd_scratch": dict(opt=(C(BDD + "::scratch", P(1)), P(2), PAYLOAD)),
    "bdd_set_scratch": dict(effect=C(BDD + "::set_scratch", P(1), P(2))),
    "bdd_clear_scratch": dict(effect=C(BDD + "::clear_scratch", P(1))),
    "bdd_true": dict(ret=C(B + "::true_ptr", P(1))),
    "bdd_false": dict(ret=C(B + "::false_ptr", P(1))),
    "bdd_eq": dict(ret=C(B + "::eq", P(1), P(2), P(3), comm=True)),
    "free_bdd_manager": dict(effect=C("std::mem::drop", P(1))),
    "bdd_topvar": dict(opt=(C(BDD + "::var_safe", P(1)), ANY(), C("VarLabel::value", PAYLOAD))),
    "bdd_low": dict(ret=C(BDD + "::low", P(1))),
    "bdd_high": dict(ret=C(BDD + "::high", P(1))),
    "print_bdd": dict(ret=C("Result::unwrap", C("CString::new", C(BDD + "::print_bdd", P(1))))),
    "bdd_num_recursive_calls": dict(ret=C(ROB + "::num_recursive_calls", P(1))),
    "bdd_to_json": dict(ret=C("Result::unwrap", C("CString::new", C("Result::unwrap", C(
        "serde_json::to_string", C("BDDSerializer::from_bdd", P(1))))))),
    "bdd_wmc": dict(ret=F(C(DD + "::unsmoothed_wmc", P(1), P(2)), "0")),
    "bdd_wmc_complex": dict(ret=C(DD + "::unsmoothed_wmc", P(1), P(2))),
    # ---- wmc.rs
    "new_wmc_params_f64": dict(ret=C(WP + "::new", ANY()), empty_map=True),
    "free_wmc_params_f64": dict(effect=C("std::mem::drop", P(1))),
    "new_wmc_params_complex": dict(ret=C(WP + "::new", ANY()), empty_map=True),
    "free_wmc_params_complex": dict(effect=C("std::mem::drop", P(1))),
    "wmc_param_f64_set_weight": dict(effect=C(WP + "::set_weight", P(1), VL,
                                              Agg("RealSemiring", P(3)), Agg("RealSemiring", P(4)))),
    "wmc_param_complex_set_weight": dict(effect=C(WP + "::set_weight", P(1), VL, P(3), P(4))),
    "wmc_param_f64_var_weight": dict(ret=Agg("WeightF64",
                                             F(F(C(WP + "::var_weight", P(1), VL), "0"), "0"),
                                             F(F(C(WP + "::var_weight", P(1), VL), "1"), "0"))),
    "weight_f64_lo": dict(ret=F(P(1), "0")),
    "weight_f64_hi": dict(ret=F(P(1), "1")),
    "wmc_param_complex_var_weight": dict(ret=Agg("WeightComplex",
                                                 F(C(WP + "::var_weight", P(1), VL), "0"),
                                                 F(C(WP + "::var_weight", P(1), VL), "1"))),
    "weight_complex_lo": dict(ret=F(P(1), "0")),
    "weight_complex_hi": dict(ret=F(P(1), "1")),
    "new_polynomial": dict(ret=C("ffi::wmc::from_c_parts", P(1), P(2))),
    "destroy_polynomial": dict(effect=C("Box::from_raw", P(1)), raw_effect=True),
    "new_wmc_params_poly": dict(ret=C(WP + "::new", ANY()), empty_map=True),
    "destroy_wmc_params_poly": dict(effect=C("Box::from_raw", P(1)), raw_effect=True),
    "wmc_param_poly_set_weight": dict(effect=C(WP + "::set_weight", P(1), VL,
                                               C("ffi::wmc::from_c_parts", P(3), P(4)),
                                               C("ffi::wmc::from_c_parts", P(5), P(6)))),
    "wmc_param_poly_var_weight": dict(ret=Agg("WeightPoly",
                                              F(C(WP + "::var_weight", P(1), VL), "0"),
                                              F(C(WP + "::var_weight", P(1), VL), "1")),
                                      defaults=[Agg("WeightPoly", C("null_mut"), C("null_mut"))]),
    "polynomial_len": dict(ret=F(P(1), "len"), defaults=[K(0)]),
    "polynomial_get_coeffs": dict(ret=C("Ord::min", F(P(1), "len"), P(3), comm=True), defaults=[K(0)],
                                  bounded_copy=True),
    "bdd_wmc_poly": dict(ret=C(DD + "::unsmoothed_wmc", P(1), P(2)), defaults=[C("null_mut")]),
    # ---- sdd.rs
    "sdd_builder_new": dict(ret=C("CompressionSddBuilder::new", P(1))),
    "sdd_builder_compile_cnf": dict(ret=C(B + "::compile_cnf", P(1), P(2))),
    "sdd_wmc": dict(ret=F(C(DD + "::unsmoothed_wmc", P(1), P(2)), "0")),
    # ---- cnf.rs
    "cnf_new": dict(ret=C("Cnf::new", C("collect", C("map", C("from_raw_parts", P(1), P(2)), ANY()))),
                    closure=C("to_vec", C("from_raw_parts", F(P(2), "vars"), F(P(2), "len")))),
    "cnf_min_fill_order": dict(ret=C("Cnf::min_fill_order", P(1))),
    # ---- ddnnf.rs
    "ddnnf_builder_new": dict(ret=C("StandardDecisionNNFBuilder::new", P(1))),
    "ddnnf_builder_compile_cnf_topdown": dict(ret=C("DecisionNNFBuilder::compile_cnf_topdown", P(1), P(2))),
    # ---- var.rs
    "literal_new": dict(ret=C("Literal::new", P(1), P(2))),
    "var_order_new": dict(ret=C("VarOrder::new", C("from_raw_parts", P(1), P(2)))),
    # ---- dtree.rs / vtree.rs
    "dtree_from_cnf": dict(ret=C("DTree::from_cnf", P(1), P(2))),
    "vtree_from_dtree": dict(opt=(C("from_dtree", P(1)), C("null_mut"), PAYLOAD)),
}

FLOOR = 65


def strip_box(t):
    """`*Box::from_raw(p)` lowers to from_raw(p).0.pointer — part of marshalling"""
    while True:
        t = strip(t)
        if isinstance(t, tuple) and t[0] == "field" and t[2] in ("0", "pointer"):
            inner = t
            while isinstance(inner, tuple) and inner[0] == "field" and inner[2] in ("0", "pointer"):
                inner = inner[1]
            if isinstance(inner, tuple) and inner[0] == "call" and inner[1].name == "from_raw":
                t = inner
                continue
        return t


def norm_term(t):
    """recursively strip marshalling inside a term"""
    t = strip_box(t)
    if not isinstance(t, tuple) or not t:
        return t
    k = t[0]
    # the length of a slice made from raw parts is the length it was made with
    if (k == "call" and t[1].name == "len" and t[2]) or (k == "un" and t[1] == "PtrMetadata"):
        inner = strip(t[2][0] if k == "call" else t[2])
        while isinstance(inner, tuple) and inner and inner[0] in ("ref", "deref", "mutref_of"):
            inner = strip(inner[1])
        if isinstance(inner, tuple) and inner and inner[0] == "call" and inner[1].name in ("from_raw_parts", "from_raw_parts_mut") \
                and len(inner[2]) == 2:
            return norm_term(inner[2][1])
    if k == "call" and t[1].name in ("unwrap_or_default", "unwrap_or") and t[2] and not t[1].local:
        # `checked_slice(p, n).unwrap_or_default()` with checked_slice = None for NULL / n == 0, Some(from_raw_parts(p, n)) otherwise
        alts = [strip_box(v) for v in leaves(strip_box(t[2][0]))]
        somes = [strip_box(v[4][0]) for v in alts if isinstance(v, tuple) and v and v[0] == "agg" and v[3] == "Some" and len(v[4]) == 1]
        nones = [v for v in alts if isinstance(v, tuple) and v and v[0] == "agg" and v[3] == "None"]
        if somes and nones and len(somes) + len(nones) == len(alts) and \
                all(isinstance(v, tuple) and v and v[0] == "call" and v[1].name in ("from_raw_parts", "from_raw_parts_mut") and v[:3] == somes[0][:3] for v in somes) and \
                (t[1].name == "unwrap_or_default" or _is_empty_slice(t[2][1])):
            return norm_term(somes[0])
    if k == "call":
        return (t[0], t[1], tuple(norm_term(a) for a in t[2])) + tuple(t[3:])
    if k == "field":
        return ("field", norm_term(t[1])) + tuple(t[2:])
    if k == "agg":
        return t[:4] + (tuple(norm_term(a) for a in t[4]),) + tuple(t[5:])
    if k in ("gamma", "phi"):
        # a NULL- / zero-length-safe slice: `if p.is_null() || n == 0 { &[] } else { from_raw_parts(p, n) }` is the slice
        # from_raw_parts(p, n) for every argument pair the C side may legally pass (n = 0 gives the empty slice either way)
        alts = [strip_box(v) for v in leaves(t)]
        full = [v for v in alts if not _is_empty_slice(v)]
        if len(full) < len(alts) and full and all(isinstance(v, tuple) and v and v[0] == "call" and
                                                  v[1].name in ("from_raw_parts", "from_raw_parts_mut") and v[:3] == full[0][:3] for v in full):
            return norm_term(full[0])
    if k == "gamma":
        return ("gamma", t[1], tuple((l, norm_term(v)) for l, v in t[2])) + tuple(t[3:])
    if k == "phi":
        return ("phi", t[1], tuple((p, norm_term(v)) for p, v in t[2]))
    return t


def _is_empty_slice(v):
    v = strip(v)
    while isinstance(v, tuple) and v and v[0] in ("ref", "deref", "cast"):
        v = strip(v[2] if v[0] == "cast" else v[1])
    if isinstance(v, tuple) and v and v[0] == "agg" and not v[4]:
        return True
    if isinstance(v, tuple) and v and v[0] == "const" and show(v).strip("&") in ("[]", "const []"):
        return True
    return show(v).strip("&") == "[]"


def leaves(t):
    """alternatives of a gated/phi term"""
    if isinstance(t, tuple) and t and t[0] == "gamma":
        out = []
        for _, v in t[2]:
            out += leaves(v)
        return out
    if isinstance(t, tuple) and t and t[0] == "phi":
        out = []
        for _, v in t[2]:
            out += leaves(v)
        return out
    return [t]


def run(prog):
    out = []
    wrappers = {}
    for fn in prog.lib_fns:
        if fn.no_mangle and fn.abi.startswith("C"):
            wrappers[fn.name] = fn
    missing = sorted(set(TABLE) - set(wrappers))
    extra = sorted(set(wrappers) - set(TABLE))
    if missing or extra:
        raise CheckerError("WF table out of date: rows without wrapper %s, wrappers without row %s"
                           % (missing, extra))
    named = _named_in_table()

    def helper_ok(h):
        # private helpers of the ffi modules that no table row names: pure plumbing, looked through
        return "ffi::" in h.npath and h.name not in wrappers and h.name not in named and "{closure" not in h.npath

    def norm(t):
        return norm_term(canon.inline_local(prog, norm_term(t), helper_ok))

    for name, fn in sorted(wrappers.items()):
        spec = TABLE[name]
        te = fn.terms
        errs = []
        detail = ""
        if "opt" in spec:
            # an Option elimination, in whichever spelling (match / map_or / unwrap_or ..)
            sp, np_, so = spec["opt"]
            oe = canon.opt_elim(prog, te, te.ret) or canon.opt_elim(prog, te, norm(te.ret))
            if oe is None:
                r = norm(te.ret)
                if not any(match(sp, x) is None for x in mir.subterms(r)):
                    errs.append("the result %s does not depend on %r" % (show(r)[:80], sp))
                else:
                    errs.append("?the result is not an elimination of an Option: %s" % show(te.ret)[:100])
            else:
                o, nv, sv = oe
                e = match(sp, norm(o))
                if e:
                    errs.append("scrutinee: " + e)
                e = match(np_, norm(nv))
                if e:
                    errs.append("None case: " + e)
                sv = _replace(sv, canon.payload(o), ("param", 99))
                e = match(so, norm(sv))
                if e:
                    errs.append("Some case: " + e.replace("arg99", "the payload"))
            detail = "match %r { None => %r, Some(payload) => %r }" % (sp, np_, so)
        if "ret" in spec:
            t = norm(te.ret)
            ls = leaves(t)
            main = 0
            for leaf in ls:
                e = match(spec["ret"], leaf)
                if e is None:
                    main += 1
                    continue
                if any(match(d, leaf) is None for d in spec.get("defaults", [])):
                    continue
                errs.append("return: " + e)
            if main == 0 and not errs:
                errs.append("no return path yields the native result %r" % spec["ret"])
            detail = "returns %r" % spec["ret"]
        if "effect" in spec:
            hits = []
            for cs in te.calls:
                if cs.exp:
                    continue
                tt = ("call", cs.callee, tuple(norm_term(a) for a in cs.args))
                if callee_is(cs.callee, spec["effect"].spec):
                    if spec.get("raw_effect"):
                        e = None if tuple(cs.args) == (("param", 1),) else "argument is not arg1"
                        hits.append((cs, e))
                    else:
                        hits.append((cs, match(spec["effect"], tt)))
            if not hits:
                errs.append("effect call %r not found" % spec["effect"])
            for cs, e in hits:
                if e:
                    errs.append("effect (line %d): %s" % (cs.line, e))
            detail = "performs %r" % spec["effect"]
        if spec.get("empty_map"):
            t = norm_term(te.ret)
            inner = t[2][0] if isinstance(t, tuple) and t[0] == "call" and t[2] else None
            ok = False
            if isinstance(inner, tuple) and inner[0] == "call":
                if inner[1].name == "new" and not inner[2]:
                    ok = True
                if inner[1].name == "from" and inner[2] and inner[2][0][0] == "agg" and not inner[2][0][4]:
                    ok = True
            if not ok:
                errs.append("expected an empty weight table, found %s" % show(inner))
        if "entries" in spec:
            errs += table_entries(prog, fn, spec["entries"])
        if "closure" in spec:
            kids = prog.children(fn)
            if len(kids) != 1:
                errs.append("%sexpected exactly one closure, found %d" % ("?" if not kids else "", len(kids)))
            else:
                e = match(spec["closure"], norm_term(kids[0].terms.ret))
                if e:
                    e = match(spec["closure"], norm(kids[0].terms.ret))       # through private plumbing helpers
                if e:
                    errs.append("closure: " + e)
        if spec.get("bounded_copy"):
            errs += bounded_copy(fn)
        # parameters must not be mentioned by any other native (crate-local) call
        out.append(inst("WF", "%s" % name, verdict_of(errs), fn, None, errtext(errs) if errs else detail))
    out += from_c_parts_rule(prog)
    return out


def _named_in_table():
    names = set()

    def go(p):
        if isinstance(p, C):
            names.add(p.spec.rsplit("::", 1)[-1])
            for a in p.args:
                go(a)
        elif isinstance(p, F):
            go(p.sub)
        elif isinstance(p, Agg):
            for a in p.ops:
                go(a)
        elif isinstance(p, (tuple, list)):
            for a in p:
                go(a)
    for row in TABLE.values():
        for v in row.values():
            go(v)
    return names


def _replace(t, old, new):
    if t == old:
        return new
    if not isinstance(t, tuple) or not t:
        return t
    if t[0] == "call":
        return (t[0], t[1], tuple(_replace(a, old, new) for a in t[2])) + tuple(t[3:])
    return tuple(_replace(a, old, new) if isinstance(a, tuple) else a for a in t)


def table_entries(prog, fn, spec):
    """robdd_model_count: every (key, value) put into the weight table is (VarLabel::new(counter), (one, one)),
    whether the table is collected from a mapped range or filled by inserts in a counting loop"""
    keyp, valp = spec
    te = fn.terms
    pairs = []
    for kid in prog.children(fn):
        r = strip(kid.terms.ret) if kid.terms.ret is not None else None
        if isinstance(r, tuple) and r and r[0] == "agg" and r[1] == "tuple" and len(r[4]) == 2:
            pairs.append((r[4][0], r[4][1], "closure"))
    for cs in te.calls:
        if cs.callee.name == "insert" and "HashMap" in cs.callee.key() and len(cs.args) == 3:
            pairs.append((cs.args[1], cs.args[2], "insert"))
    if not pairs:
        return ["?no (variable, weights) pair is built for the counting weights"]
    errs = []
    for k, v, how in pairs:
        e = match(keyp, k) or match(valp, v)
        if e:
            errs.append("weight table entry (%s): %s" % (how, e))
            continue
        ctr = strip(strip(k)[2][0])
        while isinstance(ctr, tuple) and ctr and ctr[0] == "cast":
            ctr = strip(ctr[2])
        okc = ctr == ("param", 2) if how == "closure" else (
            isinstance(ctr, tuple) and ctr and (ctr[0] == "mu" or (canon.is_payload(ctr) and mir.is_call(strip(ctr[1][1]), "next"))))
        if not okc:
            errs.append("weight table entry (%s): the variable is %s, not the running index" % (how, show(ctr)[:60]))
    return errs


def _min_bound(t):
    """does term t contain min(x, bound)?  returns list of bound descriptions"""
    found = []

    def f(x):
        if x[0] == "call" and x[1].name == "min" and len(x[2]) == 2:
            found.append(x)
    mir.walk(t, f)
    return found


def bounded_copy(fn):
    """polynomial_get_coeffs: the slice length and the loop bound are the same min(len, max_len)"""
    te = fn.terms
    errs = []
    frp = [cs for cs in te.calls if cs.callee.name in ("from_raw_parts_mut", "from_raw_parts")]
    if not frp:
        return ["no from_raw_parts* call found"]
    for cs in frp:
        ln = cs.args[1]
        if not _min_bound(ln):
            errs.append("line %d: length of %s is not bounded by min(..): %s" % (cs.line, cs.callee.name, show(ln)))
    # loop bound: Range{0, count}
    for (h, l), init in te.mu_init.items():
        for x in mir.subterms(init):
            if x[0] == "agg" and (x[2] or "").endswith("Range") and len(x[4]) == 2:
                if not _min_bound(x[4][1]):
                    errs.append("loop upper bound is not min(..): %s" % show(x[4][1]))
    return errs


def _is_max(a):
    a = strip(a)
    return isinstance(a, tuple) and a and ((a[0] == "const" and a[2] == "32") or
                                           (a[0] == "constitem" and a[1].endswith("MAX_COEFFS")))


def bounded_by_max(t):
    """t <= MAX_COEFFS by construction: min(.., MAX), MAX itself, or a choice every alternative of which is MAX or
    a value chosen exactly when a comparison says it does not exceed MAX"""
    t = strip(t)
    if not isinstance(t, tuple) or not t:
        return False
    if _is_max(t):
        return True
    if t[0] == "call" and t[1].name == "min" and len(t[2]) == 2:
        return any(_is_max(a) for a in t[2])
    if t[0] == "gamma":
        c = strip(t[1])
        if not (isinstance(c, tuple) and c[0] == "bin" and c[1] in ("Lt", "Le", "Gt", "Ge")):
            return False
        op, a, b = c[1], strip(c[2]), strip(c[3])
        for lab, v in t[2]:
            v = strip(v)
            if _is_max(v) or bounded_by_max(v):
                continue
            truth = 0 if lab == "0" else 1
            # the comparison, with this truth value, must say v <= MAX
            if _is_max(a) and v == b:        # MAX op v
                ok = (op == "Lt" and truth == 0) or (op == "Ge" and truth == 1) or (op == "Gt" and truth == 1)
            elif _is_max(b) and v == a:      # v op MAX
                ok = (op == "Gt" and truth == 0) or (op == "Le" and truth == 1) or (op == "Lt" and truth == 1)
            else:
                ok = False
            if not ok:
                return False
        return True
    return False


def from_c_parts_rule(prog):
    """from_c_parts: every write to `coefficients[i]` has i below a length that is at most MAX_COEFFS — the index
    enumerates a slice of that length, or a dominating test compares it with that length; the slice read has that
    same length."""
    out = []
    fns = prog.find(name="from_c_parts", path_contains="ffi::wmc")
    if len(fns) != 1:
        raise CheckerError("anchor ffi::wmc::from_c_parts missing")
    fn = fns[0]
    te = fn.terms
    errs = []
    frp = [cs for cs in te.calls if cs.callee.name == "from_raw_parts"]
    if len(frp) != 1:
        errs.append("%sexpected one from_raw_parts call" % ("?" if not frp else ""))
    else:
        ln = frp[0].args[1]
        if not (any(bounded_by_max(m) for m in _min_bound(ln)) or bounded_by_max(ln)):
            errs.append("slice length not bounded by MAX_COEFFS: %s" % show(ln))
    stores = [s for s in te.stores if "coefficients" in show(s[1])]
    if not stores:
        errs.append("?no coefficient store found")
    for (bb, pt, val, line) in stores:
        idx = pt[2] if pt[0] == "index" else None
        ok = False
        if idx is not None:
            # (a) the index is drawn from iterating the bounded slice
            src = []
            for x in mir.subterms(idx):
                if x[0] == "mutref":
                    for (h, l), init in te.mu_init.items():
                        if l == x[1]:
                            src.append(init)
            if src and all(_min_bound(s_) or any(bounded_by_max(y) for y in mir.subterms(s_)) for s_ in src):
                ok = True
            # (b) a dominating test says index < bounded length
            for c, v, _, _ in te.facts_at(bb):
                c = strip(c)
                if isinstance(c, tuple) and c and c[0] == "bin" and v != "0":
                    if c[1] == "Lt" and strip(c[2]) == strip(idx) and bounded_by_max(c[3]):
                        ok = True
                    if c[1] == "Gt" and strip(c[3]) == strip(idx) and bounded_by_max(c[2]):
                        ok = True
        if not ok:
            errs.append("line %d: index of coefficient write is not drawn from the bounded slice" % line)
    out.append(inst("WF", "from_c_parts:bounded-write", VIOLATION if errs else OK, fn, None,
                    "; ".join(errs) if errs else "coefficients[i] written only for i < min(len, MAX_COEFFS)"))
    return out
